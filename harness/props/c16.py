"""C16 — fault-free distributed execution equals in-process execution.

Real code (public entry points, over harness.fakecourier with no faults, real servers / WorkerPool):
  kind 'sharded'     : orchestrate.sharded_pipelines_as_iterator(pool, define_pipeline, num_shards, result_queue)
  kind 'interleaved' : orchestrate.run_pipeline_interleaved(pipeline, master_server, resources={stage: worker pool})
                       (a data-source stage in process -> an 'apply' stage on 1-3 remote workers fed through a
                       RemoteIteratorQueue over the master's queue -> the aggregate fused into it or as a third stage)
  kind 'strict'      : TransformRunner.merge_states / ChainedRunner.merge_states(states, strict_states_cnt=n); variants
                       'chained2' / 'chained3' = a chain with two / three AGGREGATING stages; `oneshot` = the states are
                       handed over as a one-shot generator (what compute_result does), not as a list
  kind 'cache'       : what the handler threads of ONE server do concurrently (in interleaved mode the master resolves the
                       stage-input handle once per worker request): lazy_fns.maybe_make of cached lazy functions from
                       several threads, more distinct ones than the cache holds, with a fine thread switch interval
  interleaved + `ack`: RPC latency as an environment choice: the REPLY of the first `enqueue_from_iterator` kick-off
                       (the worker is already pulling the stage input) is held back `ack` ms while the other workers
                       drain the input and finish; `lat` = [[ms, k], ..] holds back the reply of every k-th other call
  kind 'stage'       : (package C16S) ONE interleaved stage step by step: the real coroutines
                       `AsyncIteratorQueue.async_enqueue_from_iterator(CourierClient.async_iter(..))`, real worker / master
                       CourierServer handlers, RemoteIteratorQueue, producer and consumer threads over the fake courier in
                       manual mode under the deterministic scheduler + deterministic event loop; the executed operations are
                       projected onto the alphabet of the `Stage` LTS and replayed by the Lean driver (model "stage", `stepT`):
                       harness/lib_c16_stage.py
  kind 'sliced'      : (package SC16c) SLICED aggregations (`add_slice`: the states of shards / workers carry different
                       key sets) through both distributed modes - `dist` 'sharded' (result_queue) and 'interleaved'
                       (first aggregating stage on 1-3 remote workers) -, 1-3 aggregating stages x slices, skewed data,
                       empty shards; oracle = the in-process result per output key x slice key: harness/lib_c16_sliced.py
Model: lean/MlModel/Model/Sched.lean (`IT` with the all-ok environment, `trMergeStates`, `chMergeStates`,
`stageReturned`) + the queue LTS of C04; theorems lean/MlModel/Properties/C16.lean.

Oracle = the statement: outputs (as a multiset) and aggregate equal the in-process run of the same pipeline, exactly
one final AggregateResult, ValueError iff the number of states differs from the strict count.
"""
import collections
import queue

from harness import lib_sched as L
from harness import lib_sched_ext as X
from harness import lib_c16_stage as S
from harness import lib_c16_sliced as Z
from harness.core import err_kind

PID = 'C16'
TITLE = 'Fault-free distributed execution equals in-process execution'
LEAN_MODULES = ['MlModel.Properties.C16', 'MlModel.Properties.C16Sliced', 'MlModel.Properties.C16Stage', 'MlModel.Properties.C16Merge', 'MlModel.Witness.C16Stage', 'MlModel.Witness.C16Merge']
TRUSTED = [
    'the courier transport is harness/fakecourier (in-process, no faults injected here); pickling is what the repo '
    'does itself (cloudpickle of the traced pipeline)',
    'interleaved stages: the model is the shared-queue LTS of C04 (workers = consumers) plus the merge lemma; the '
    'remote plumbing (RemoteIteratorQueue -> master CourierServer -> IteratorQueue.get_batch, AsyncIteratorQueue fed by '
    'one coroutine per worker on one event loop) is exercised by the check but not modelled step by step by the kinds '
    "'interleaved'; kind 'stage' ties ONE stage step by step to Model/Stage.lean (`stepT`)",
    "kind 'stage': the harness plays the main loop of iterate_with_worker_pool (hands the coroutines to the event loop, no "
    'worker-pool acquisition), the servers run their handlers only (no housekeeping thread), heartbeats are answered inline; '
    'yield points = every lock / condition / queue-buffer / executor operation of iter_utils, courier_utils, courier_server, '
    'every request delivery and reply delivery of an RPC, every idle or spinning turn of the event loop; the events '
    '`_start_enqueue` / `_stop_enqueue` are observed by wrapping these private methods for the duration of a run; '
    'translate/stage_turn.py (ast) is trusted to count the suspension points of async_iter / async_enqueue_from_iterator',
]
ASSUMPTIONS = ['row-wise pipelines (apply / chained apply / aggregate), aggregates are mergeable metrics whose '
               'result does not depend on the order of the rows']
RULE = ('sharded: workers 1-4 x shards 1-6 x n 0..9 x three pipelines (exhaustive over the small grid, then random); '
        'interleaved: 1-3 workers x n 1..12 x {aggregate fused into the remote stage, aggregate as its own stage, no '
        'aggregate} x buffer sizes, also with the reply of the first kick-off RPC held back (2-3 workers) and with '
        'latency on random replies; strict count: 0-4 states x strict 0..5 for both runner variants and for chains with '
        'two / three aggregating stages, states as list and as one-shot generator; sharded runs of pipelines with two / '
        'three aggregating stages (p3, p4); SLICED aggregations (slicer kinds default / cross / within / fan-out fn / two '
        'slicers, data sorted or blocked by the slice feature, shard counts above the number of batches) sharded over '
        '1-3 workers x 1-8 shards and interleaved over 1-3 workers, 1-3 aggregating stages. '
        'non-trivial = more than one worker or shard and at least two output batches')

TIMEOUT = 20.0
_REF = {}


def ref(n, pipe):
  k = (n, pipe)
  if k not in _REF:
    _REF[k] = L.in_process(n, pipe)
  return _REF[k]


def gen_cases(ctx):
  for c in _gen_cases(ctx):
    ctx.count('kind', c['kind'])
    if 'workers' in c:
      ctx.count('workers', c['workers'])
    if 'shards' in c:
      ctx.count('shards', c['shards'])
    if 'mode' in c:
      ctx.count('mode', c['mode'])
    if c.get('pipe'):
      ctx.count('pipe', c['pipe'])
    if c.get('ack'):
      ctx.count('ack_latency_ms', c['ack'])
    if c.get('lat'):
      ctx.count('reply_latency', 'yes')
    if c['kind'] == 'stage':
      ctx.count('stage_sched', c['sched']['kind'] + ('/directed' if c['sched'].get('first') else ''))
    if c['kind'] == 'sliced':
      ctx.count('sliced', f"{c['dist']}/{c.get('stages', 1)} stage(s)")
      for sl in c['sub']['slicers']:
        ctx.count('sliced:slicer', sl['kind'] + ('-cross' if len(sl['keys']) > 1 else ''))
    if c['kind'] == 'strict':
      ctx.count('strict_variant', c['variant'] + ('/oneshot' if c.get('oneshot') else ''))
    yield c


def _gen_cases(ctx):
  rng = ctx.rng
  quick = ctx.quick
  for c in ctx.corpus():
    yield c
  grid = [(w, s) for w in (1, 2, 3) for s in (1, 2, 3, 4)] if quick else \
      [(w, s) for w in (1, 2, 3, 4) for s in (1, 2, 3, 4, 5, 6)]
  for (w, s) in grid:
    for n in ((0, s, s + 2) if quick else (0, 1, s, s + 1, s + 3, 9)):
      yield dict(kind='sharded', workers=w, shards=s, n=n, pipe=('p0', 'p1', 'p2')[(w + s + n) % 3])
  for _ in range(150 if quick else 2000):
    yield dict(kind='sharded', workers=rng.randrange(1, 5), shards=rng.randrange(1, 7), n=rng.randrange(0, 13),
               pipe=rng.choice(['p0', 'p1', 'p2', 'p3', 'p4']))
  # chains in which two / three stages aggregate: every stage's states come from the same one-shot stream
  for (w, s) in [(1, 1), (1, 2), (2, 2), (2, 3), (3, 4)]:
    for n in (0, s, s + 3):
      for pipe in ('p3', 'p4'):
        yield dict(kind='sharded', workers=w, shards=s, n=n, pipe=pipe)
  # default num_shards (= number of workers)
  for w in (1, 2, 3):
    yield dict(kind='sharded', workers=w, shards=0, n=5, pipe='p0')
  for w in (1, 2, 3):
    for n in ((1, 4, 9) if quick else (1, 2, 4, 7, 12)):
      for mode in ('fused', 'staged', 'noagg'):
        yield dict(kind='interleaved', workers=w, n=n, mode=mode, buffer=(0, 1, 3)[(w + n) % 3])
  for _ in range(200 if quick else 3000):
    yield dict(kind='interleaved', workers=rng.randrange(1, 4), n=rng.randrange(1, 13),
               mode=rng.choice(['fused', 'staged', 'noagg']), buffer=rng.choice([0, 1, 2, 5]))
  # RPC latency: the reply of the first kick-off is late while the other workers drain the input and finish
  for w in (2, 3):
    for n in ((6 * (w - 1),) if quick else (3, 6, 9, 12, 20)):
      for mode in ('staged', 'noagg', 'fused'):
        for at in (1, 2):
          yield dict(kind='interleaved', workers=w, n=n, mode=mode, buffer=(0, 2)[(w + n) % 2],
                     ack=(150 if quick else 300), ack_at=at)
  for _ in range(20 if quick else 1500):
    yield dict(kind='interleaved', workers=rng.randrange(2, 4), n=rng.randrange(2, 13),
               mode=rng.choice(['fused', 'staged', 'noagg']), buffer=rng.choice([0, 1, 2, 5]),
               lat=[[rng.choice([1, 3, 8]), rng.randrange(2, 6)] for _ in range(rng.choice([1, 2]))])
  # sliced aggregations through both distributed modes (package SC16c)
  for c in Z.gen_cases(rng, quick):
    yield c
  # one interleaved stage step by step against the Stage LTS (package C16S)
  for c in S.gen_cases(rng, quick):
    yield c
  # concurrent evaluation on one server: the lazy-function cache is shared by all handler threads (finding C16-F-lru)
  for threads, iters in ([(2, 1500), (4, 1500), (3, 3000)] if quick else [(t, i) for t in (2, 3, 4, 8) for i in (1000, 3000, 10000)]):
    yield dict(kind='cache', threads=threads, iters=iters)
  for k in range(0, 5):
    for strict in range(0, 6):
      for variant in ('transform', 'chained'):
        yield dict(kind='strict', states=k, strict=strict, variant=variant)
      for variant in ('chained', 'chained2', 'chained3'):
        yield dict(kind='strict', states=k, strict=strict, variant=variant, oneshot=True)
      yield dict(kind='strict', states=k, strict=strict, variant='chained2')


# ------------------------------------------------------------------------------------------ real code

def run_impl(case):
  kind = case['kind']
  if kind == 'sharded':
    return run_sharded(case)
  if kind == 'interleaved':
    return run_interleaved(case)
  if kind == 'strict':
    return run_strict(case)
  if kind == 'cache':
    return run_cache(case)
  if kind == 'sliced':
    return Z.run(case)
  if kind == 'stage':
    obs = S.run_stage(case)
    obs.pop('choices', None)      # the schedule is reproduced from the case's seed
    return obs
  raise ValueError(kind)


def run_sharded(case):
  ns = L.setup()
  cl = L.Cluster(case['workers'], [])
  rq = queue.SimpleQueue()
  batches = []
  try:
    def body():
      for b in ns.orchestrate.sharded_pipelines_as_iterator(
          cl.pool, L.define_pipeline, num_shards=case['shards'], result_queue=rq, n=case['n'], pipe=case['pipe']):
        batches.append(b)

    hang, _, exc = L.run_guarded(body, TIMEOUT)
    outcome = 'hang' if hang else ('returned' if exc is None else err_kind(exc))
    results = L.drain_queue(rq, 2.0 if outcome == 'returned' else 0.15)
    shards = case['shards'] or case['workers']
    return dict(outcome=outcome, batches=sorted(int(b) for b in batches),
                results=[L.canon_agg(r.agg_result) for r in results], acquired=cl.acquired(),
                nb=L.shard_sizes(case['n'], shards), calls=len(cl.calls()))
  finally:
    cl.close()


def interleaved_pipeline(n, mode):
  ns = L.setup()
  T = ns.transform.TreeTransform
  ds = T.new(name='ds').data_source(ns.io.SequenceDataSource(range(n)))
  apply_ = T.new(name='apply').apply(fn=L._double)
  if mode == 'fused':
    return ds.chain(apply_.aggregate(output_keys='seen', fn=ns.base.as_agg_fn(L.Collect)))
  if mode == 'staged':
    return ds.chain(apply_).chain(T.new(name='agg').aggregate(output_keys='seen', fn=ns.base.as_agg_fn(L.Collect)))
  return ds.chain(apply_)


def _chain(exc, depth=5):
  """repr of an exception with its causes (a failed stage is reported as ValueError(...) from <the real error>)."""
  out = []
  while exc is not None and depth:
    out.append(repr(exc)[:200])
    subs = getattr(exc, 'exceptions', None)
    if subs:
      out.append('[' + '; '.join(_chain(e, 2) for e in subs[:3]) + ']')
    exc = exc.__cause__ or exc.__context__
    depth -= 1
  return ' <- '.join(out)


def run_interleaved(case):
  ns = L.setup()
  X.install_exit_guard()
  cl = L.Cluster(case['workers'], [], master=True)
  out = []
  info = {}
  lat = None
  if case.get('ack') or case.get('lat'):
    workers = set(cl.names)
    state = dict(kick=0, other=0)

    def choose(call):
      if call.address not in workers:
        return None
      if X.is_kickoff(call):
        state['kick'] += 1
        if case.get('ack') and state['kick'] == case.get('ack_at', 1):
          return case['ack'] / 1000.0       # this worker has been started and is pulling; its reply is late
        return None
      state['other'] += 1
      for ms, k in case.get('lat') or ():
        if state['other'] % k == 0:
          return ms / 1000.0
      return None

    lat = X.ReplyLatency(choose)
  try:
    pipeline = interleaved_pipeline(case['n'], case['mode'])

    def body():
      with ns.orchestrate.run_pipeline_interleaved(
          pipeline, master_server=cl.master, aggregate_only=(case['mode'] == 'fused'),
          resources={'ds': ns.orchestrate.RunnerResource(buffer_size=case['buffer']),
                     'apply': ns.orchestrate.RunnerResource(worker_pool=cl.pool, buffer_size=case['buffer'])},
      ) as runner:
        for b in runner.result_queue:
          out.append(b)
      info['returned'] = list(runner.result_queue.returned)

    hang, _, exc = L.run_guarded(body, 5.0 if lat is not None else TIMEOUT)
    outcome = 'hang' if hang else ('returned' if exc is None else err_kind(exc))
    returned = info.get('returned', [])
    obs = dict(outcome=outcome, detail=_chain(exc) if exc is not None else None,
                batches=sorted(int(b) for b in out if b is not None), nones=sum(1 for b in out if b is None),
                results=[L.canon_agg(r.agg_result) if isinstance(r, ns.transform.AggregateResult) else repr(r)
                         for r in returned],
                acquired=cl.acquired(), delayed=(len(lat.delayed) if lat is not None else 0),
                kick_delayed=(sum(1 for _, m in lat.delayed if m == 'maybe_make') if lat is not None else 0))
    if hang or oracle(case, obs) is not None:
      # a run that lost batches leaves producers blocked for ever on the stage queues: they must not wedge the
      # interpreter's exit (the verdict - an oracle failure with this case as replay - is not affected)
      X.forget_stuck_threads()
    return obs
  finally:
    if lat is not None:
      lat.close()
    cl.close()


def _sq(i):
  return i * i


def run_cache(case):
  """`threads` handler threads evaluate cached lazy functions through the public `lazy_fns.maybe_make`: two thirds
  new ones (insert; evict once the cache is full), one third repeated ones (hits)."""
  import sys
  import threading
  ns = L.setup()
  lf = ns.lazy_fns
  lf.clear_cache()
  errs, wrong = [], []

  def work(t):
    for j in range(case['iters']):
      i = (t * 100000 + j) if j % 3 else (j % 7)
      try:
        v = lf.maybe_make(lf.trace(_sq)(i, cache_result_=True))
        if v != i * i:
          wrong.append([i, v])
      except Exception as e:  # pylint: disable=broad-except
        errs.append(f'{type(e).__name__}')
        return

  old = sys.getswitchinterval()
  sys.setswitchinterval(1e-6)
  try:
    ts = [threading.Thread(target=work, args=(t,), daemon=True) for t in range(case['threads'])]
    for t in ts:
      t.start()
    for t in ts:
      t.join(30)
    hang = any(t.is_alive() for t in ts)
  finally:
    sys.setswitchinterval(old)
  info = lf.cache_info()
  lf.clear_cache()
  return dict(outcome='hang' if hang else ('returned' if not errs else errs[0]), errors=len(errs), wrong=wrong[:3],
              currsize=info.currsize, maxsize=info.maxsize, evaluations=info.hits + info.misses)


def run_strict(case):
  ns = L.setup()
  T = ns.transform.TreeTransform
  t = T.new(name='a').aggregate(output_keys='sc', fn=ns.base.as_agg_fn(L.SumCount))
  nstages = {'chained2': 2, 'chained3': 3}.get(case['variant'], 1)
  for j in range(1, nstages):
    # further AGGREGATING stages: stage j adds j*100 to every value before summing it
    t = t.chain(T.new(name=f'a{j}').apply(fn=_ADD[j]).aggregate(output_keys=f'sc{j}', fn=ns.base.as_agg_fn(L.SumCount)))
  chained = t.make()
  whole = case['variant'] != 'transform'
  runner = chained if whole else list(chained.named_aggs.values())[0]
  states = []
  for i in range(case['states']):
    st = runner.create_state()
    if whole:
      st = chained.update_state(st, 10 + i)
    else:
      st = runner.update_state(st, 10 + i)
    states.append(st)
  oneshot = case.get('oneshot') or case['variant'] == 'transform'
  try:
    merged = runner.merge_states((s for s in states) if oneshot else states, strict_states_cnt=case['strict'])
  except Exception as e:  # pylint: disable=broad-except
    return dict(outcome=err_kind(e), total=None, totals=None)
  if not merged:
    return dict(outcome='returned', total=0, totals=[0] * nstages)      # no state at all: the empty merge
  res = runner.get_result(merged)
  keys = ['sc'] + [f'sc{j}' for j in range(1, nstages)]
  totals = []
  for k in keys:       # (no `k in res`: membership on a tree view probes integer indices for ever)
    try:
      totals.append(int(list(res[k])[0]))
    except Exception:  # pylint: disable=broad-except
      totals.append(None)
  return dict(outcome='returned', total=totals[0], totals=totals)


def _add100(x):
  return x + 100


def _add200(x):
  return x + 200


_ADD = {1: _add100, 2: _add200}


def stage_totals(case):
  """What every aggregating stage of the 'strict' case has to report after merging ALL states: stage j sums the
  values 10+i shifted by the stages before it."""
  nstages = {'chained2': 2, 'chained3': 3}.get(case['variant'], 1)
  k = case['states']
  out, shift = [], 0
  for j in range(nstages):
    shift += 100 * j
    out.append(sum(10 + i + shift for i in range(k)))
  return out


# ------------------------------------------------------------------------------------------ oracle

def oracle(case, obs):
  kind = case['kind']
  if kind == 'stage':
    return S.oracle(case, obs)
  if kind == 'sliced':
    return Z.oracle(case, obs)
  if kind == 'cache':
    if obs['outcome'] != 'returned':
      return (f"evaluating cached lazy functions on {case['threads']} handler threads: {obs['errors']} threads died with "
              f"{obs['outcome']} (in process every evaluation returns its value)")
    if obs['wrong']:
      return f"concurrent evaluation returned wrong values (argument, value): {obs['wrong']}"
    if obs['currsize'] > obs['maxsize']:
      return f"the cache reports {obs['currsize']} entries, more than its maximum {obs['maxsize']}"
    return None
  if kind == 'strict':
    k, n = case['states'], case['strict']
    if n >= 1 and k != n:
      return None if obs['outcome'] == 'ValueError' else f'{k} states, strict count {n}: expected ValueError, got {obs}'
    if obs['outcome'] != 'returned':
      return f'{k} states, strict count {n}: unexpected {obs["outcome"]}'
    want = stage_totals(case)
    if k == 0:
      want = [0] * len(want)
    return None if obs['totals'] == want else \
        f'merge of {k} states: per aggregating stage {obs["totals"]}, expected {want} (every stage merges ALL states)'
  if obs['acquired']:
    return f"workers still acquired afterwards: {obs['acquired']}"
  if obs['outcome'] != 'returned':
    return f"fault-free run ended with {obs['outcome']} {obs.get('detail') or ''}"
  if kind == 'sharded':
    ref_batches, ref_agg = ref(case['n'], case['pipe'])
    if collections.Counter(obs['batches']) != collections.Counter(int(b) for b in ref_batches):
      return f"output batches {obs['batches']} differ (as a multiset) from the in-process run {sorted(ref_batches)}"
    if len(obs['results']) != 1:
      return f"{len(obs['results'])} aggregate results on result_queue, expected exactly one"
    if obs['results'][0] != ref_agg:
      return f"final aggregate {obs['results'][0]} differs from the in-process result {ref_agg}"
    return None
  # interleaved
  n, mode = case['n'], case['mode']
  want = collections.Counter(2 * i for i in range(n))
  if mode == 'fused':
    # aggregate_only: the batches themselves are not returned (None placeholders), one per input batch
    if obs['batches'] or obs['nones'] != n:
      return f"aggregate-only stage delivered {obs['batches']} + {obs['nones']} placeholders, expected {n} placeholders"
  elif collections.Counter(obs['batches']) != want:
    return f"output batches {obs['batches']} differ from the in-process run {sorted(want.elements())}"
  if mode == 'noagg':
    return None if not obs['results'] else f"unexpected returned values {obs['results']}"
  if len(obs['results']) != 1:
    return f"{len(obs['results'])} AggregateResults left in result_queue.returned, expected exactly one"
  want_agg = {'seen': [[2 * i, 1] for i in range(n)]}
  if obs['results'][0] != want_agg:
    return f"final aggregate {obs['results'][0]} differs from the in-process result {want_agg}"
  return None


# ------------------------------------------------------------------------------------------ model

def model_requests_obs(case, obs):
  kind = case['kind']
  if kind == 'stage':
    return [S.model_request(case, obs)]
  if kind == 'sliced':
    return Z.model_requests(case, obs)
  if kind == 'strict':
    if case['variant'] in ('chained2', 'chained3') or case.get('oneshot'):
      ns_ = {'chained2': 2, 'chained3': 3}.get(case['variant'], 1)
      shifts = [0, 100, 300][:ns_]
      return [dict(model='sched', op='merge_multi', stages=ns_, strict=case['strict'],
                   states=[[10 + i + sh for sh in shifts] for i in range(case['states'])])]
    return [dict(model='sched', op='merge', states=[10 + i for i in range(case['states'])], strict=case['strict'])]
  if kind == 'sharded':
    nb = obs['nb']
    req = dict(model='sched', workers=case['workers'], nb=nb, threshold=999999, plans=[[] for _ in range(case['workers'])])
    if case['workers'] <= 2 and len(nb) <= 2 and sum(nb) <= 4:
      return [dict(req, op='it_explore', cap=60000)]
    return [dict(req, op='it_sample', runs=40, seed=case['n'] + 7 * len(nb))]
  return []


def model_obs(case, resps):
  if not resps:
    return None
  if case['kind'] == 'sliced':
    return dict(kind='sliced', case=case, resps=resps)
  r = resps[0]
  if case['kind'] == 'stage':
    for p in r.get('points', []):
      _ARMS['stage:' + p] += 1
    return dict(kind='stage', case=case, r=r)
  if case['kind'] == 'strict' and ('totals' in r or 'err' in r):
    if 'err' in r:
      return dict(kind='strict', outcome='ValueError', total=None, totals=None)
    tot = r['totals'] if case['states'] else [0] * len(r['totals'])
    return dict(kind='strict', outcome='returned', total=tot[0], totals=tot)
  if case['kind'] == 'strict':
    v = r[case['variant']]
    return dict(kind='strict', outcome='ValueError' if isinstance(v, dict) else 'returned',
                total=None if isinstance(v, dict) else v, totals=None)
  return dict(kind='sharded', terminals=r['terminals'], stuck=r['stuck'])


def compare(obs, mobs):
  if mobs is None:
    return None
  if mobs['kind'] == 'stage':
    return S.compare(mobs['case'], obs, mobs['r'])
  if mobs['kind'] == 'sliced':
    return Z.compare(mobs['case'], obs, mobs['resps'])
  if mobs['kind'] == 'strict':
    a = (obs['outcome'], obs['total'])
    b = (mobs['outcome'], mobs['total'])
    if mobs.get('totals') is not None and obs.get('totals') != mobs['totals']:
      return f"impl per-stage totals {obs.get('totals')} model {mobs['totals']}"
    return None if a == b else f'impl {a} model {b}'
  # sharded, fault-free: the model has exactly one terminal observation whatever the schedule (theorem C16_sharded)
  ts = mobs['terminals']
  if mobs['stuck'] or len(ts) != 1 or ts[0]['outcome'] != 'returned' or not ts[0]['complete']:
    return f'model: fault-free run is not deterministic-successful: {ts[:4]} stuck={mobs["stuck"]}'
  nonempty = [s for s, size in enumerate(obs['nb']) if size]
  merged = [s for s in ts[0]['result'] if s in nonempty] if isinstance(ts[0]['result'], list) else ts[0]['result']
  if obs['outcome'] != 'returned':
    return f"model returns normally, real run: {obs['outcome']}"
  # shards merged according to the real aggregate: every non-empty shard exactly once
  if merged != nonempty:
    return f'model merged shards {merged}, expected {nonempty}'
  return None


_ARMS = collections.Counter()
REQUIRED_ARMS = ['cache:concurrent-evaluation-beyond-capacity', 'interleaved:kickoff-reply-late(2+ workers)', 'interleaved:reply-latency', 'sharded:two-aggregating-stages',
                 'sharded:three-aggregating-stages', 'strict:multi-stage-oneshot-merged', 'strict:multi-stage-oneshot-rejected',
                 'stage:run-completed'] + ['stage:' + p for p in S.REQUIRED_POINTS] + Z.REQUIRED_ARMS


def _cover(case, obs):
  kind = case['kind']
  if oracle(case, obs) is not None:
    _ARMS['(oracle failed)'] += 1      # the verdict is a VIOLATION; coverage does not decide this run
  if kind == 'sliced':
    for a in Z.arms(case, obs):
      _ARMS[a] += 1
    return
  if kind == 'stage':
    _ARMS['stage:run-completed' if obs['outcome'] == 'done' else 'stage:run-' + str(obs['outcome'])] += 1
    return
  if kind == 'cache' and case['threads'] >= 2 and obs['evaluations'] > obs['maxsize']:
    _ARMS['cache:concurrent-evaluation-beyond-capacity'] += 1
  if kind == 'interleaved' and obs.get('kick_delayed') and case.get('ack') and case['workers'] >= 2:
    _ARMS['interleaved:kickoff-reply-late(2+ workers)'] += 1
  if kind == 'interleaved' and case.get('lat') and obs.get('delayed'):
    _ARMS['interleaved:reply-latency'] += 1
  if kind == 'sharded' and obs['outcome'] == 'returned' and (case['shards'] or case['workers']) >= 2 and case['n'] >= 2:
    if case['pipe'] == 'p3':
      _ARMS['sharded:two-aggregating-stages'] += 1
    if case['pipe'] == 'p4':
      _ARMS['sharded:three-aggregating-stages'] += 1
  if kind == 'strict' and case.get('oneshot') and case['variant'] in ('chained2', 'chained3') and case['states'] >= 2:
    _ARMS['strict:multi-stage-oneshot-' + ('merged' if obs['outcome'] == 'returned' else 'rejected')] += 1


def extra(ctx):
  """Coverage promise (else: infrastructure failure, not a verdict)."""
  from harness.core import InfraError
  for k, v in sorted(_ARMS.items()):
    ctx.count('arm', k, v)
  missing = [a for a in REQUIRED_ARMS if not _ARMS.get(a)]
  if missing and not _ARMS.get('(oracle failed)'):
    raise InfraError(f'C16 generator missed promised arms: {missing}')


def nontrivial(case, obs):
  _cover(case, obs)
  if case['kind'] == 'cache':
    return obs['evaluations'] > obs['maxsize'] and case['threads'] >= 2
  if case['kind'] == 'strict':
    return case['states'] >= 2 and case['strict'] >= 1
  if case['kind'] == 'stage':
    return case['workers'] > 1 and case['n'] >= 2 and obs['outcome'] == 'done'
  if case['kind'] == 'sliced':
    return bool(obs.get('arrivals')) and len(case['sub']['batches']) >= 2
  return (case['workers'] > 1 or case.get('shards', 1) > 1) and case['n'] >= 2


def neighbours(case, rng):
  """failing-input search around a stage case whose tie broke: the same configuration (and larger ones) under other
  schedules, among them the directed ones that let the worker threads run between kick-off and registration"""
  if case.get('kind') != 'stage':
    return
  for k in range(400):
    first = [None, ['rpc', 'wjob'], ['producer', 'rpc', 'wjob'], ['rpc', 'wjob', 'pool', 'consumer']][k % 4]
    sch = dict(kind=('random', 'pct')[k % 2], seed=rng.randrange(10**9), spin_p=rng.choice([0.05, 0.15, 0.4]))
    if first:
      sch.update(first=first, first_p=0.9)
    yield dict(kind='stage', n=max(2, case['n']) + k % 3, workers=max(2, case['workers']), buffer=case.get('buffer', 0), sched=sch)


def finding(case, what):
  return None
