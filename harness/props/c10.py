"""C10 — checkpoint and resume continue exactly where iteration stopped.

Real code (entered through the public API a user calls to checkpoint):
  io.SequenceDataSource(...).shard(...).iterate() / io.ShardedIterable(...).iterate():  `it.state`, `.from_state(state)`
  transform.TreeTransform(...).data_source(ds)....agg(...).make().iterate():            `it.state`, `.from_state(state)`,
                                                                                        `it.agg_result`
  chains of 1..5 named transforms (`.chain(TreeTransform(name=...)...)`, one runner each), an aggregate at any subset of
  the stages: additionally `it.agg_state`, `StopIteration.value` (AggregateResult) and `it.agg_result` after every op
  (harness/lib_resume_chain.py; model lean/MlModel/Model/ResumeChain.lean, wire name "resumechain")
  pipelines whose aggregation is SLICED (round 10): 1-2 named transforms, stacked aggregates, all five slicer kinds of C02, the
  aggregation state a dict with dynamic per-slice keys; `it.agg_result` per output key x slice key and the keys of `it.agg_state`
  after the history vs the uninterrupted run (harness/lib_resume_sliced.py; model lean/MlModel/Model/ResumeSliced.lean, wire name
  "resumesliced")
Model: lean/MlModel/Model/Resume.lean, ResumeChain.lean; theorems: lean/MlModel/Properties/C10.lean; witnesses of the
open findings and of the seeded regression C10-m3: lean/MlModel/Witness/C10.lean.

A history is a list of `take k` / `ckpt` (capture `it.state`, keep iterating) / `restore` (abandon the
running iterator, build a new one from the last captured state).  What was delivered after the last
checkpoint is rolled back by a restore; the *surviving timeline* is what the property speaks about.
"""
import copy
import itertools

from harness.core import deep_close
from harness import lib_resume as L
from harness import lib_resume_chain as LC
from harness import lib_resume_sliced as LS

PID = 'C10'
TITLE = 'Checkpoint and resume continue exactly where iteration stopped'
LEAN_MODULES = ['MlModel.Properties.C10', 'MlModel.Witness.C10']
STAGE_NAMES = 'abcde'
TRUSTED = [
    'modelled, not verified: MergedSequences slicing / _RangeIterator read-ahead (a slice iterator is a position in a '
    'list), copy.deepcopy of the aggregation state (value semantics in the model; aliasing is probed on the real '
    'objects by ckpt-continue-restore and restore-twice histories), CPython threads and IteratorQueue (the threaded '
    'model is a transition system whose schedule is an input; the observed schedule of a real run is replayed on it)',
    'user functions of the pipelines are a*x+b maps and a modulus filter; aggregates are sum/count (a functional and an '
    'in-place Aggregatable of the harness) and rolling_stats.MeanAndVariance().as_agg_fn()',
]
ASSUMPTIONS = [
    'the random-access data does not raise (failing elements are the subject of C12)',
    'shard offsets do not exceed the shard length and shard_index < num_shards (C09 covers shard itself)',
    'pipelines of one runner or chains of 1-5 named transforms (one runner each, row-wise: map / filter) with an aggregate '
    'at any subset of the stages; aggregate state copied by value',
    'sliced aggregations: the pipelines of the C02 model (stacked aggregates, five slicer kinds, filter / replace masks) over an un-sharded '
    'SequenceDataSource of dict batches, num_threads = 0, chains that are the identity or a batch filter; cases whose UNINTERRUPTED run raises are '
    "C02's subject (outside the C10 oracle)",
]
RULE = ('corpus (witnesses of F1/F12/F16 and of the restore-twice aliasing), then small-exhaustive second-generation '
        'restores (every pair of cut points of sources of <= 7 elements under 9 shard chains, both source kinds), then '
        'random histories (<= 6 checkpoints, sources <= 30 elements, shard chains of depth <= 3, merged sequences, '
        'pipelines map / filter / batch / re-batch / two chained named transforms, three aggregates, num_threads in {0,1,2,4}, both restore '
        'idioms), chains of 1-5 named transforms with an aggregate at every subset of the stages (small-exhaustive: every '
        'cut position incl. before the first and after the last element / after the observed StopIteration, x six history '
        'shapes: one restore, second generation, restore-then-checkpoint-immediately, restore twice from one state, '
        'checkpoint-continue-restore, third generation; then random chains with filters at random stages, three aggregate '
        'kinds, random histories; every promised arm is enforced: exit 2 if a run misses one), '
        'pipelines with SLICED aggregations (round 10; harness/lib_resume_sliced.py): six slicer shapes (single, cross, within, within-cross, fan-out fn, '
        'slice_mask_fn) x six history shapes x every cut position 0..n+1 over 4-batch streams, every fourth with a second named transform that has its '
        'own sliced aggregate, every fifth with a batch filter, then 350 random C02 pipelines (1-3 stacked aggregates, 0-3 slicers, filter / replace, both '
        'worlds) as 1-2 named transforms under random histories; observed: delivered batches, agg_result per output key x slice key after every op, '
        'agg_state keys; 33 promised arms enforced (each slicer kind restored after >= 1 aggregated batch, ...), '
        'and ~8% rejected configurations (num_shards = 0); non-trivial = at least one restore that follows '
        'a delivered element while elements remain; distinct = distinct canonical case JSON')

CHAINS = [
    [], [dict(idx=0, num=2, off=0)], [dict(idx=1, num=2, off=0)], [dict(idx=1, num=3, off=1)],
    [dict(idx=0, num=1, off=2)],
    [dict(idx=0, num=2, off=0), dict(idx=1, num=2, off=0)],
    [dict(idx=1, num=2, off=1), dict(idx=0, num=2, off=0)],
    [dict(idx=2, num=3, off=0), dict(idx=0, num=1, off=1)],
    [dict(idx=0, num=2, off=0), dict(idx=0, num=2, off=0), dict(idx=1, num=2, off=0)],
]


def mk_data(n, width=1, base=0):
  return [[base + i * width + j for j in range(width)] for i in range(n)]


def mk_case(src, data, scalar, ops, pipe=None, threads=0, idiom='fresh', final=1000):
  return dict(src=src, data=data, scalar=scalar, pipe=pipe, threads=threads if pipe else 0, ops=ops,
              final=final, idiom=idiom)


def rand_chain(rng, depth):
  out = []
  for _ in range(depth):
    num = rng.choice([1, 2, 2, 3, 4])
    out.append(dict(idx=rng.randrange(num), num=num, off=rng.choice([0, 0, 0, 1, 2])))
  return out


def chain_len(n, chain):
  """length of the chained shard (plain Python arithmetic of the documented contract), to keep offsets inside"""
  start, stop = 0, n
  for c in chain:
    ln = stop - start
    q, r = divmod(ln, c['num'])
    s = start + sum(q + 1 if i < r else q for i in range(c['idx']))
    a = q + 1 if c['idx'] < r else q
    if c['off'] > a:
      return None
    start, stop = s + c['off'], s + a
  return stop - start


def rand_ops(rng, n, max_ckpt):
  ops, ck = [], 0
  for _ in range(rng.randrange(1, 14)):
    x = rng.random()
    if x < 0.45:
      ops.append(['take', rng.choice([0, 1, 1, 2, 3, max(1, n // 3)])])
    elif x < 0.6 and ck < max_ckpt:
      ops.append(['ckpt'])
      ck += 1
    elif x < 0.7:
      ops.append(['restore'])
    elif ck < max_ckpt:
      ops += [['ckpt'], ['restore']]
      ck += 1
  return ops


def rand_pipe(rng, scalar):
  pipe = dict(a=rng.choice([1, 1, 2, 3]), b=rng.choice([0, 100, 7]), drop=None, target=0,
              agg=rng.choice(['sumcount', 'sumcount_inplace']), via='batch')
  kind = rng.choice(['map', 'map', 'filter', 'batch', 'batch'])
  if kind == 'filter' and scalar:
    m = rng.choice([2, 3])
    pipe['drop'] = dict(m=m, r=rng.randrange(m))
  if kind == 'batch':
    pipe['target'] = rng.choice([1, 2, 3, 4])
    pipe['via'] = 'batch' if scalar else 'apply'
  if (not scalar or (pipe['target'] and pipe['via'] == 'batch')) and rng.random() < 0.4:
    pipe['agg'] = 'meanvar'
  if not pipe['target'] and rng.random() < 0.25:
    pipe['chain2'] = dict(a=rng.choice([1, 2]), b=rng.choice([0, 5]))
  return pipe


def gen_cases(ctx):
  rng, quick = ctx.rng, ctx.quick
  for c in ctx.corpus():
    ctx.count('class', 'corpus')
    yield c
  # small-exhaustive: second-generation restore at every pair of cut points
  nmax = 5 if quick else 7
  for kind in ('seq', 'iter'):
    for n in range(0, nmax + 1):
      chains = CHAINS if kind == 'seq' else [dict(idx=0, num=1, off=0), dict(idx=1, num=2, off=0),
                                             dict(idx=2, num=3, off=1), dict(idx=0, num=2, off=3)]
      for ch in chains:
        if kind == 'seq':
          ln = chain_len(n, ch)
          if ln is None:
            continue
          src = dict(kind='seq', chain=ch)
        else:
          ln = n
          src = dict(kind='iter', **ch)
        for a in range(0, min(ln, 3) + 1):
          for b in range(0, min(ln, 3) + 1):
            ops = [['take', a], ['ckpt'], ['restore'], ['take', b], ['ckpt'], ['restore']]
            ctx.count('class', 'exhaustive')
            yield mk_case(src, mk_data(n), True, ops)
  # random histories
  for _ in range(700 if quick else 15000):
    n = rng.choice([0, 1, 2, 3, 5, 8, 13, 21, 30])
    kind = rng.choice(['seq', 'seq', 'iter'])
    scalar = rng.random() < 0.7
    width = 1 if scalar else rng.choice([1, 2, 3, 4])
    data = mk_data(n, width)
    if kind == 'seq':
      ch = rand_chain(rng, rng.choice([0, 0, 1, 1, 2, 3]))
      if chain_len(n, ch) is None:
        ch = [dict(c, off=0) for c in ch]
      src = dict(kind='seq', chain=ch)
      if rng.random() < 0.2 and n:
        src['parts'] = sorted(rng.randrange(0, n + 1) for _ in range(rng.choice([1, 2])))
        src['parts'] = [b - a for a, b in zip([0] + src['parts'], src['parts'])]
    else:
      num = rng.choice([1, 1, 2, 3])
      src = dict(kind='iter', idx=rng.randrange(num), num=num, off=rng.choice([0, 0, 1, n // 2]))
    pipe, threads = None, 0
    if rng.random() < 0.6:
      pipe = rand_pipe(rng, scalar)
      threads = rng.choice([0, 0, 0, 1, 2, 4])
      if threads and kind == 'iter':
        src = dict(kind='iter', idx=0, num=1, off=0)    # _actual_inputs re-shards the iterable itself
      if threads and (pipe['target'] or pipe.get('chain2')):
        threads = 0                                     # batch boundaries depend on threads (C03/F18), not C10
    elif not scalar:
      scalar, data = True, mk_data(n)
    ops = rand_ops(rng, n, 6)
    case = mk_case(src, data, scalar, ops, pipe, threads, idiom=rng.choice(['fresh', 'fresh', 'self']))
    ctx.count('class', 'random')
    ctx.count('source', kind + (f":depth{len(src['chain'])}" if kind == 'seq' else ''))
    ctx.count('threads', threads if pipe else 'source-only')
    ctx.count('pipeline', 'none' if not pipe else ('rebatch' if pipe['target'] and not scalar else
                                                   'batch' if pipe['target'] else 'filter' if pipe['drop'] else 'map'))
    ctx.count('runners', 0 if not pipe else 2 if pipe.get('chain2') else 1)
    ctx.count('checkpoints', sum(1 for o in ops if o[0] == 'ckpt'))
    ctx.count('restores', sum(1 for o in ops if o[0] == 'restore'))
    yield case
  # chains of named transforms of any length, aggregates at any subset of the stages
  for c in chain_cases(ctx):
    yield c
  # pipelines whose aggregation is sliced: the aggregation state has dynamic keys
  for c in LS.gen_cases(ctx, rand_ops):
    yield c
  # rejected configurations
  for _ in range(60 if quick else 1500):
    n = rng.randrange(0, 8)
    if rng.random() < 0.5:
      ch = rand_chain(rng, rng.choice([1, 2, 3]))
      ch[rng.randrange(len(ch))]['num'] = 0
      src = dict(kind='seq', chain=ch)
    else:
      src = dict(kind='iter', idx=rng.randrange(3), num=0, off=0)
    ctx.count('class', 'rejected')
    yield dict(mk_case(src, mk_data(n), True, rand_ops(rng, n, 3)), malformed=True)



# ----------------------------------------------------------------------------- chains of 1..5 named transforms

CHAIN_SHAPES = {
    'one-restore': lambda a, b: [['take', a], ['ckpt'], ['restore']],
    'second-generation': lambda a, b: [['take', a], ['ckpt'], ['restore'], ['take', b], ['ckpt'], ['restore']],
    'restore-then-ckpt': lambda a, b: [['take', a], ['ckpt'], ['restore'], ['ckpt'], ['restore'], ['take', b]],
    'restore-twice': lambda a, b: [['take', a], ['ckpt'], ['restore'], ['take', b], ['restore']],
    'ckpt-continue-restore': lambda a, b: [['take', a], ['ckpt'], ['take', b], ['restore']],
    'third-generation': lambda a, b: [['take', a], ['ckpt'], ['restore'], ['take', b], ['ckpt'], ['restore'], ['take', 1],
                                      ['ckpt'], ['restore']],
}


def mk_stage(i, a=1, b=0, drop=None, agg=None):
  return dict(name=STAGE_NAMES[i], a=a, b=b, drop=drop, agg=agg)


def subsets_of(nst, rng, quick):
  """aggregate positions: every subset for <= 3 stages; for 4-5 stages every singleton, none, all, and random ones"""
  alls = [frozenset(i for i in range(nst) if m >> i & 1) for m in range(1 << nst)]
  if nst <= 3:
    return alls
  keep = [frozenset(), frozenset(range(nst))] + [frozenset([i]) for i in range(nst)]
  rest = [x for x in alls if x not in keep]
  rng.shuffle(rest)
  return keep + rest[:(4 if quick else 12)]


def count_chain(ctx, case, arm):
  st = case['pipe']['stages']
  nst = len(st)
  ops = case['ops']
  restores = sum(1 for o in ops if o[0] == 'restore')
  ctx.count('chain_arm', arm)
  ctx.count('chain_stages', nst)
  for i, x in enumerate(st):
    if x['agg']:
      ctx.count('chain_agg_at', f'{nst}:{i}')
      if restores and i < nst - 2:
        ctx.count('chain_agg_before_last_two_restored', nst)
  if not any(x['agg'] for x in st):
    ctx.count('chain_agg_at', f'{nst}:none')
  ctx.count('chain_restores', min(restores, 4))
  if any(a[0] == 'restore' and b[0] == 'ckpt' for a, b in zip(ops, ops[1:])):
    ctx.count('chain_restore_then_ckpt', nst)
  if any(x['drop'] for x in st):
    ctx.count('chain_filter', nst)


def chain_cases(ctx):
  rng, quick = ctx.rng, ctx.quick
  n = 3
  for nst in range(1, 6):
    for sub in subsets_of(nst, rng, quick):
      stages = [mk_stage(i, a=[1, 2, 1, 3, 1][i], b=[1, 0, -3, 0, 5][i], agg='sumcount' if i in sub else None)
                for i in range(nst)]
      # cut positions: 0 = before the first element, n = after the last, n + 1 = after the observed StopIteration
      for shape, mk in CHAIN_SHAPES.items():
        cuts = range(0, n + 2) if shape in ('one-restore', 'second-generation') or not quick else (0, 1, n + 1)
        for a in cuts:
          b = 1 if shape != 'second-generation' else (a + nst) % 3
          case = mk_case(dict(kind='seq', chain=[]), mk_data(n), True, mk(a, b),
                         dict(stages=stages), 0, idiom='self' if (a + nst + len(shape)) % 2 else 'fresh')
          count_chain(ctx, case, 'exhaustive')
          ctx.count('chain_shape', shape)
          ctx.count('chain_cut', 'before-first' if a == 0 else 'after-last' if a == n else
                    'after-stop' if a > n else 'middle')
          yield case
  for _ in range(250 if quick else 6000):
    nst = rng.choice([1, 2, 3, 3, 4, 4, 5, 5])
    scalar = rng.random() < 0.75
    n = rng.choice([0, 1, 2, 3, 5, 8, 13])
    data = mk_data(n, 1 if scalar else rng.choice([1, 2, 3]))
    stages = []
    for i in range(nst):
      drop = None
      if rng.random() < 0.25:
        m = rng.choice([2, 3])
        drop = dict(m=m, r=rng.randrange(m))
      agg = None
      if rng.random() < 0.55:
        agg = rng.choice(['sumcount', 'sumcount_inplace'] if scalar else ['sumcount', 'sumcount_inplace', 'meanvar'])
      stages.append(mk_stage(i, a=rng.choice([1, 1, 2, 3]), b=rng.choice([0, 1, 7, -2]), drop=drop, agg=agg))
    kind = rng.choice(['seq', 'seq', 'iter'])
    if kind == 'seq':
      ch = rand_chain(rng, rng.choice([0, 0, 1, 2]))
      if chain_len(n, ch) is None:
        ch = [dict(c, off=0) for c in ch]
      src = dict(kind='seq', chain=ch)
    else:
      num = rng.choice([1, 2, 3])
      src = dict(kind='iter', idx=rng.randrange(num), num=num, off=rng.choice([0, 0, 1]))
    case = mk_case(src, data, scalar, rand_ops(rng, n, 6), dict(stages=stages), 0,
                   idiom=rng.choice(['fresh', 'self']))
    count_chain(ctx, case, 'random')
    yield case


def is_chain(case):
  return bool(case.get('pipe') and case['pipe'].get('stages'))


def chain_req(case, ops):
  src = case['src']
  s = dict(kind='seq', chain=src['chain']) if src['kind'] == 'seq' else dict(
      kind='iter', idx=src['idx'], num=src['num'], off=src['off'])
  stages = [dict(name=st['name'], a=st['a'], b=st['b'], drop=st.get('drop'), agg=bool(st.get('agg')))
            for st in case['pipe']['stages']]
  return dict(model='resumechain', src=s, data=case['data'], stages=stages, ops=ops, final=case['final'])


def _named(pairs):
  """the model's agg_state [[stage name, {sum,count}], ...] -> what the API shows: {'k<name>': {...}} / None"""
  if not pairs:
    return None
  return {'k' + nm: {'sum': float(v['sum']), 'count': float(v['count'])} for nm, v in pairs}


def chain_model_obs(case, resps):
  r, f = resps
  if r.get('err'):
    return dict(err=r['err'])
  # `_ChainedRunnerIterator.__next__` (transform.py:489-506): exhaustion returns AggregateResult(agg_result, agg_state)
  agg, fagg = _named(r['agg']), _named(f['agg'])
  return dict(err=None, log=r['log'][:-1], final=r['log'][-1], agg=agg, agg_state=agg,
              ret=None if agg is None else dict(result=agg, state=agg), snaps=[_named(x) for x in r['snaps']],
              start_agg=_named(r['start_agg']),
              full=f['log'][-1], full_agg=fagg, full_agg_state=fagg,
              full_ret=None if fagg is None else dict(result=fagg, state=fagg))


def chain_compare(impl, model):
  if impl.get('err') or model.get('err'):
    return None if impl.get('err') == model.get('err') else f"error kinds differ: impl {impl.get('err')} model {model.get('err')}"
  for k in ('log', 'final', 'full'):
    if impl[k] != model[k]:
      return f'{k} differs'
  for k in ('agg', 'agg_state', 'ret', 'snaps', 'start_agg', 'full_agg', 'full_agg_state', 'full_ret'):
    if not deep_close(impl[k], model[k]):
      return f'{k} differs: impl {impl[k]} model {model[k]}'
  return None


def chain_oracle(case, obs):
  """Elements as for every pipeline; aggregates: the restored run ends with the SAME AggregateResult - every stage's
  metrics - as the uninterrupted run, read through agg_result, agg_state and the returned AggregateResult; every stage
  that was given an aggregate reports one; and a restore continues from the aggregate of the checkpoint it restores."""
  stages = case['pipe']['stages']
  want_keys = sorted(LC.stage_key(st) for st in stages if st.get('agg'))
  for k in ('agg', 'agg_state', 'full_agg', 'full_agg_state'):
    have = sorted(obs[k]) if obs[k] is not None else []
    if have != want_keys:
      return f'aggregate: {k} reports the stages {have}, the pipeline has aggregates at {want_keys}'
  for k, fk in (('agg', 'full_agg'), ('agg_state', 'full_agg_state'), ('ret', 'full_ret')):
    if not deep_close(obs[k], obs[fk]):
      return f"aggregate: {k} after the history is {obs[k]}, the uninterrupted run's is {obs[fk]}"
  if want_keys and (not isinstance(obs['ret'], dict) or not deep_close(obs['ret'].get('result'), obs['agg'])
                    or not deep_close(obs['ret'].get('state'), obs['agg_state'])):
    return f"returned: StopIteration.value is {obs['ret']}, agg_result is {obs['agg']}"
  saved = obs['start_agg']
  for op, snap in zip(case['ops'], obs['snaps']):
    if op[0] == 'ckpt':
      saved = snap
    elif op[0] == 'restore' and not deep_close(snap, saved):
      return f'aggregate: a restored iterator starts from {snap}, the checkpoint it restores held {saved}'
  return None


CHAIN_PROMISED = (
    [('chain_stages', str(n)) for n in range(1, 6)]
    + [('chain_agg_at', f'{n}:{i}') for n in range(1, 6) for i in range(n)]
    + [('chain_agg_at', f'{n}:none') for n in range(1, 6)]
    + [('chain_agg_before_last_two_restored', str(n)) for n in (3, 4, 5)]
    + [('chain_restore_then_ckpt', str(n)) for n in range(1, 6)]
    + [('chain_shape', k) for k in CHAIN_SHAPES]
    + [('chain_cut', k) for k in ('before-first', 'middle', 'after-last', 'after-stop')]
    + [('chain_restores', k) for k in ('1', '2', '3')]
    + [('chain_filter', str(n)) for n in (3, 4, 5)]
    + [('chain_arm', k) for k in ('exhaustive', 'random')])


def check_chain_coverage(ctx):
  from harness.core import InfraError
  missing = [f'{k}[{sub}]' for k, sub in CHAIN_PROMISED if not ctx.hist.get(k, {}).get(sub)]
  if missing:
    raise InfraError(f'C10 chain generator missed promised arms: {missing}')


def run_impl(case):
  if case.get('sliced'):
    return LS.run_history(case)
  if is_chain(case):
    return LC.run_chain_history(case)
  return L.run_history(case)


def _req(case, ops):
  src = case['src']
  if src['kind'] == 'seq':
    s = dict(kind='seq', chain=src['chain'])
  else:
    s = dict(kind='iter', idx=src['idx'], num=src['num'], off=src['off'])
  pipe = None
  if case.get('pipe'):
    pc = case['pipe']
    pipe = dict(a=pc['a'], b=pc['b'], drop=pc.get('drop'), target=pc.get('target', 0), chain2=pc.get('chain2'))
  return dict(model='resume', src=s, data=case['data'], pipe=pipe, threads=0, ops=ops, final=case['final'])


def model_requests(case):
  if case.get('sliced'):
    return LS.model_requests(case)
  if is_chain(case):
    return [chain_req(case, case['ops']), chain_req(case, [])]
  if case.get('threads', 0):
    return [_req(case, [])]               # only the schedule-independent part; the schedule replay is in extra()
  return [_req(case, case['ops']), _req(case, [])]


def model_obs(case, resps):
  if case.get('sliced'):
    return LS.model_obs(case, resps)
  if is_chain(case):
    return chain_model_obs(case, resps)
  has_agg = bool(case.get('pipe') and case['pipe'].get('agg'))

  def agg(r):
    return {'sum': float(r['agg']['sum']), 'count': float(r['agg']['count'])} if has_agg and r.get('agg') else None

  if case.get('threads', 0):
    r = resps[0]
    if r.get('err'):
      return dict(threaded=True, err=r['err'])
    return dict(threaded=True, err=None, full=sorted(r['log'][-1]), full_agg=agg(r), full_ret=agg(r))
  r, f = resps
  if r.get('err'):
    return dict(log=None, final=None, agg=None, err=r['err'], full=None, full_agg=None)
  # `_ChainedRunnerIterator.__next__` (transform.py:489-506): exhaustion returns AggregateResult(agg_result)
  return dict(log=r['log'][:-1], final=r['log'][-1], agg=agg(r), ret=agg(r), err=None,
              full=f['log'][-1], full_agg=agg(f), full_ret=agg(f), lost=r['lost'])


def compare(impl, model):
  if 'full_err' in impl:
    return LS.compare(impl, model)
  if 'snaps' in impl or 'snaps' in model:
    return chain_compare(impl, model)
  if impl.get('err') or model.get('err'):
    return None if impl.get('err') == model.get('err') else f"error kinds differ: impl {impl.get('err')} model {model.get('err')}"
  if model.get('threaded'):
    if sorted(impl['full']) != model['full']:
      return 'uninterrupted threaded run: multiset of outputs differs from the model'
    if not deep_close(impl['full_agg'], model['full_agg']):
      return 'uninterrupted threaded run: aggregate differs from the model'
    if not deep_close(impl['full_ret'], model['full_ret']):
      return 'uninterrupted threaded run: returned aggregate differs from the model'
    return None
  for k in ('log', 'final', 'full'):
    if impl[k] != model[k]:
      return f'{k} differs'
  for k in ('agg', 'full_agg', 'ret', 'full_ret'):
    if not deep_close(impl[k], model[k]):
      return f'{k} differs'
  return None


def _flat(outs):
  return [x for o in outs for x in o]


def _msdiff(a, b):
  """rows of a not in b (multiset)"""
  b = list(b)
  out = []
  for x in a:
    if x in b:
      b.remove(x)
    else:
      out.append(x)
  return out


def oracle(case, obs):
  """The property on the real iterators: everything delivered on the surviving timeline, across all generations,
  is exactly what the uninterrupted run delivers (nothing skipped, nothing repeated; in order when sequential),
  and the final aggregate equals the uninterrupted run's."""
  if case.get('sliced'):
    return LS.oracle(case, obs)
  if case.get('malformed'):
    return None if obs['err'] is not None else 'a source with num_shards = 0 was accepted'
  if obs['err'] is not None:
    return f"raised {obs['err']} on a well-formed history"
  got = L.surviving(case['ops'], obs['log'], obs['final'])
  want = obs['full']
  threaded = bool(case.get('threads', 0))
  grows, wrows = _flat(got), _flat(want)
  missing, extra = _msdiff(wrows, grows), _msdiff(grows, wrows)
  if missing:
    return f'skipped: rows {missing[:12]} of the uninterrupted run are never delivered' + (
        f' (and rows {extra[:12]} are delivered twice)' if extra else '')
  if extra:
    return f'repeated: rows {extra[:12]} are delivered more often than in the uninterrupted run'
  if threaded:
    if sorted(got) != sorted(want):
      return 'regrouped: same rows, different outputs'
  elif got != want:
    return 'reordered: same rows, different order or batch boundaries'
  if is_chain(case):
    return chain_oracle(case, obs)
  if not deep_close(obs['agg'], obs['full_agg']):
    return f"aggregate: final {obs['agg']} differs from the uninterrupted run's {obs['full_agg']}"
  if not deep_close(obs.get('ret'), obs.get('full_ret')):
    return (f"returned: the iterator's return value (StopIteration.value.agg_result) is {obs.get('ret')}, the "
            f"uninterrupted run returns {obs.get('full_ret')}")
  return None


def _has_restore(case):
  return any(op[0] == 'restore' for op in case['ops'])


def nontrivial(case, obs):
  if case.get('sliced'):
    return not obs.get('err') and 'sliced_ckpt_holds_slice_entries' in LS.features(case)
  if obs.get('err') or not obs.get('full'):
    return False
  seen, i = 0, 0
  for op in case['ops']:
    if op[0] == 'take':
      seen += len(obs['log'][i])
      i += 1
    elif op[0] == 'restore' and 0 < seen < len(obs['full']):
      return True
  return False


def finding(case, what):
  if case.get('sliced'):
    return None
  # the two open findings only ever *lose* rows; anything delivered twice is a different defect
  if not isinstance(what, str) or not what.startswith('skipped') or 'delivered twice' in what:
    return None
  if not _has_restore(case):
    return None
  pipe = case.get('pipe')
  if pipe and case.get('threads', 0) > 0:
    return 'F12'
  if pipe and pipe.get('target', 0) > 0 and not case['scalar']:
    return 'F16'
  return None


def neighbours(case, rng):
  if case.get('sliced'):
    for i in range(len(case['ops'])):
      c = copy.deepcopy(case)
      del c['ops'][i]
      yield c
    for _ in range(200):
      c = copy.deepcopy(case)
      c['ops'] = rand_ops(rng, len(case['batches']), 6)
      yield c
    return
  for i in range(len(case['ops'])):
    c = copy.deepcopy(case)
    del c['ops'][i]
    yield c
  for _ in range(300):
    c = copy.deepcopy(case)
    c['ops'] = rand_ops(rng, len(case['data']), 6)
    yield c
  for n in range(0, 12):
    c = copy.deepcopy(case)
    w = len(case['data'][0]) if case['data'] else 1
    c['data'] = mk_data(n, w)
    yield c


def shrink_sliced(case, fails):
  cur = copy.deepcopy(case)
  changed = True
  while changed:
    changed = False
    cands = []
    for i in range(len(cur['ops'])):
      c = copy.deepcopy(cur)
      del c['ops'][i]
      cands.append(c)
    if len(cur['stages']) > 1:
      for i in range(len(cur['stages'])):
        c = copy.deepcopy(cur)
        del c['stages'][i]
        cands.append(c)
    for si, st in enumerate(cur['stages']):
      for field in ('slicers', 'aggs'):
        for i in range(len(st[field])):
          if field == 'aggs' and len(st['aggs']) == 1:
            continue
          c = copy.deepcopy(cur)
          del c['stages'][si][field][i]
          cands.append(c)
      if st.get('drop'):
        c = copy.deepcopy(cur)
        c['stages'][si]['drop'] = None
        cands.append(c)
    for i in range(len(cur['batches'])):
      c = copy.deepcopy(cur)
      del c['batches'][i]
      cands.append(c)
    for c in cands:
      if fails(c):
        cur, changed = c, True
        break
  return cur


def shrink(case, fails):
  if case.get('sliced'):
    return shrink_sliced(case, fails)
  cur = case
  changed = True
  while changed:
    changed = False
    for i in range(len(cur['ops'])):
      c = copy.deepcopy(cur)
      del c['ops'][i]
      if fails(c):
        cur, changed = c, True
        break
    else:
      if cur['data']:
        c = copy.deepcopy(cur)
        c['data'] = c['data'][:-1]
        if fails(c):
          cur, changed = c, True
          continue
      for i, op in enumerate(cur['ops']):
        if op[0] == 'take' and op[1] > 0:
          c = copy.deepcopy(cur)
          c['ops'][i] = ['take', op[1] - 1]
          if fails(c):
            cur, changed = c, True
            break
  return cur


# ----------------------------------------------------------------------------- threaded tie: schedule replay

class _Unexplained(Exception):
  pass


def build_schedule(case, obs, shard_outs):
  """Turns the observation of a real threaded run into a schedule of the model's transition system.

  shard_outs[i] = for every source element of producer i (in order) the list of outputs the chain makes of it
  (the MODEL's prediction of which elements each producer owns).  The observed deliveries decide the
  `deliver` steps, the probe taken at each checkpoint (= what a restore from that state delivers when drained)
  decides how far each producer had run (`pull` steps).  Raises _Unexplained when no schedule of the model
  produces the observation (e.g. an output delivered twice, or a state behind the deliveries)."""
  n = len(shard_outs)
  where = {}
  for i, sh in enumerate(shard_outs):
    for q, outs in enumerate(sh):
      for o in outs:
        where[tuple(o)] = (i, q)
  pulled, saved_pulled = [0] * n, [0] * n
  buf, sched = [], []

  def pull(i):
    sched.append(['pull', i])
    buf.extend(shard_outs[i][pulled[i]])
    pulled[i] += 1

  def deliver(o):
    if o not in buf:
      if tuple(o) not in where:
        raise _Unexplained(f'output {o} is not an output of the uninterrupted run')
      i, q = where[tuple(o)]
      if q < pulled[i]:
        raise _Unexplained(f'output {o} delivered although producer {i} is already past it and it is not buffered')
      while pulled[i] <= q:
        pull(i)
    j = buf.index(o)
    sched.append(['deliver', j])
    buf.pop(j)

  li, pi = 0, 0
  for op in case['ops']:
    if op[0] == 'take':
      for o in obs['log'][li]:
        deliver(o)
      li += 1
    elif op[0] == 'ckpt':
      remaining = list(obs['probes'][pi])
      pi += 1
      for i in range(n):
        mine = sorted(o for o in remaining if where.get(tuple(o), (None,))[0] == i)
        c = pulled[i]
        while c <= len(shard_outs[i]) and sorted(o for outs in shard_outs[i][c:] for o in outs) != mine:
          c += 1
        if c > len(shard_outs[i]):
          raise _Unexplained(f'state of producer {i} at checkpoint {pi}: a restore delivers {mine}, which is not a '
                             f'suffix of its shard at or after position {pulled[i]}')
        while pulled[i] < c:
          pull(i)
      sched.append(['ckpt'])
      saved_pulled = list(pulled)
    elif op[0] == 'restore':
      sched.append(['restore'])
      pulled = list(saved_pulled)
      buf.clear()
  for o in obs['final']:
    deliver(o)
  for i in range(n):          # the real iterator reported exhaustion: every producer ran to its end
    while pulled[i] < len(shard_outs[i]):
      pull(i)
  return sched


def threaded_cases(ctx):
  rng = ctx.rng
  for _ in range(40 if ctx.quick else 400):
    n = rng.choice([3, 5, 8, 13, 20, 30])
    kind = rng.choice(['seq', 'seq', 'iter'])
    if kind == 'seq':
      ch = rand_chain(rng, rng.choice([0, 0, 1, 2]))
      if chain_len(n, ch) is None:
        ch = [dict(c, off=0) for c in ch]
      src = dict(kind='seq', chain=ch)
    else:
      src = dict(kind='iter', idx=0, num=1, off=0)
    pipe = dict(a=rng.choice([1, 2]), b=rng.choice([0, 100]), drop=None, target=0,
                agg=rng.choice(['sumcount', 'sumcount_inplace']), via='batch')
    if rng.random() < 0.3:
      pipe['drop'] = dict(m=3, r=rng.randrange(3))
    # producers start running when the iterator is built: the state a history starts from has to be an explicit
    # checkpoint (with its probe), not the implicit capture at construction
    ops = [['ckpt']] + rand_ops(rng, n, 4)
    case = mk_case(src, mk_data(n), True, ops, pipe, rng.choice([1, 2, 4]), idiom=rng.choice(['fresh', 'self']))
    case['probe'] = True
    yield case


def extra(ctx):
  """Tie of the threaded transition system: the schedule observed on the real threads is replayed on the model,
  which must then deliver / lose / aggregate exactly what the real run did."""
  check_chain_coverage(ctx)
  LS.check_coverage(ctx)
  lean = ctx.lean
  cases = list(threaded_cases(ctx))
  runs = []
  for case in cases:
    ctx.extra_evals += 1
    ctx.count('threaded_replay', case['threads'])
    obs = run_impl(case)
    what = oracle(case, obs)
    if what is not None:
      ctx.extra_oracle_failures.append((case, what))
    if obs['err'] is not None:
      ctx.extra_disagreements.append(('threaded-schedule', case, dict(why=f"real run raised {obs['err']}")))
      continue
    base = _req(case, [])
    base['threads'] = case['threads']
    runs.append((case, obs, base))
  parts = lean.ask_many([b for _, _, b in runs])
  todo = []
  for (case, obs, base), part in zip(runs, parts):
    if part.get('err') or 'driver_error' in part:
      ctx.extra_disagreements.append(('threaded-schedule', case, dict(why=f'model rejects the configuration: {part}')))
      continue
    try:
      sched = build_schedule(case, obs, part['rest'])
    except _Unexplained as e:
      ctx.extra_disagreements.append(('threaded-schedule', case, dict(why=f'no schedule of the model explains the run: {e}')))
      continue
    todo.append((case, obs, sched, dict(base, ops=sched)))
  resps = lean.ask_many([q for _, _, _, q in todo])
  for (case, obs, sched, _), r in zip(todo, resps):
    got = L.surviving(case['ops'], obs['log'], obs['final'])
    lost_impl = sorted(_msdiff(_flat(obs['full']), _flat(got)))
    why = None
    if r.get('err') or 'driver_error' in r:
      why = f'model failed on the observed schedule: {r}'
    elif r['delivered'] != got:
      why = 'delivered outputs differ under the observed schedule'
    elif sorted(_flat(r['lost'])) != lost_impl:
      why = f"lost rows differ: model {sorted(_flat(r['lost']))} real {lost_impl}"
    elif r['buf'] or any(sh for sh in r['rest']):
      why = 'model still holds outputs after the real iterator reported exhaustion'
    elif not deep_close(obs['agg'], {'sum': float(r['agg']['sum']), 'count': float(r['agg']['count'])}):
      why = f"aggregate differs under the observed schedule: model {r['agg']} real {obs['agg']}"
    ctx.count('threaded_lost_rows', min(len(lost_impl), 9))
    if why:
      ctx.extra_disagreements.append(('threaded-schedule', case, dict(why=why, schedule=sched)))
