"""C19 — re-batching conserves rows, order and column alignment.

Real code: ml_metrics._src.utils.iter_utils.rebatched_args (cases without `via`), and the glue that
calls it: `TreeFn._iterate` (chainables/tree_fns.py) entered through the public pipeline API
`ml_metrics.chainable.Pipeline` `.apply/.select/.batch/.assign(..., fn_batch_size=, batch_size=)`
(cases with `via`).
Model: lean/MlModel/Model/Rebatch.lean (`run`, `pulls`, `treeFn`); theorems: lean/MlModel/Properties/C19.lean.

Case format (JSON):
  direct : {target, ncols (0 = deduce), pad, batches:[[{"k":kind,"r":[ints]},..],..], malform?}
  via    : the same plus {via: apply|select|batch|assign, fn_batch, g: row-function name, kinds_out:[kind,..],
           bare: bool (single key / bare column instead of 1-tuples)}; `ncols` = number of input columns.
  kinds  : list | tuple | array | array2 (rows = vectors of width 3) | array3 (rows = 2x2 matrices) | other (bytes);
           in an n-D column of family int every component of a row equals the row's id in "r" (the model sees kind array + ids).
  typed  : a column may carry "e": element family (int | float | f32 | str | bool | none | mixed | nested; default int): the VALUE of
           row id g is `elem(family, g)` (a non-integral float, a string of varying length, a bool, None, a mix of Python types, a
           list, a vector / matrix of distinct floats ...); array columns get the family's dtype (int64 / float64 / float32 / <U8 /
           bool / object).  `pad` is None, a legacy int, or the NAME of an entry of `PADS` (int / float / str / bool / numpy scalar
           pads, typically of a different dtype than the data).  The model works on the row ids (elements are abstract there) with one
           reserved id for the pad value; ids are mapped back to the typed VALUES before anything is compared, so the correspondence
           and the oracle compare (type, repr) of every element plus dtype and shape of every emitted column.
  failing: via-cases may carry {ignore_error: bool, poison: [row ids]}: the batch function raises for a call that sees a poisoned row
           (first column); with ignore_error the runner skips the failing calls (see `oracle_via`).
"""
import itertools

import numpy as np

from harness.core import canon, err_kind

PID = 'C19'
TITLE = 'Re-batching conserves rows, order and column alignment'
LEAN_MODULES = ['MlModel.Properties.C19', 'MlModel.Properties.C19Pipe', 'MlModel.Properties.C19Canon', 'MlModel.Witness.C19']
TRUSTED = [
    'TreeFn._iterate is modelled as a chain of lazy iterators (Model/RebatchGen.lean: first re-batcher, map of the guarded call, '
    'iter_ignore_error, second re-batcher; = the list-level treeFn when nothing fails, C19_treefn_gen_total); tree key selection / '
    'output assembly (_get_inputs/_get_outputs/_normalize_outputs) is exercised by the via-cases but not modelled',
    'modelled, not verified: more_itertools.sliced/flatten/padded, np.concatenate/np.pad, zip(strict=True), built-in map (resumable), '
    'generator finalisation (their list / pull semantics are written out in Model/Rebatch.lean, Model/RebatchGen.lean)',
    'elements are abstract in the model: columns travel as row ids, the harness maps ids back to the typed values (elem / expect_col) '
    'before comparing (type, repr) of every element, dtype and shape of every emitted column; that numpy stores the pad value in the '
    "column's dtype (np.asarray(pad).astype(dtype)) and keeps the dtype of a column is computed by the harness, not by the model",
]
ASSUMPTIONS = ['rows are opaque values: ints, non-integral floats, float32, strings of varying length (fixed-width <U8 arrays), bools, None, '
               'mixed Python objects, rows that are lists, vectors / matrices of distinct floats; one dtype per array column for the whole '
               'stream (heterogeneous dtypes across batches of one column are promoted by np.concatenate: outside the domain); pad values '
               'that numpy can store in every array column of the case (a str pad on a float column raises ValueError in np.pad; object '
               'arrays are not padded); containers are list/tuple/ndarray, plus bytes as the representative of an unsupported kind',
               'failing calls: the batch function raises RuntimeError for the calls that see a poisoned row (re-raised as ValueError by '
               '_maybe_call_fn); one function of the library keeps state (a call counter)']
RULE = ('direct cases: small-exhaustive over batch-size sequences (len<=3, sizes 0..4 quick / len<=4, sizes 0..6 thorough) x targets x '
        'column counts x container kinds (list, tuple, 1-D array, arrays whose rows are vectors / 2x2 matrices) x pad, then random long streams and a ~10% malformed stream '
        '(ragged columns, wrong column count, unsupported container); typed sweep: every container kind x element family (int, float, float32, str, bool, None, '
        'mixed, nested) x pad value (none, int, float, str, bool, numpy scalars: mostly of another dtype than the data) x 7 size sequences that pad / merge / carry, '
        'alone and next to a column of another kind / family, + random mixed streams; non-trivial = at least 2 input batches '
        'and the target size differs from some input batch size; distinct = distinct canonical case JSON. '
        'via cases: the same size sequences pushed through Pipeline.apply/select/batch/assign with fn_batch_size x batch_size '
        'x row functions (row-preserving and row-count-changing: twice / keep_even / explode / none, with fn_batch_size ==, != batch_size and 0) '
        'x output container kinds, compared with the Lean model of TreeFn._iterate (treeFnGen); failing calls: 13 streams x 5 functions (one with state) x '
        'ignore_error on/off x ONE failing call at EVERY call position, pairs, all calls, none, + random failure sets (carry buffer empty / non-empty at the '
        'failure, rows after it: enforced), + ragged streams under ignore_error')

KINDS = ['list', 'tuple', 'array']
# 'array2' / 'array3': numpy columns whose rows are vectors of width 3 / 2x2 matrices (ndim 2 / 3).  Rows stay
# opaque in the model: every component of row g equals its integer id, the model sees kind 'array' and the id.
ND_TAIL = {'array2': (3,), 'array3': (2, 2)}
KINDS5 = KINDS + ['array2', 'array3']


def wire_kind(k):
  return 'array' if k in ND_TAIL else k


# ------------------------------------------------------------------ typed element values
# The model's elements are abstract: a column travels to it as row ids.  What a row id MEANS is fixed here: `elem(family, g)`.
FAMS = ['int', 'float', 'f32', 'str', 'bool', 'none', 'mixed', 'nested']
SEQ_FAMS = ['int', 'float', 'str', 'bool', 'none', 'mixed', 'nested']          # list / tuple columns hold Python objects
ARR_FAMS = ['int', 'float', 'f32', 'str', 'bool', 'mixed', 'none']             # 1-D arrays: one dtype per column
ND_FAMS = ['int', 'float', 'f32', 'str', 'bool']                               # arrays whose rows are vectors / matrices
DTYPES = {'int': 'int64', 'float': 'float64', 'f32': 'float32', 'str': '<U8', 'bool': 'bool', 'none': 'object',
          'mixed': 'object', 'nested': 'object'}
PAD_ID = -1          # the id under which the pad value travels to the model (row ids are >= 0)
# pad values by name (JSON cannot tell 0 from 0.0 from False reliably, and numpy scalars do not travel at all)
PADS = {'i-1': -1, 'i0': 0, 'i7': 7, 'f0.5': 0.5, 'f-1.5': -1.5, 'f0': 0.0, 'f2': 2.0, 's': '', 'sPAD': 'PADDING',
        'bF': False, 'bT': True, 'np_f0': np.float64(0), 'np_i-1': np.int64(-1)}


def pad_value(p):
  return PADS[p] if isinstance(p, str) else p


def pad_class(p):
  v = pad_value(p)
  if v is None:
    return 'none'
  return {bool: 'bool', int: 'int', float: 'float', str: 'str'}.get(type(v), 'np')


def fam_of(col):
  return col.get('e', 'int')


def elem(fam, g):
  """The value of row id g in a column of the given family."""
  if fam == 'int':
    return g
  if fam == 'float':                      # never integral: a cast to an integer dtype changes every row
    return g / 4 + 0.125 if g % 2 == 0 else -(g + 0.5)
  if fam == 'f32':                        # exactly representable in float32
    return g / 4 + 0.125
  if fam == 'str':                        # lengths 2..7: a cut to the width of the pad value changes every row
    return f'r{g}' + 'x' * (g % 4)
  if fam == 'bool':
    return g % 3 == 0
  if fam == 'none':
    return None
  if fam == 'mixed':
    return [g, g + 0.5, f's{g}', g % 4 == 0, None, (g, 'a')][g % 6]
  if fam == 'nested':                     # a row that is itself a list: flattening must stop at one level
    return [g, g + 0.5]
  raise ValueError(fam)


def elem_nd(fam, g, tail):
  """An n-D row: the components differ from each other (except family int/bool: constant = the row id, as before)."""
  n = int(np.prod(tail))
  if fam in ('int', 'bool'):
    vals = [elem(fam, g)] * n
  elif fam == 'str':
    vals = [f'r{g}c{k}' for k in range(n)]
  else:
    vals = [elem(fam, g) + k / 16 for k in range(n)]
  return np.array(vals, dtype=DTYPES[fam]).reshape(tail)


def arr_fam(kind, fam):
  """Families an array kind cannot hold fall back to float."""
  ok = ND_FAMS if kind in ND_TAIL else ARR_FAMS
  return fam if fam in ok else 'float'


def mk_col(kind, rows, fam='int'):
  if kind == 'list':
    return [elem(fam, g) for g in rows]
  if kind == 'tuple':
    return tuple(elem(fam, g) for g in rows)
  if kind == 'array':
    fam = arr_fam(kind, fam)
    a = np.empty(len(rows), dtype=DTYPES[fam])
    for i, g in enumerate(rows):
      a[i] = elem(fam, g)
    return a
  if kind in ND_TAIL:
    fam, tail = arr_fam(kind, fam), ND_TAIL[kind]
    a = np.empty((len(rows),) + tail, dtype=DTYPES[fam])
    for i, g in enumerate(rows):
      a[i] = elem_nd(fam, g, tail)
    return a
  if kind == 'other':
    return bytes(rows)
  raise ValueError(kind)


def tv(x):
  """Canonical (type, repr) of an element; rows that are containers are described recursively."""
  if isinstance(x, (list, tuple)):
    return [type(x).__name__, [tv(y) for y in x]]
  return [type(x).__name__, repr(x)]


def pad_compatible(pad, batch):
  """np.pad can only store the pad value in a column whose dtype it converts to ('' in a float column raises)."""
  v = pad_value(pad)
  if v is None:
    return True
  for c in batch:
    if c['k'] == 'array' or c['k'] in ND_TAIL:
      dt = DTYPES[arr_fam(c['k'], fam_of(c))]
      if dt == 'object':
        return False       # np.pad stores numpy scalars in object arrays: not a value the property talks about
      try:
        np.asarray(v).astype(dt)
      except (ValueError, TypeError):
        return False
  return True


def pad_obs(kind, fam, pad):
  """What a padding row of a column looks like: the pad value itself in list / tuple columns; in an array column the pad value
  stored in the column's dtype (an array has ONE dtype, and the real rows must keep theirs)."""
  v = pad_value(pad)
  if kind in ('list', 'tuple'):
    return tv(v)
  dt = DTYPES[arr_fam(kind, fam)]
  return tv(np.full(ND_TAIL.get(kind, ()), np.asarray(v).astype(dt), dtype=dt).tolist())


_ROW_TV = {}


def row_obs(kind, fam, g):
  """What row id g of a column of this kind and family looks like in an observation."""
  key = (kind, fam, g)
  if key not in _ROW_TV:
    _ROW_TV[key] = col_obs(mk_col(kind, [g], fam))['v'][0]
  return _ROW_TV[key]


def decl_obs(col):
  """The observation of a declared (input) column."""
  return col_obs(mk_col(col['k'], col['r'], fam_of(col)))


def expect_col(kind, fam, ids, pad=None):
  """The observation of a column of the given kind / family holding the rows `ids` (PAD_ID = a padding row)."""
  col = {'k': kind, 'v': [pad_obs(kind, fam, pad) if g == PAD_ID else row_obs(kind, fam, g) for g in ids]}
  if kind == 'array' or kind in ND_TAIL:
    col['dtype'] = DTYPES[arr_fam(kind, fam)]
    col['shape'] = [len(ids)] + list(ND_TAIL.get(kind, ()))
  return col


def ids_of_obs(col):
  """Row ids of an observed column of family int (first component of a vector-valued row)."""
  def first(v):
    while v[0] in ('list', 'tuple'):
      v = v[1][0]
    return int(v[1])
  return [first(v) for v in col['v']]


def _flat2(c):
  """(n, ...) -> (n, prod(...)); also for n = 0."""
  return c.reshape(len(c), int(np.prod(c.shape[1:])))


def col_ids(c):
  """Row ids of a column as the batch functions see them (first component of a vector-valued row)."""
  if isinstance(c, np.ndarray):
    return _flat2(c)[:, 0].tolist() if c.ndim > 1 else c.tolist()
  return list(c)


def col_obs(c):
  """Canonical observation of an emitted column: container kind, every element as (type, repr), and for arrays dtype + shape."""
  if isinstance(c, np.ndarray):
    kind = {1: 'array', 2: 'array2', 3: 'array3'}.get(c.ndim, f'array!ndim{c.ndim}')
    return {'k': kind, 'dtype': str(c.dtype), 'shape': list(c.shape), 'v': [tv(x) for x in c.tolist()]}
  if isinstance(c, list):
    return {'k': 'list', 'v': [tv(x) for x in c]}
  if isinstance(c, tuple):
    return {'k': 'tuple', 'v': [tv(x) for x in c]}
  if isinstance(c, (bytes, bytearray)):
    return {'k': 'other', 'v': [tv(x) for x in c]}
  return {'k': type(c).__name__, 'v': [tv(x) for x in list(c)]}


def make_case(sizes, target, ncols, kinds, pad, explicit_cols, malform=None, fams=None):
  """Rows are numbered globally so that misalignment is visible: row g of column c is g*10+c.
  `fams`: element family per column (default int); families a kind cannot hold are replaced (`arr_fam`)."""
  batches, g = [], 0
  for s in sizes:
    b = []
    for c in range(ncols):
      col = {'k': kinds[c % len(kinds)], 'r': [((g + i) * 10 + c) % 250 for i in range(s)]}
      if fams:
        f = fams[c % len(fams)]
        f = arr_fam(col['k'], f) if (col['k'] == 'array' or col['k'] in ND_TAIL) else ('float' if f == 'f32' else f)
        if f != 'int':
          col['e'] = f
      b.append(col)
    g += s
    batches.append(b)
  case = dict(target=target, ncols=ncols if explicit_cols else 0, pad=pad, batches=batches)
  if malform:
    case['malform'] = malform
  return case


def gen_direct(ctx):
  rng = ctx.rng
  quick = ctx.quick
  maxlen, maxsize, targets = (3, 4, (1, 2, 3)) if quick else (4, 6, (1, 2, 3, 4, 5))
  # small-exhaustive
  for n in range(0, maxlen + 1):
    for sizes in itertools.product(range(0, maxsize + 1), repeat=n):
      for target in targets:
        ncols = 1 + (sum(sizes) + n + target) % 3
        kinds = [KINDS5[(sum(sizes) + 2 * target + n + 3 * i) % 5] for i in range(ncols)]
        pad = None if (sum(sizes) + n) % 2 == 0 else 0
        yield make_case(sizes, target, ncols, kinds, pad, explicit_cols=(n + target) % 2 == 0)
  yield make_case((), 0, 1, ['list'], None, True)
  yield make_case((2, 3), 0, 2, ['list', 'array'], None, False)
  # array columns with vector-/matrix-valued rows: several chunks merged in one flush, carry + new batch, padding
  for sizes, target, pad in [((2, 2, 2, 2), 4, None), ((2, 2, 3, 1, 2), 4, None), ((1, 1, 1, 1, 1), 2, 0),
                             ((3, 3, 3), 2, None), ((5, 1, 4), 3, 7), ((2, 2), 8, 0), ((0, 2, 1), 3, None)]:
    yield make_case(sizes, target, 2, ['array2', 'array'], pad, True)
    yield make_case(sizes, target, 3, ['list', 'array3', 'array2'], pad, False)
    yield make_case(sizes, target, 1, ['array3'], pad, False)
  # random long
  for _ in range(300 if quick else 6000):
    n = rng.randrange(0, 12)
    sizes = [rng.choice([0, 1, 1, 2, 3, 5, 8, 13]) for _ in range(n)]
    target = rng.choice([1, 2, 3, 4, 5, 7, 16])
    ncols = rng.randrange(1, 4)
    kinds = [rng.choice(KINDS5) for _ in range(ncols)]
    pad = rng.choice([None, None, 0, 7])
    yield make_case(sizes, target, ncols, kinds, pad, rng.random() < 0.5)
  # malformed stream
  for _ in range(60 if quick else 1500):
    n = rng.randrange(1, 6)
    sizes = [rng.randrange(0, 5) for _ in range(n)]
    target = rng.randrange(1, 5)
    ncols = rng.randrange(1, 4)
    kinds = [rng.choice(KINDS5) for _ in range(ncols)]
    case = make_case(sizes, target, ncols, kinds, rng.choice([None, 0]), rng.random() < 0.5)
    how = rng.choice(['ragged', 'cols', 'other', 'zerocols'])
    bi = rng.randrange(n)
    b = case['batches'][bi]
    if how == 'ragged' and ncols > 1:
      b[rng.randrange(ncols)]['r'].append(99)
    elif how == 'cols':
      if rng.random() < 0.5 and len(b) > 1:
        b.pop()
      else:
        b.append({'k': 'list', 'r': list(range(len(b[0]['r'])))})
    elif how == 'other':
      for bb in case['batches']:
        bb[0]['k'] = 'other'
    elif how == 'zerocols':
      case['batches'] = [[] for _ in sizes]
    case['malform'] = how
    yield case


# size sequences x target that end in a padded remainder / merge several chunks / carry a remainder into the next flush
TYPED_SEQS = [((2, 2, 2, 2, 2), 3), ((3, 3, 3), 2), ((2,), 5), ((1, 5, 0, 3, 2), 4), ((4, 1, 2), 5), ((1, 1, 1), 2), ((3, 3), 3)]
NUM_PADS = ['i-1', 'i0', 'f0.5', 'f-1.5', 'f0', 'bF', 'bT', 'np_f0', 'np_i-1']
STR_PADS = ['s', 'sPAD']


def gen_typed(ctx):
  """Element types: every container kind x element family x pad values of other dtypes than the data."""
  rng, quick = ctx.rng, ctx.quick
  n = 0
  for kind in KINDS5:
    fams = SEQ_FAMS if kind in ('list', 'tuple') else (ND_FAMS if kind in ND_TAIL else ARR_FAMS)
    for fam in fams:
      for pad in [None] + NUM_PADS + STR_PADS:
        for si, (sizes, target) in enumerate(TYPED_SEQS):
          if not quick or (n + si) % 2 == 0 or si == 0:
            # the column alone, and next to a column of another kind / family (alignment across differently typed columns)
            c1 = make_case(sizes, target, 1, [kind], pad, si % 2 == 0, fams=[fam])
            if pad_compatible(pad, c1['batches'][0]):
              yield c1
            k2, f2 = KINDS5[(n + si) % 5], FAMS[(n + 2 * si) % len(FAMS)]
            c2 = make_case(sizes, target, 2, [kind, k2], pad, si % 2 == 1, fams=[fam, f2])
            if pad_compatible(pad, c2['batches'][0]):
              yield c2
        n += 1
  # random: mixed columns, long streams
  for _ in range(400 if quick else 8000):
    nb = rng.randrange(0, 10)
    sizes = [rng.choice([0, 1, 1, 2, 3, 5, 8]) for _ in range(nb)]
    target = rng.choice([1, 2, 3, 4, 5, 7, 16])
    ncols = rng.randrange(1, 4)
    kinds = [rng.choice(KINDS5) for _ in range(ncols)]
    fams = [rng.choice(FAMS) for _ in range(ncols)]
    case = make_case(sizes, target, ncols, kinds, None, rng.random() < 0.5, fams=fams)
    pads = [p for p in [None] + NUM_PADS + STR_PADS if not case['batches'] or pad_compatible(p, case['batches'][0])]
    case['pad'] = rng.choice(pads)
    yield case


# ------------------------------------------------------------------ row functions (mirrors Driver/Rebatch.lean rowFn)

# every input row yields a LIST of output rows (exactly one for the row-preserving functions)
ROW_FNS = {
    'id': lambda r: [list(r)],
    'sum': lambda r: [[sum(r)]],
    'rev': lambda r: [list(reversed(r))],
    'dup': lambda r: [list(r) + list(r)],
    'affine': lambda r: [[2 * x + 1 for x in r]],
    'first': lambda r: [[r[0]]],
    # row-count-changing functions (the output of a call has more / fewer rows than its input, possibly none)
    'twice': lambda r: [list(r), list(r)],
    'keep_even': lambda r: [list(r)] if r[0] % 2 == 0 else [],
    'explode': lambda r: [list(r) for _ in range(r[0] % 3)],
    'none': lambda r: [],
    # the one function WITH STATE (a call counter; see `apply_g`): row-preserving as far as sizes go
    'callno': lambda r: [list(r)],
}


def apply_g(case, k, r):
  """Output rows of the row function for input row r seen by the k-th call (0-based, failing calls counted)."""
  if case['g'] == 'callno':
    return [[x + 1000 * k for x in r]]
  return ROW_FNS[case['g']](list(r))

ROW_PRESERVING = ['affine', 'dup', 'first', 'id', 'rev', 'sum']
ROW_CHANGING = ['explode', 'keep_even', 'none', 'twice']


def n_out(g, nin):
  return {'sum': 1, 'dup': 2 * nin, 'first': 1}.get(g, nin)


def make_via(via, sizes, batch, fn_batch, nin, kinds, g='id', kinds_out=None, bare=False, malform=None):
  case = make_case(sizes, batch, nin, kinds, None, True, malform)
  if via == 'select':
    g, fn_batch, kinds_out = 'id', 0, None
  if via == 'batch':
    g, fn_batch, kinds_out = 'id', 0, ['list'] * nin
    for b in case['batches']:
      for c in b:
        c['k'] = 'list'
  case.update(via=via, fn_batch=fn_batch, g=g, bare=bool(bare),
              kinds_out=kinds_out if kinds_out is not None else None)
  return case


def gen_via(ctx):
  rng, quick = ctx.rng, ctx.quick
  # small systematic part: every via x a few size sequences x (fn_batch, batch)
  seqs = [(), (0,), (3,), (5, 1), (2, 2, 2), (1, 0, 4), (4, 3, 0, 2), (7,), (1, 1, 1, 1, 1)]
  for sizes in seqs:
    for fb, b in [(0, 2), (4, 3), (2, 2), (3, 1), (0, 5), (0, 0)]:
      nin = 1 + (len(sizes) + fb + b) % 2
      yield make_via('apply', sizes, b, fb, nin, KINDS, g=['sum', 'rev', 'affine'][(fb + b) % 3],
                     kinds_out=[KINDS[(b + i) % 3] for i in range(n_out(['sum', 'rev', 'affine'][(fb + b) % 3], nin))],
                     bare=(len(sizes) + b) % 2 == 0)
    for b in (0, 1, 2, 3):
      yield make_via('select', sizes, b, 0, 1 + len(sizes) % 2, KINDS5[(b + len(sizes)) % 5:] + KINDS, bare=b % 2 == 0)
    # functions that change the number of rows, with fn_batch_size == batch_size and != (and off)
    for gi, g in enumerate(ROW_CHANGING):
      for fb, b in [(2, 2), (3, 3), (1, 1), (2, 3), (4, 1), (0, 2), (0, 0)]:
        nin = 1 + (len(sizes) + gi + b) % 2
        yield make_via('apply', sizes, b, fb, nin, KINDS5[(gi + fb) % 5:] + KINDS, g=g,
                       kinds_out=[KINDS5[(gi + b + 2 * i) % 5] for i in range(nin)], bare=(gi + fb) % 2 == 0)
  for n in range(0, 6):
    for b in (1, 2, 3):
      yield make_via('batch', [1] * n, b, 0, 1 + (n + b) % 2, ['list'], bare=True)
  # random
  for _ in range(250 if quick else 5000):
    via = rng.choice(['apply', 'apply', 'apply', 'select', 'batch', 'assign'])
    n = rng.randrange(0, 9)
    nin = rng.randrange(1, 4)
    kinds = [rng.choice(KINDS5) for _ in range(nin)]
    g = rng.choice(ROW_PRESERVING if via == 'assign' or rng.random() < 0.5 else ROW_CHANGING)
    kinds_out = [rng.choice(KINDS5) for _ in range(n_out(g, nin))]
    b = rng.choice([1, 2, 3, 4, 5, 7])
    fb = rng.choice([0, 0, 1, 2, 3, 4, 6, b, b])
    if via == 'batch':
      yield make_via('batch', [1] * n, b, 0, nin, ['list'], bare=rng.random() < 0.5)
    elif via == 'assign':
      # aligned domain: every incoming batch has exactly `batch` rows, the last 1..batch
      sizes = [b] * max(n - 1, 0) + ([rng.randrange(1, b + 1)] if n else [])
      yield make_via('assign', sizes, b, fb, nin, kinds, g, kinds_out, bare=rng.random() < 0.5)
    else:
      sizes = [rng.choice([0, 1, 1, 2, 3, 5, 8]) for _ in range(n)]
      if rng.random() < 0.15:
        b = fb = 0
      yield make_via(via, sizes, b, fb, nin, kinds, g, kinds_out, bare=rng.random() < 0.5)
  # malformed: ragged columns reach the re-batcher through the pipeline
  for _ in range(30 if quick else 500):
    n = rng.randrange(1, 5)
    nin = rng.randrange(2, 4)
    sizes = [rng.randrange(1, 5) for _ in range(n)]
    via = rng.choice(['select', 'apply'])
    g = rng.choice(['id', 'rev', 'sum'])
    case = make_via(via, sizes, rng.randrange(1, 4), rng.randrange(1, 4), nin, [rng.choice(KINDS5) for _ in range(nin)],
                    g, [rng.choice(KINDS5) for _ in range(n_out(g, nin))], malform='ragged')
    case['batches'][rng.randrange(n)][rng.randrange(nin)]['r'].append(99)
    if rng.random() < 0.5:
      # with ignore_error the ValueError of the FIRST re-batcher is swallowed by map_ignore_error as well (it is raised by
      # next() of the iterator the calls are mapped over): the stream just ends there (C12's finding F-C12-fnbatch-lost); the
      # model (treeFnGen) says the same; no oracle verdict (malformed input)
      case['ignore_error'] = True
      case['malform'] = 'ragged-skip'
    yield case
  # Assign with batch boundaries that differ from the incoming ones: known finding F-C19-assign (documented, few cases)
  for sizes, fb, b in [((5, 1), 0, 2), ((5, 1), 4, 3), ((5, 1), 0, 6), ((2, 2, 2), 0, 3)]:
    yield make_via('assign', sizes, b, fb, 2, ['list', 'array'], 'sum', ['list'])


def gen_fail(ctx):
  """Failing calls under re-batching: `apply(fn, fn_batch_size=fb, batch_size=b)` whose function raises for some calls, run with
  and without ignore_error.  Systematic part: for every stream / (fb, b) below, ONE failing call at EVERY call position (so the
  output re-batcher's carry buffer is empty at some failures and non-empty at others), then pairs and all-fail; then random."""
  rng, quick = ctx.rng, ctx.quick

  def mk(sizes, fb, b, g, bad_calls, skip, nin=None, kinds=None, kinds_out=None):
    nin = nin or 1 + (len(sizes) + fb + b) % 2
    kinds = kinds or [KINDS5[(fb + b + i) % 5] for i in range(nin)]
    kinds_out = kinds_out or [KINDS5[(fb + 2 * b + i) % 5] for i in range(n_out(g, nin))]
    case = make_via('apply', sizes, b, fb, nin, kinds, g=g, kinds_out=kinds_out, bare=(fb + b) % 2 == 0)
    groups = call_groups(case)
    case['poison'] = sorted({groups[k][len(groups[k]) // 2][0] for k in bad_calls if k < len(groups) and groups[k]})
    case['ignore_error'] = bool(skip)
    return case

  streams = [((3, 3, 3, 3), 2, 3), ((3, 3, 3, 3), 3, 3), ((5, 1, 4, 2), 2, 3), ((4, 4, 4, 4), 3, 4), ((2, 2, 2, 1), 2, 5),
             ((3, 3, 3, 3, 3), 2, 4), ((2, 3, 1, 4), 0, 3), ((1, 2, 3, 4, 2), 0, 4), ((6, 6), 4, 1), ((2, 2, 2, 2), 1, 3),
             ((3, 1, 2), 0, 0), ((2, 2, 2), 0, 0), ((7, 2), 3, 2)]
  for si, (sizes, fb, b) in enumerate(streams):
    ncalls = len(regroup(sizes, fb))
    for gi, g in enumerate(['id', 'sum', 'twice', 'keep_even', 'callno']):
      if quick and (si + gi) % 2:
        continue
      for skip in (True, False):
        for k in range(ncalls):
          yield mk(sizes, fb, b, g, [k], skip)
        yield mk(sizes, fb, b, g, [0, ncalls - 1], skip)
        yield mk(sizes, fb, b, g, [1, 2], skip)
        yield mk(sizes, fb, b, g, range(ncalls), skip)
        yield mk(sizes, fb, b, g, [], skip)
  for _ in range(250 if quick else 5000):
    nb = rng.randrange(1, 7)
    sizes = [rng.choice([1, 1, 2, 3, 4, 5]) for _ in range(nb)]
    while sum(sizes) > 24:        # row ids (g*10+c) % 250 stay distinct
      sizes.pop()
    b = rng.choice([0, 1, 2, 3, 4, 5, 7])
    fb = rng.choice([0, 1, 2, 3, 4, b]) if b else 0     # fn_batch_size needs batch_size
    nin = rng.randrange(1, 4)
    g = rng.choice(ROW_PRESERVING + ROW_CHANGING + ['callno', 'callno'])
    ncalls = len(regroup(sizes, fb))
    bad = [k for k in range(ncalls) if rng.random() < rng.choice([0.15, 0.4])] or [rng.randrange(ncalls)]
    yield mk(sizes, fb, b, g, bad, rng.random() < 0.7, nin, [rng.choice(KINDS5) for _ in range(nin)],
             [rng.choice(KINDS5) for _ in range(n_out(g, nin))])


def fail_arms(case):
  """Failing-call cases: where the failures sit and what the output re-batcher holds when they happen (from the case alone)."""
  groups = call_groups(case)
  failing = [i for i, grp in enumerate(groups) if group_fails(case, grp)]
  if not failing:
    return {'fail:none'} if 'poison' in case else set()
  g, b, n = ROW_FNS[case['g']], case['target'], len(groups)
  mode = 'skip-on' if case.get('ignore_error') else 'skip-off'
  out = {f'fail:{mode}', f'fail:{mode}:' + ('fb=0' if case['fn_batch'] == 0 else 'fb>0'), 'fail:several' if len(failing) > 1 else 'fail:single'}
  if case['g'] == 'callno':
    out.add(f'fail:{mode}:stateful-fn')
  if len(failing) == n:
    out.add(f'fail:{mode}:all-calls')
  if len(failing) == 1:
    out.add(f'failpos:{n}:{failing[0]}:{mode}')
  if b == 0:
    out.add(f'fail:{mode}:b=0')
    return out
  carried = 0
  for i, grp in enumerate(groups):
    if i in failing:
      where = 'first' if i == 0 else ('last' if i == n - 1 else 'middle')
      later = any(j not in failing and sum(len(g(r)) for r in groups[j]) for j in range(i + 1, n))
      out.add(f"fail:{mode}:carry-{'nonempty' if carried else 'empty'}:{where}")
      if carried and later:
        out.add(f'fail:{mode}:carry-nonempty:rows-after')
    else:
      carried = (carried + sum(len(g(r)) for r in grp)) % b
  return out


FAIL_POSITIONS = [(n, k) for n in (3, 4, 5, 6) for k in range(n)]
REQUIRED_FAIL = ([f'fail:{m}:carry-{c}:{w}' for m in ('skip-on', 'skip-off') for c in ('nonempty', 'empty') for w in ('first', 'middle', 'last')
                  if not (c == 'nonempty' and w == 'first')] +
                 [f'fail:{m}:{x}' for m in ('skip-on', 'skip-off') for x in ('fb=0', 'fb>0', 'b=0', 'all-calls', 'carry-nonempty:rows-after', 'stateful-fn')] +
                 ['fail:several', 'fail:single', 'fail:none'] +
                 [f'failpos:{n}:{k}:{m}' for n, k in FAIL_POSITIONS for m in ('skip-on', 'skip-off')])


def flush_arms(sizes, t, padded):
  """Arms of the flush/carry logic exercised by a sequence of incoming batch sizes (computed from the sizes alone);
  also says whether some flush had to merge >= 2 buffered chunks (what `_concat` is for)."""
  out, m, chunks, merged = set(), 0, 0, False
  for s_ in sizes:
    m, chunks = m + s_, chunks + 1
    if m == 0:
      out.add('zero-rows-buffered')
    elif m < t:
      out.add('below-target:no-flush')
    else:
      merged |= chunks >= 2
      out.add('flush:multi-slice' if m > t else 'flush:one-slice')
      out.add('flush:exact-fit' if m % t == 0 else 'flush:carry-remainder')
      m %= t
      chunks = 1 if m else 0
  if m == 0:
    out.add('exhausted:nothing-buffered')
  else:
    merged |= chunks >= 2
    out.add('exhausted:remainder-padded' if padded else 'exhausted:remainder')
  if merged:
    out.add('merge:>=2-chunks')
  return out


def regroup(sizes, t):
  """Batch sizes after re-batching to t (t = 0: unchanged)."""
  n = sum(sizes)
  return list(sizes) if t == 0 else [t] * (n // t) + ([n % t] if n % t else [])


def mid_sizes(case):
  """via cases: row counts of the batches the function is called with, and of what it returns."""
  g = ROW_FNS[case['g']]
  rows = [[c['r'][i] for c in bt] for bt in case['batches'] for i in range(len(bt[0]['r']))]
  calls = regroup([len(bt[0]['r']) for bt in case['batches']], case['fn_batch'])
  outs, pos = [], 0
  for n in calls:
    outs.append(sum(len(g(r)) for r in rows[pos:pos + n]))
    pos += n
  return calls, outs


def branches(case):
  """Which arms of the re-batching logic a case exercises."""
  t = case['target']
  if case.get('malform'):
    return {'malformed:' + case['malform']}
  via = case.get('via')
  kinds_in = {c['k'] for bt in case['batches'] for c in bt}
  nd_in = bool(kinds_in & set(ND_TAIL))
  out = set()
  if not via:
    if t == 0:
      return {'identity'}
    if not case['batches']:
      return {'empty-stream'}
    out = flush_arms([len(b[0]['r']) if b else 0 for b in case['batches']], t, case.get('pad') is not None)
    if nd_in:
      out.add('nd-array')
      if 'merge:>=2-chunks' in out:
        out.add('nd-array:merge')
      if 'exhausted:remainder-padded' in out:
        out.add('nd-array:padded')
    # element types: which kind x family went through a merge of several chunks / got a padded final batch (and with what pad)
    pc = pad_class(case.get('pad'))
    for c in case['batches'][0]:
      kc = 'seq' if c['k'] in ('list', 'tuple') else ('nd' if c['k'] in ND_TAIL else c['k'])
      if 'merge:>=2-chunks' in out:
        out.add(f'elem:{kc}:{fam_of(c)}:merged')
      if 'exhausted:remainder-padded' in out:
        out.add(f'pad:{kc}:{fam_of(c)}:{pc}')
    return out
  if not case['batches']:
    return {'empty-stream'}
  fb, g = case['fn_batch'], case['g']
  calls, outs = mid_sizes(case)
  out |= fail_arms(case)
  nd_out = bool(set(kinds_out_of(case)) & set(ND_TAIL))
  if fb:
    st1 = flush_arms([len(bt[0]['r']) for bt in case['batches']], fb, False)
    if nd_in and 'merge:>=2-chunks' in st1:
      out.add('nd-array:merge')
  if t == 0:
    out.add('identity')
  else:
    out |= flush_arms(outs, t, False)
    if nd_out and 'merge:>=2-chunks' in out:
      out.add('nd-array:merge')
  if nd_in or nd_out:
    out.add('nd-array')
  if g in ROW_CHANGING and via == 'apply' and t:
    rel = 'fb=b' if fb == t else ('fb=0' if fb == 0 else 'fb!=b')
    if any(o > c for o, c in zip(outs, calls)):
      out.add('rowfn:expand:' + rel)
    if any(o < c for o, c in zip(outs, calls)):
      out.add('rowfn:drop:' + rel)
    if any(o == 0 and c > 0 for o, c in zip(outs, calls)):
      out.add('rowfn:empty-intermediate-batch')
  return out


REQUIRED_BRANCHES = ['identity', 'empty-stream', 'zero-rows-buffered', 'below-target:no-flush', 'flush:one-slice',
                     'flush:multi-slice', 'flush:exact-fit', 'flush:carry-remainder', 'exhausted:nothing-buffered',
                     'exhausted:remainder', 'exhausted:remainder-padded', 'merge:>=2-chunks', 'nd-array:merge',
                     'nd-array:padded', 'malformed:ragged', 'malformed:cols', 'malformed:other', 'malformed:zerocols']
# element types (direct cases): every kind x family through a multi-chunk merge, and padded final batches whose pad value has
# another type than the data (int pad on float / float32 / bool data, '' on strings, float pad on int data, numpy scalars, ...)
REQUIRED_TYPED = ([f'elem:seq:{f}:merged' for f in SEQ_FAMS] + [f'elem:array:{f}:merged' for f in ARR_FAMS] +
                  [f'elem:nd:{f}:merged' for f in ND_FAMS] +
                  ['pad:array:float:int', 'pad:array:f32:int', 'pad:array:str:str', 'pad:array:int:float', 'pad:array:bool:int',
                   'pad:array:float:bool', 'pad:array:int:np', 'pad:array:str:int', 'pad:array:float:float',
                   'pad:nd:float:int', 'pad:nd:f32:int', 'pad:nd:str:str', 'pad:nd:int:float', 'pad:nd:bool:int',
                   'pad:seq:float:int', 'pad:seq:str:str', 'pad:seq:int:float', 'pad:seq:mixed:int', 'pad:seq:none:int',
                   'pad:seq:nested:int', 'pad:seq:bool:str', 'pad:seq:int:bool'])
REQUIRED_PIPELINE = ['flush:multi-slice', 'flush:carry-remainder', 'exhausted:remainder', 'malformed:ragged', 'malformed:ragged-skip',
                     'merge:>=2-chunks', 'nd-array:merge', 'zero-rows-buffered',
                     'rowfn:expand:fb=b', 'rowfn:expand:fb!=b', 'rowfn:expand:fb=0', 'rowfn:drop:fb=b', 'rowfn:drop:fb!=b',
                     'rowfn:drop:fb=0', 'rowfn:empty-intermediate-batch']


def gen_cases(ctx):
  def counted(it):
    for case in it:
      via = case.get('via', 'direct')
      ctx.count('entry_point', via)
      ctx.count('input_batches', min(len(case['batches']), 10))
      for br in branches(case):
        ctx.count('branch:' + ('direct' if via == 'direct' else 'pipeline'), br)
      yield case
  yield from counted(ctx.corpus())
  yield from counted(gen_direct(ctx))
  yield from counted(gen_typed(ctx))
  yield from counted(gen_via(ctx))
  yield from counted(gen_fail(ctx))


def extra(ctx):
  """Coverage promise of the generator: every arm of the re-batching logic is exercised (else: infrastructure failure)."""
  from harness.core import InfraError
  missing = [b for b in REQUIRED_BRANCHES + REQUIRED_TYPED if b not in ctx.hist.get('branch:direct', {})]
  missing += ['pipeline:' + b for b in REQUIRED_PIPELINE + REQUIRED_FAIL if b not in ctx.hist.get('branch:pipeline', {})]
  missing += ['entry:' + v for v in ('apply', 'select', 'batch', 'assign') if v not in ctx.hist.get('entry_point', {})]
  if missing:
    raise InfraError(f'generator missed promised branches: {missing}')


class _Counted:
  """Iterator wrapper counting `next()` calls (including the one that raises StopIteration)."""

  def __init__(self, it):
    self.it, self.n = iter(it), 0

  def __iter__(self):
    return self

  def __next__(self):
    self.n += 1
    return next(self.it)


def run_direct(case):
  from ml_metrics._src.utils import iter_utils
  batches = [tuple(mk_col(c['k'], c['r'], fam_of(c)) for c in b) for b in case['batches']]
  kw = {}
  if case['pad'] is not None:
    kw['pad'] = pad_value(case['pad'])
  src = _Counted(batches)
  it = iter_utils.rebatched_args(src, case['target'], num_columns=case['ncols'], **kw)
  out, pulls, err = [], [], None
  try:
    for b in it:
      out.append([col_obs(c) for c in b])
      pulls.append(src.n)     # how many input batches had been requested when this batch came out
  except Exception as e:  # pylint: disable=broad-except
    err = err_kind(e)
  return dict(out=out, err=err, pulls=pulls)


def _batch_fn(case):
  g, kinds_out, bare = ROW_FNS[case['g']], case['kinds_out'], case['bare']

  poison = set(case.get('poison') or ())

  calls = [0]     # private state of the function: how often it has been called

  def fn(*cols):
    k, calls[0] = calls[0], calls[0] + 1
    rows = list(zip(*[col_ids(c) for c in cols]))
    if any(r[0] in poison for r in rows):
      raise RuntimeError(f'cannot score rows {[r[0] for r in rows]}')     # `_maybe_call_fn` re-raises it as ValueError
    outs = [o for r in rows for o in apply_g(case, k, list(r))]
    res = tuple(mk_col(k, [o[c] for o in outs]) for c, k in enumerate(kinds_out))
    if len(res) == 1 and bare and kinds_out[0] != 'tuple':
      return res[0]          # a bare column: `_normalize_outputs` has to wrap it
    return res
  return fn


def run_via(case):
  """Drives the re-batching through the public pipeline API."""
  from absl import logging as alog
  alog.set_verbosity(alog.FATAL)      # the runner logs every exception it re-raises
  from ml_metrics import chainable
  via, nin, b, fb, bare = case['via'], case['ncols'], case['target'], case['fn_batch'], case['bare']
  in_keys = tuple(f'c{i}' for i in range(nin))
  nout = n_out(case['g'], nin)
  out_keys = tuple(f'o{i}' for i in range(nout))
  ik = in_keys[0] if (nin == 1 and bare) else in_keys
  ok = out_keys[0] if (nout == 1 and bare) else out_keys
  P = chainable.Pipeline.new()
  inputs = [{k: mk_col(c['k'], c['r']) for k, c in zip(in_keys, bt)} for bt in case['batches']]
  read = out_keys
  if via == 'apply':
    p = P.apply(fn=_batch_fn(case), input_keys=ik, output_keys=ok, fn_batch_size=fb, batch_size=b)
  elif via == 'assign':
    p = P.assign(ok, fn=_batch_fn(case), input_keys=ik, fn_batch_size=fb, batch_size=b)
  elif via == 'select':
    p, read = P.select(ik, batch_size=b), in_keys
  elif via == 'batch':
    read = in_keys
    if nin == 1 and bare:     # a stream of bare rows
      inputs = [bt[0]['r'][0] for bt in case['batches']]
      p, read = P.batch(b), None
    else:
      inputs = [{k: c['r'][0] for k, c in zip(in_keys, bt)} for bt in case['batches']]
      p = P.select(ik).batch(b)
  else:
    raise ValueError(via)
  out, ins, err = [], [], None
  try:
    kw = {'ignore_error': True} if case.get('ignore_error') else {}
    for tree in p.make().iterate(iter(inputs), **kw):
      out.append([col_obs(tree)] if read is None else [col_obs(tree[k]) for k in read])
      if via == 'assign':
        ins.append([col_obs(tree[k]) for k in in_keys])
  except Exception as e:  # pylint: disable=broad-except
    err = err_kind(e)
  obs = dict(out=out, err=err)
  if via == 'assign':
    obs['ins'] = ins
  return obs


def run_impl(case):
  return run_via(case) if case.get('via') else run_direct(case)


def kinds_out_of(case):
  if case['kinds_out'] is not None:
    return case['kinds_out']
  if case['batches']:
    return [c['k'] for c in case['batches'][0]]
  return ['list'] * case['ncols']


def assign_aligned(case):
  """Assign pairs the j-th re-batched output with the j-th *incoming* tree: only meaningful when
  re-batching reproduces the incoming batch boundaries."""
  b = case['target']
  sizes = [len(bt[0]['r']) for bt in case['batches']]
  if b == 0:
    return True
  return all(s == b for s in sizes[:-1]) and (not sizes or 1 <= sizes[-1] <= b)


def to_wire(batches):
  """Columns travel as container kind + row ids (elements are abstract in the model; n-D array columns as kind 'array')."""
  return [[{'k': wire_kind(c['k']), 'r': c['r']} for c in bt] for bt in batches]


def from_wire(out, declared, pad=None):
  """The model's output (kinds + ids) as an observation: column c was declared as declared[c] = (kind, family); ids are mapped
  back to the VALUES they stand for (`expect_col`), PAD_ID to the pad value as column c stores it."""
  res = []
  for bt in out:
    cols = []
    for i, col in enumerate(bt):
      kind, fam = declared[i] if i < len(declared) else (col['k'], 'int')
      if not (col['k'] == 'array' and kind in ND_TAIL):
        kind = col['k']
      if kind == 'other':
        cols.append({'k': 'other', 'v': [tv(x) for x in col['r']]})
      else:
        cols.append(expect_col(kind, fam, col['r'], pad))
    res.append(cols)
  return res


def model_requests(case):
  if case.get('via'):
    return [dict(model='rebatch', op='treefn', target=case['target'], fn_batch=case['fn_batch'],
                 ncols=case['ncols'], nout_kinds=[wire_kind(k) for k in kinds_out_of(case)], g=case['g'],
                 ident=case['via'] == 'select', skip=bool(case.get('ignore_error')), poison=case.get('poison', []),
                 batches=to_wire(case['batches']))]
  return [dict(model='rebatch', target=case['target'], ncols=case['ncols'],
               pad=None if case['pad'] is None else PAD_ID, batches=to_wire(case['batches']))]


def model_obs(case, resps):
  r = resps[0]
  if not case.get('via'):
    declared = [(c['k'], fam_of(c)) for c in case['batches'][0]] if case['batches'] else []
    return dict(out=from_wire(r['out'], declared, case['pad']), err=r['err'], pulls=r['pulls'])
  obs = dict(out=from_wire(r['out'], [(k, 'int') for k in kinds_out_of(case)]), err=r['err'])
  if case['via'] == 'assign':
    if not assign_aligned(case):
      return dict(skip='Assign outside the aligned domain (finding F-C19-assign): the model of TreeFn._iterate does not say '
                       'how Assign pairs outputs with inputs')
    obs['ins'] = [[decl_obs(c) for c in bt] for bt in case['batches'][:len(r['out'])]]
  return obs


def compare(impl_obs, mobs):
  if 'skip' in mobs:
    return None
  return None if impl_obs == mobs else 'observations differ'


def well_formed(case):
  bs = case['batches']
  if not bs:
    return True
  n = len(bs[0])
  if case['ncols'] and case['ncols'] != n:
    return False
  for b in bs:
    if len(b) != n:
      return False
    if len({len(c['r']) for c in b}) > 1:
      return False
    if any(c['k'] == 'other' for c in b):
      return False
  return n > 0


def check_shapes(out, ncols, t, pad):
  """Sizes and rectangularity of the emitted batches (target t > 0)."""
  for j, b in enumerate(out):
    if len(b) != ncols:
      return f'batch {j} has {len(b)} columns, expected {ncols}'
    lens = {len(c['v']) for c in b}
    if len(lens) != 1:
      return f'batch {j} has columns of different lengths {sorted(lens)}'
    L = lens.pop()
    if j < len(out) - 1 and L != t:
      return f'non-final batch {j} has {L} rows, target {t}'
    if j == len(out) - 1 and not (1 <= L <= t):
      return f'final batch has {L} rows, target {t}'
    if j == len(out) - 1 and pad is not None and L != t:
      return f'final batch not padded: {L} rows'
  return None


def check_rows(out, c, kind, fam, want_ids, pad, what):
  """Column c of the emitted batches holds exactly the rows `want_ids` (PAD_ID = a padding row), each with the VALUE AND TYPE it had
  in the input: element by element (type, repr); for array columns also the dtype of every emitted batch and the shape of its rows."""
  want = expect_col(kind, fam, want_ids, pad)
  got = [v for b in out for v in b[c]['v']]
  if got != want['v']:
    i = next((i for i, (x, y) in enumerate(zip(got, want['v'])) if x != y), min(len(got), len(want['v'])))
    return (f'{what} column {c}: row {i} of the emitted rows is {got[i] if i < len(got) else "missing"}, the input row (or padding) '
            f'there is {want["v"][i] if i < len(want["v"]) else "nothing"} ({len(got)} rows emitted, {len(want["v"])} expected)')
  if 'dtype' in want:
    for j, b in enumerate(out):
      if b[c].get('dtype') != want['dtype']:
        return f"{what} column {c}, batch {j}: dtype {b[c].get('dtype')} but the input rows have dtype {want['dtype']}"
      if b[c].get('shape', [None])[1:] != want['shape'][1:]:
        return f"{what} column {c}, batch {j}: shape {b[c].get('shape')} but every input row has shape {want['shape'][1:]}"
  return None


def oracle_direct(case, obs):
  t, bs, pad = case['target'], case['batches'], case['pad']
  if obs['err'] is not None:
    return f"well-formed stream raised {obs['err']}"
  out = obs['out']
  if t == 0:
    return None if out == [[decl_obs(c) for c in b] for b in bs] else 'target 0 is not the identity'
  ncols = len(bs[0]) if bs else (case['ncols'] or 0)
  total = sum(len(b[0]['r']) for b in bs) if bs else 0
  bad = check_shapes(out, ncols, t, pad)
  if bad:
    return bad
  npad = 0 if pad is None else (t - total % t) % t
  if not bs:
    return 'an empty stream produced batches' if out else None
  for c in range(ncols):
    # padding only appends: the emitted rows are the input rows, unchanged in value and type, then the pad value
    bad = check_rows(out, c, bs[0][c]['k'], fam_of(bs[0][c]), [x for b in bs for x in b[c]['r']] + [PAD_ID] * npad, pad, '')
    if bad:
      return bad.strip()
  # online: a batch must come out as soon as its rows have been received, never earlier
  seen = [0]
  for b in bs:
    seen.append(seen[-1] + len(b[0]['r']))
  done = 0
  for j, (b, k) in enumerate(zip(out, obs['pulls'])):
    done += len(b[0]['v'])
    need = min(done, total)     # padding rows are not received
    first = next(i for i, s in enumerate(seen) if s >= need)     # batches needed to have `need` rows
    full = len(b[0]['v']) == t and done <= total
    want_k = first if full else len(bs) + 1                      # the remainder only at exhaustion
    if k != want_k:
      return f'batch {j} was emitted after {k} source requests, expected {want_k}'
  return None


def call_groups(case):
  """via cases: the groups of input rows the function is called with (fn_batch_size rows each, the last shorter; the incoming
  batches if fn_batch_size = 0), from the definition of fn_batch_size."""
  bs, fb = case['batches'], case['fn_batch']
  rows = [[c['r'][i] for c in bt] for bt in bs for i in range(len(bt[0]['r']))]
  sizes = [len(bt[0]['r']) for bt in bs]
  if fb:
    sizes = [fb] * (len(rows) // fb) + ([len(rows) % fb] if len(rows) % fb else [])
  groups, pos = [], 0
  for n in sizes:
    groups.append(rows[pos:pos + n])
    pos += n
  return groups


def group_fails(case, group):
  poison = set(case.get('poison') or ())
  return any(r[0] in poison for r in group)


def oracle_via(case, obs):
  bs, b, nin, g = case['batches'], case['target'], case['ncols'], ROW_FNS[case['g']]
  out = obs['out']
  nout = n_out(case['g'], nin)
  kinds_out = kinds_out_of(case)
  groups = list(enumerate(call_groups(case)))      # (call number, rows of the call)
  failing = [i for i, grp in groups if group_fails(case, grp)]
  skip = bool(case.get('ignore_error'))
  if failing and not skip:
    # the first failing call ends the run with its error; what came out before are complete batches of rows of the EARLIER calls
    if obs['err'] != 'ValueError':
      return f"a failing call (skipping off) must surface as ValueError, got {obs['err']}"
    groups, partial = groups[:failing[0]], True
  else:
    if obs['err'] is not None:
      return f"well-formed stream raised {obs['err']} through Pipeline.{case['via']}" + (' with ignore_error' if skip else '')
    # skipping on: a failing call drops exactly the rows of its own group; every row returned by a successful call was handed
    # to the output re-batcher and has to come out, in order (also the rows it carried over when a later call failed)
    groups, partial = [(i, grp) for i, grp in groups if i not in failing], False
  # flat-map of the row function over the rows of those calls (a function with state sees its call number)
  want_rows = [o for k, grp in groups for r in grp for o in apply_g(case, k, r)]
  if partial and b > 0:
    want_rows = want_rows[:len(want_rows) // b * b]                # rows held back by the re-batcher die with the error
  if b > 0:
    bad = check_shapes(out, nout, b, None)
    if bad:
      return bad
    if partial and out and len(out[-1][0]['v']) != b:
      return 'an incomplete batch was emitted before the error'
  else:       # no re-batching at all: one output batch per call, holding what the function returns for it
    if [len(o[0]['v']) for o in out] != [sum(len(g(r)) for r in grp) for _, grp in groups]:
      return 'batch_size=0 changed the batch boundaries'
  for c in range(nout):
    bad = check_rows(out, c, kinds_out[c] if c < len(kinds_out) else 'list', 'int', [r[c] for r in want_rows], None, 'output')
    if bad:
      return bad + (f' (calls {failing} of {len(call_groups(case))} fail, ignore_error={skip})' if failing else '')
  if case['via'] == 'assign':
    # every emitted tree: the assigned columns and the original columns describe the same rows
    ins = obs['ins']
    rows = [r for grp in call_groups(case) for r in grp]
    for j, (o, i) in enumerate(zip(out, ins)):
      lens = {len(c['v']) for c in o + i}
      if len(lens) != 1:
        return f'tree {j}: assigned and original columns have different lengths {sorted(lens)}'
      oi, ii = [ids_of_obs(c) for c in o], [ids_of_obs(c) for c in i]
      for r in range(lens.pop()):
        if [[c[r] for c in oi]] != g([c[r] for c in ii]):
          return f'tree {j} row {r}: assigned values do not belong to the original row'
    if [x for i in ins for x in ids_of_obs(i[0])] != [r[0] for r in rows]:
      return 'original rows were lost or duplicated by Assign with batch_size'
  return None


def oracle(case, obs):
  """The property itself on the real output (independent of the model)."""
  if not well_formed(case):
    return None
  return oracle_via(case, obs) if case.get('via') else oracle_direct(case, obs)


def nontrivial(case, obs):
  bs = case['batches']
  return len(bs) >= 2 and case['target'] > 0 and any(b and len(b[0]['r']) != case['target'] for b in bs)


def finding(case, what):
  if case.get('via') == 'assign' and not assign_aligned(case):
    return 'F-C19-assign'
  if not case.get('via') and not case['batches'] and case['ncols'] == 0 and case['target'] > 0:
    return 'F11'
  return None


def neighbours(case, rng):
  """Cases near `case`: same shape with other targets/pads, sub-streams, resized batches."""
  import copy
  for t in range(0, 8):
    c = copy.deepcopy(case); c['target'] = t
    if c.get('via') and t == 0:
      c['fn_batch'] = 0
    yield c
  if case.get('via'):
    for fb in range(0, 5):
      c = copy.deepcopy(case); c['fn_batch'] = fb if c['target'] else 0; yield c
    if case['via'] == 'apply' and case['batches']:      # the same run with one failing call, with and without skipping
      for k, grp in enumerate(call_groups(case)):
        for skip in (True, False):
          if grp:
            c = copy.deepcopy(case); c['poison'] = [grp[0][0]]; c['ignore_error'] = skip; yield c
  else:
    for p in (None, 0, 5, 'i-1', 'f0.5', 'bF', 's'):
      c = copy.deepcopy(case); c['pad'] = p
      if not c['batches'] or pad_compatible(p, c['batches'][0]):
        yield c
    for fam in FAMS:      # the same stream with other element types
      c = copy.deepcopy(case)
      for bt in c['batches']:
        for col in bt:
          is_arr = col['k'] == 'array' or col['k'] in ND_TAIL
          f = arr_fam(col['k'], fam) if is_arr else ('float' if fam == 'f32' else fam)
          col.pop('e', None)
          if f != 'int' and col['k'] != 'other':
            col['e'] = f
      if not c['batches'] or pad_compatible(c['pad'], c['batches'][0]):
        yield c
  for i in range(len(case['batches'])):
    c = copy.deepcopy(case); del c['batches'][i]; yield c
  for _ in range(200):
    n = rng.randrange(0, 6)
    yield make_case([rng.randrange(0, 6) for _ in range(n)], rng.randrange(1, 6), rng.randrange(1, 4),
                    [rng.choice(KINDS) for _ in range(3)], rng.choice([None, 0]), rng.random() < 0.5)


def shrink(case, fails0):
  import copy
  cls = finding(case, '')
  fails = lambda c: finding(c, '') == cls and fails0(c)   # stay inside the same finding class
  cur = case
  changed = True
  while changed:
    changed = False
    for i in range(len(cur['batches'])):
      c = copy.deepcopy(cur); del c['batches'][i]
      if fails(c):
        cur, changed = c, True
        break
    else:
      for i, b in enumerate(cur['batches']):
        if b and b[0]['r']:
          c = copy.deepcopy(cur)
          for col in c['batches'][i]:
            col['r'] = col['r'][:-1]
          if fails(c):
            cur, changed = c, True
            break
  return cur
