"""C19 — re-batching conserves rows, order and column alignment.

Real code: ml_metrics._src.utils.iter_utils.rebatched_args  (and, in `extra`, the
TreeFn / TreeTransform batch_size paths that call it).
Model: lean/MlModel/Model/Rebatch.lean; theorems: lean/MlModel/Properties/C19.lean.
"""
import itertools

import numpy as np

from harness.core import canon, err_kind

PID = 'C19'
TITLE = 'Re-batching conserves rows, order and column alignment'
LEAN_MODULES = ['MlModel.Properties.C19']
TRUSTED = [
    'modelled, not verified: more_itertools.sliced/flatten/padded, np.concatenate/np.pad, zip(strict=True) '
    '(their list semantics are written out in Model/Rebatch.lean)',
]
ASSUMPTIONS = ['rows are opaque values (ints in the correspondence); containers are list/tuple/ndarray, '
               'plus bytes as the representative of an unsupported container kind']
RULE = ('small-exhaustive over batch-size sequences (len<=3, sizes 0..4 quick / len<=4, sizes 0..6 thorough) x targets x '
        'column counts x container kinds x pad, then random long streams and a ~10% malformed stream '
        '(ragged columns, wrong column count, unsupported container); non-trivial = at least 2 input batches '
        'and the target size differs from some input batch size; distinct = distinct canonical case JSON')

KINDS = ['list', 'tuple', 'array']


def mk_col(kind, rows):
  if kind == 'list':
    return list(rows)
  if kind == 'tuple':
    return tuple(rows)
  if kind == 'array':
    return np.array(rows, dtype=np.int64)
  if kind == 'other':
    return bytes(rows)
  raise ValueError(kind)


def col_obs(c):
  if isinstance(c, np.ndarray):
    return {'k': 'array', 'r': [int(x) for x in c.tolist()]}
  if isinstance(c, list):
    return {'k': 'list', 'r': canon(c)}
  if isinstance(c, tuple):
    return {'k': 'tuple', 'r': canon(c)}
  if isinstance(c, (bytes, bytearray)):
    return {'k': 'other', 'r': list(c)}
  return {'k': type(c).__name__, 'r': canon(list(c))}


def make_case(sizes, target, ncols, kinds, pad, explicit_cols, malform=None):
  """Rows are numbered globally so that misalignment is visible: row g of column c is g*10+c."""
  batches, g = [], 0
  for s in sizes:
    b = []
    for c in range(ncols):
      b.append({'k': kinds[c % len(kinds)], 'r': [((g + i) * 10 + c) % 250 for i in range(s)]})
    g += s
    batches.append(b)
  case = dict(target=target, ncols=ncols if explicit_cols else 0, pad=pad, batches=batches)
  if malform:
    case['malform'] = malform
  return case


def gen_cases(ctx):
  yield from ctx.corpus()
  rng = ctx.rng
  quick = ctx.quick
  maxlen, maxsize, targets = (3, 4, (1, 2, 3)) if quick else (4, 6, (1, 2, 3, 4, 5))
  # small-exhaustive
  for n in range(0, maxlen + 1):
    for sizes in itertools.product(range(0, maxsize + 1), repeat=n):
      for target in targets:
        ncols = 1 + (sum(sizes) + n + target) % 3
        kinds = [KINDS[(sum(sizes) + target + i) % 3] for i in range(ncols)]
        pad = None if (sum(sizes) + n) % 2 == 0 else 0
        yield make_case(sizes, target, ncols, kinds, pad, explicit_cols=(n + target) % 2 == 0)
  yield make_case((), 0, 1, ['list'], None, True)
  yield make_case((2, 3), 0, 2, ['list', 'array'], None, False)
  # random long
  for _ in range(300 if quick else 6000):
    n = rng.randrange(0, 12)
    sizes = [rng.choice([0, 1, 1, 2, 3, 5, 8, 13]) for _ in range(n)]
    target = rng.choice([1, 2, 3, 4, 5, 7, 16])
    ncols = rng.randrange(1, 4)
    kinds = [rng.choice(KINDS) for _ in range(ncols)]
    pad = rng.choice([None, None, 0, 7])
    yield make_case(sizes, target, ncols, kinds, pad, rng.random() < 0.5)
  # malformed stream
  for _ in range(60 if quick else 1500):
    n = rng.randrange(1, 6)
    sizes = [rng.randrange(0, 5) for _ in range(n)]
    target = rng.randrange(1, 5)
    ncols = rng.randrange(1, 4)
    kinds = [rng.choice(KINDS) for _ in range(ncols)]
    case = make_case(sizes, target, ncols, kinds, rng.choice([None, 0]), rng.random() < 0.5)
    how = rng.choice(['ragged', 'cols', 'other', 'zerocols'])
    bi = rng.randrange(n)
    b = case['batches'][bi]
    if how == 'ragged' and ncols > 1:
      b[rng.randrange(ncols)]['r'].append(99)
    elif how == 'cols':
      if rng.random() < 0.5 and len(b) > 1:
        b.pop()
      else:
        b.append({'k': 'list', 'r': list(range(len(b[0]['r'])))})
    elif how == 'other':
      for bb in case['batches']:
        bb[0]['k'] = 'other'
    elif how == 'zerocols':
      case['batches'] = [[] for _ in sizes]
    case['malform'] = how
    yield case


def run_impl(case):
  from ml_metrics._src.utils import iter_utils
  batches = [tuple(mk_col(c['k'], c['r']) for c in b) for b in case['batches']]
  kw = {}
  if case['pad'] is not None:
    kw['pad'] = case['pad']
  it = iter_utils.rebatched_args(iter(batches), case['target'], num_columns=case['ncols'], **kw)
  out, err = [], None
  try:
    for b in it:
      out.append([col_obs(c) for c in b])
  except Exception as e:  # pylint: disable=broad-except
    err = err_kind(e)
  return dict(out=out, err=err)


def model_requests(case):
  return [dict(model='rebatch', target=case['target'], ncols=case['ncols'], pad=case['pad'],
               batches=case['batches'])]


def model_obs(case, resps):
  r = resps[0]
  return dict(out=r['out'], err=r['err'])


def well_formed(case):
  bs = case['batches']
  if not bs:
    return True
  n = len(bs[0])
  if case['ncols'] and case['ncols'] != n:
    return False
  for b in bs:
    if len(b) != n:
      return False
    if len({len(c['r']) for c in b}) > 1:
      return False
    if any(c['k'] == 'other' for c in b):
      return False
  return n > 0


def oracle(case, obs):
  """The property itself on the real output (independent of the model)."""
  if not well_formed(case):
    return None
  t, bs, pad = case['target'], case['batches'], case['pad']
  if obs['err'] is not None:
    return f"well-formed stream raised {obs['err']}"
  out = obs['out']
  if t == 0:
    return None if out == bs else 'target 0 is not the identity'
  ncols = len(bs[0]) if bs else (case['ncols'] or 0)
  total = sum(len(b[0]['r']) for b in bs) if bs else 0
  for j, b in enumerate(out):
    if len(b) != ncols:
      return f'batch {j} has {len(b)} columns, expected {ncols}'
    lens = {len(c['r']) for c in b}
    if len(lens) != 1:
      return f'batch {j} has columns of different lengths {sorted(lens)}'
    L = lens.pop()
    if j < len(out) - 1 and L != t:
      return f'non-final batch {j} has {L} rows, target {t}'
    if j == len(out) - 1 and not (1 <= L <= t):
      return f'final batch has {L} rows, target {t}'
    if j == len(out) - 1 and pad is not None and L != t:
      return f'final batch not padded: {L} rows'
  npad = 0 if pad is None else (t - total % t) % t
  for c in range(ncols):
    want = [x for b in bs for x in b[c]['r']] + [pad] * npad
    got = [x for b in out for x in b[c]['r']]
    if got != want:
      return f'column {c}: emitted rows {got} != input rows (+padding) {want}'
  return None


def nontrivial(case, obs):
  bs = case['batches']
  return len(bs) >= 2 and case['target'] > 0 and any(b and len(b[0]['r']) != case['target'] for b in bs)


def finding(case, what):
  if not case['batches'] and case['ncols'] == 0 and case['target'] > 0:
    return 'F11'
  return None


def neighbours(case, rng):
  """Cases near `case`: same shape with other targets/pads, sub-streams, resized batches."""
  import copy
  for t in range(0, 8):
    c = copy.deepcopy(case); c['target'] = t; yield c
  for p in (None, 0, 5):
    c = copy.deepcopy(case); c['pad'] = p; yield c
  for i in range(len(case['batches'])):
    c = copy.deepcopy(case); del c['batches'][i]; yield c
  for _ in range(200):
    n = rng.randrange(0, 6)
    yield make_case([rng.randrange(0, 6) for _ in range(n)], rng.randrange(1, 6), rng.randrange(1, 4),
                    [rng.choice(KINDS) for _ in range(3)], rng.choice([None, 0]), rng.random() < 0.5)


def shrink(case, fails):
  import copy
  cur = case
  changed = True
  while changed:
    changed = False
    for i in range(len(cur['batches'])):
      c = copy.deepcopy(cur); del c['batches'][i]
      if fails(c):
        cur, changed = c, True
        break
    else:
      for i, b in enumerate(cur['batches']):
        if b and b[0]['r']:
          c = copy.deepcopy(cur)
          for col in c['batches'][i]:
            col['r'] = col['r'][:-1]
          if fails(c):
            cur, changed = c, True
            break
  return cur
