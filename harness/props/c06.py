"""C06 — distributed runs survive worker timeouts and deaths: no lost or doubled work.

Real code (entered through the public entry points, over harness.fakecourier, real `PrefetchedCourierServer`s
and a real `WorkerPool`):
  kind 'sharded' : orchestrate.sharded_pipelines_as_iterator(pool, define_pipeline, ..., num_shards, result_queue,
                   retry_threshold)  -> WorkerPool.iterate + CourierClient.async_iterate + compute_result thread
  kind 'ac'      : orchestrate.as_completed(pool, tasks, ignore_failures)
  kind 'run'     : WorkerPool.run(task)
  kind 'f21'     : 'sharded' with a directed hand-off: the worker dies between the coroutine's hand-over of the
                   shard's state and the completion of the coroutine (event-loop thread held for 0.25 s there)
  kind 'gen'     : WorkerPool.iterate(generator tasks, generator_result_queue=q): plain generator tasks whose RETURN
                   VALUE is drawn from a library holding every falsy value class (0, 0.0, False, '', [], {}, (), None,
                   b'') next to truthy ones - "every task's result is delivered exactly once" whatever the value
  kind 'shutdown': 'sharded' where one worker is STOPPED (stop()/SIGTERM) while its generator is inside a slow next():
                   the in-flight next_batch and every init_generator it still receives answer "shutdown requested"
                   (a RETRIABLE outcome: the run must go on with the other worker), then it goes away for real
  kind 'acrejoin': as_completed, NO call timeout: worker `first` dies with a call in flight (plan 'restart': the response is
                   lost for good, the death is announced), the master's loop goes round, the worker is restarted and
                   re-registers; only then every worker marked 'die_late' dies at its next call.  One worker is usable at
                   every moment (a rejoined worker IS usable), so every task's result is owed exactly once.
  `exc` (gen task / sharded+fail_at / ac+bad): the application error is a VALUE THE CODE SPECIAL-CASES - every exception the
                   code under the property constructs or compares with, every class it names, carrying the texts it compares
                   with (read off the source by harness.lib_prefetch_values, see harness.lib_sched_faults.specials)
  optional `lat` : [[worker, counted call index, ms], ..] - the REPLY of that call is held back (RPC latency / reply
                   order as an environment choice; harness.lib_sched_ext.ReplyLatency)
Model: lean/MlModel/Model/Sched.lean (`AC`, `IT`), theorems lean/MlModel/Properties/C06.lean.

Case format (JSON): {kind, workers, plans:[[fate,..] per worker], ...}
  sharded/f21: shards, n (elements 0..n-1), pipe (p0|p1|p2), threshold, fail_at? (element whose row function raises)
  ac         : tasks (number), bad:[task ids whose evaluation raises], ignore (ignore_failures)
  run        : bad (bool)
Fates per counted call index: ok | deadline | deadline_after | die | restart | app_error (see harness/lib_sched.py).

Correspondence: the Lean driver explores ALL schedules of the model for the same fault plan (exhaustively for
small configurations, by sampling for larger ones) and the real run's observation must be one of the model's
terminal observations (a hang must be a reachable stuck state).  The oracle is the English statement, evaluated
against the in-process run of the same pipeline / direct evaluation of the same tasks.
"""
import collections
import itertools
import queue

import os

from harness import lib_sched as L
from harness import lib_sched_ext as X
from harness import lib_sched_faults as F
from harness.core import err_kind

PID = 'C06'
TITLE = 'Distributed runs survive worker timeouts and deaths: no lost or doubled work'
LEAN_MODULES = ['MlModel.Properties.C06', 'MlModel.Properties.C06Val', 'MlModel.Properties.C06Rejoin', 'MlModel.Witness.C06',
                'MlModel.Witness.C06Rejoin']
REPO = os.environ.get('VERIF_REPO', '/repo')
TRUSTED = [
    'the courier transport is harness/fakecourier (in-process): at-most-once handler execution, deadline errors carry '
    'code 4, an unreachable server completes no call, arguments/results are passed by reference (the repo pickles them)',
    'worker deaths are announced to the master (WorkerRegistry.unregister, as a stopping CourierServer does); '
    'detection by heartbeat staleness (180 s real time) is not exercised',
    'the asyncio event loop, thread scheduling and RPC timing are not modelled: one model step = one main-loop '
    'examination of one task / one coroutine step; the tie is "observation of the real run is a terminal observation '
    'of the model under some schedule"',
]
ASSUMPTIONS = [
    'a restarted worker is seen alive again only after the master has dealt with the call that hung on it '
    "(kind 'acrejoin': after the master's loop has gone round 40 times since the announced death - whatever it did "
    'with the call)',
    'max_parallelism = 1, iterate_batch_size = 1 (defaults); one pool per run',
]
RULE = ('sharded runs: every single-fault plan (worker x call index 0..5 x {deadline, deadline_after, die, restart, app_error}) '
        'for small configurations (1-2 workers, 1-2 shards), then random plans with 1-4 faults for 1-3 workers / 1-4 shards, '
        'three pipelines, thresholds from 0 to ample, task errors inside the pipeline (~10 %); as_completed: the same over '
        '1-3 workers / 1-4 tasks incl. raising tasks and ignore_failures; WorkerPool.run; the directed F21 hand-off. '
        'non-trivial = at least one fault was actually delivered by the transport (or a task error was reached); '
        'distinct = distinct canonical case JSON')

FAULTS = ['deadline', 'deadline_after', 'die', 'restart', 'app_error']
TIMEOUT = 8.0
_REF = {}


def ref(n, pipe):
  k = (n, pipe)
  if k not in _REF:
    _REF[k] = L.in_process(n, pipe)
  return _REF[k]


# ------------------------------------------------------------------------------------------ generation

def usable_by_plan(plans, workers):
  """At least one worker never dies for good according to the plan."""
  plans = list(plans) + [[]] * (workers - len(plans))
  return any('die' not in p for p in plans[:workers])


def gen_cases(ctx):
  """Wrapper that records what the generated cases cover (evidence histograms)."""
  for c in _gen_cases(ctx):
    ctx.count('kind', c['kind'])
    ctx.count('workers', c['workers'])
    if c['kind'] == 'acrejoin':
      ctx.count('tasks', c['tasks'])
      ctx.count('rejoin_first_die_at', c['plans'][c['first']].index('restart'))
      yield c
      continue
    if 'shards' in c:
      ctx.count('shards', c['shards'])
    if 'tasks' in c:
      ctx.count('tasks', c['tasks'])
    if 'threshold' in c:
      ctx.count('threshold', c['threshold'])
    nf = 0
    for p in c['plans']:
      for i, f in enumerate(p):
        if f != 'ok':
          nf += 1
          ctx.count('fate', f)
          ctx.count('fault_call_index', i)
    ctx.count('faults_per_case', nf)
    if c.get('fail_at') is not None or c.get('bad'):
      ctx.count('task_error', 'yes')
    if c.get('pipe'):
      ctx.count('pipe', c['pipe'])
    if c.get('lat'):
      ctx.count('latency', len(c['lat']))
    if c['kind'] == 'gen':
      for t in c['tasks']:
        if 'exc' in t:
          ctx.count('special_app_error', f"gen:{t['exc'][1]}{_tok_args(t['exc'])}")
        else:
          ctx.count('gen_return', X.canon_value(X.RETURNS[t['rc']]))
    elif c.get('exc'):
      ctx.count('special_app_error', f"{c['kind']}:{c['exc'][1]}{_tok_args(c['exc'])}")
    yield c


def _tok_args(tok):
  return '(' + ', '.join(repr(F.V.decode(a)) for a in tok[2]) + ')'


def _gen_cases(ctx):
  rng = ctx.rng
  quick = ctx.quick
  for c in ctx.corpus():
    yield c
  # --- sharded: single-fault exhaustive for small configurations
  small = [(1, 1, 2), (1, 2, 3), (2, 1, 2), (2, 2, 3)] if quick else \
      [(1, 1, 2), (1, 2, 3), (1, 2, 4), (2, 1, 2), (2, 2, 3), (2, 2, 4), (2, 3, 4), (3, 2, 3)]
  for (w, s, n) in small:
    yield dict(kind='sharded', workers=w, shards=s, n=n, pipe='p0', plans=[[] for _ in range(w)], threshold=3)
    for wi in range(w):
      for idx in range(6):
        for f in FAULTS:
          if f == 'die' and w == 1 and idx > 1:
            continue   # a pool whose only worker dies for good can only hang (outside the hypothesis): keep two
          plans = [[] for _ in range(w)]
          plans[wi] = ['ok'] * idx + [f]
          yield dict(kind='sharded', workers=w, shards=s, n=n, pipe=('p0', 'p1', 'p2')[(idx + wi) % 3],
                     plans=plans, threshold=(0 if (idx + len(f)) % 4 == 0 else 3))
  # --- sharded: every pair of faults (thorough) for one small configuration
  if not quick:
    pos = [(wi, idx) for wi in range(2) for idx in range(6)]
    for a, b in itertools.combinations(pos, 2):
      for fa in ('deadline', 'restart', 'app_error'):
        for fb in ('deadline', 'restart', 'die'):
          plans = [['ok'] * 6, ['ok'] * 6]
          plans[a[0]][a[1]] = fa
          plans[b[0]][b[1]] = fb
          yield dict(kind='sharded', workers=2, shards=2, n=3, pipe='p0', plans=[_strip(p) for p in plans],
                     threshold=(1 if (a[1] + b[1]) % 2 else 3))
  # --- sharded: random plans
  for _ in range(250 if quick else 3500):
    w = rng.choice([1, 2, 2, 3, 3])
    s = rng.choice([1, 2, 2, 3, 4])
    n = rng.randrange(max(1, s - 1), s + 4)
    plans = [['ok'] * 6 for _ in range(w)]
    for _ in range(rng.choice([1, 1, 2, 2, 3, 4])):
      plans[rng.randrange(w)][rng.randrange(6)] = rng.choice(FAULTS + ['deadline', 'restart'])
    if not usable_by_plan(plans, w) and rng.random() < 0.9:
      plans[rng.randrange(w)] = [('restart' if f == 'die' else f) for f in plans[0]]
    plans = [_strip(p) for p in plans]
    c = dict(kind='sharded', workers=w, shards=s, n=n, pipe=rng.choice(['p0', 'p1', 'p2', 'p3']), plans=plans,
             threshold=rng.choice([0, 1, 2, 3, 50]))
    if rng.random() < 0.1:
      c['fail_at'] = rng.randrange(n)
    yield c
  # --- as_completed
  for w in (1, 2, 3):
    for t in (1, 2, 3, 4):
      yield dict(kind='ac', workers=w, tasks=t, plans=[[] for _ in range(w)], bad=[], ignore=False)
  for (w, t) in ([(1, 2), (2, 2), (2, 3)] if quick else [(1, 2), (2, 2), (2, 3), (3, 3), (3, 4)]):
    for wi in range(w):
      for idx in range(4):
        for f in ('deadline', 'die', 'restart', 'app_error'):
          if f == 'die' and w == 1:
            continue
          plans = [[] for _ in range(w)]
          plans[wi] = ['ok'] * idx + [f]
          yield dict(kind='ac', workers=w, tasks=t, plans=plans, bad=[], ignore=False)
  for _ in range(80 if quick else 2200):
    w = rng.choice([1, 2, 3])
    t = rng.randrange(1, 5)
    plans = [['ok'] * 5 for _ in range(w)]
    for _ in range(rng.choice([0, 1, 1, 2, 3])):
      plans[rng.randrange(w)][rng.randrange(5)] = rng.choice(['deadline', 'die', 'restart', 'app_error', 'deadline'])
    plans = [_strip(p) for p in plans]
    bad = [i for i in range(t) if rng.random() < 0.12]
    yield dict(kind='ac', workers=w, tasks=t, plans=plans, bad=bad, ignore=rng.random() < 0.25)
  # --- WorkerPool.run
  for w in (1, 2):
    for bad in (False, True):
      yield dict(kind='run', workers=w, plans=[[] for _ in range(w)], bad=bad)
  yield dict(kind='run', workers=2, plans=[['deadline'], ['deadline']], bad=False)
  # --- generator tasks with arbitrary (falsy / truthy) return values
  nret = len(X.RETURNS)
  yield dict(kind='gen', workers=2, tasks=[dict(k=i % 3, rc=i) for i in range(nret)], plans=[[], []], threshold=3)
  for w in (1, 2, 3):
    for rc in X.FALSY:
      yield dict(kind='gen', workers=w, tasks=[dict(k=0, rc=rc), dict(k=2, rc=rc), dict(k=1, rc=(rc + 9) % nret)],
                 plans=[[] for _ in range(w)], threshold=3)
  for (w, nt) in [(1, 1), (2, 2)]:
    for wi in range(w):
      for idx in range(5):
        for f in FAULTS:
          if f == 'die' and w == 1:
            continue
          plans = [[] for _ in range(w)]
          plans[wi] = ['ok'] * idx + [f]
          yield dict(kind='gen', workers=w, tasks=[dict(k=(idx + j) % 2, rc=X.FALSY[(idx + wi + j) % len(X.FALSY)])
                                                   for j in range(nt)],
                     plans=plans, threshold=(0 if (idx + len(f)) % 4 == 0 else 3))
  for _ in range(60 if quick else 600):
    w = rng.choice([1, 2, 2, 3])
    nt = rng.randrange(1, 5)
    plans = [['ok'] * 6 for _ in range(w)]
    for _ in range(rng.choice([0, 1, 1, 2, 3])):
      plans[rng.randrange(w)][rng.randrange(6)] = rng.choice(FAULTS + ['deadline', 'restart'])
    if not usable_by_plan(plans, w):
      plans[rng.randrange(w)] = [('restart' if f == 'die' else f) for f in plans[0]]
    yield dict(kind='gen', workers=w, plans=[_strip(p) for p in plans], threshold=rng.choice([0, 1, 3, 50]),
               tasks=[dict(k=rng.randrange(0, 3), rc=rng.choice(X.FALSY + list(range(nret)))) for _ in range(nt)])
  # --- application errors whose VALUE the code special-cases (read off the source of the working tree)
  toks, _ = F.specials(REPO)
  for j, tok in enumerate(toks):
    w = 1 + j % 2
    yield dict(kind='gen', workers=w, plans=[[] for _ in range(w)], threshold=3,
               tasks=[dict(k=2, rc=9), dict(k=j % 3, exc=tok)][::(1 if j % 2 else -1)])
  hard = [t for t in toks if not F.is_retriable_class(t)]
  for j, tok in enumerate(hard):
    if quick and j % 2 and tok[1] != 'ValueError':
      continue
    s_, n_ = [(1, 2), (2, 3), (2, 4)][j % 3]
    yield dict(kind='sharded', workers=1 + j % 2, shards=s_, n=n_, pipe=('p0', 'p1', 'p2')[j % 3],
               plans=[[] for _ in range(1 + j % 2)], threshold=3, fail_at=j % n_, exc=tok)
    yield dict(kind='ac', workers=1 + j % 2, tasks=3, plans=[[] for _ in range(1 + j % 2)], bad=[j % 3], ignore=False,
               exc=tok)
  for _ in range(10 if quick else 200):     # a special application error next to transport faults
    tok = rng.choice(toks)
    w = rng.choice([1, 2, 2, 3])
    plans = [['ok'] * 6 for _ in range(w)]
    for _ in range(rng.choice([0, 1, 2])):
      plans[rng.randrange(w)][rng.randrange(6)] = rng.choice(['deadline', 'deadline_after', 'restart'])
    nt = rng.randrange(1, 4)
    tasks = [dict(k=rng.randrange(0, 3), rc=rng.randrange(nret)) for _ in range(nt)]
    tasks.insert(rng.randrange(nt + 1), dict(k=rng.randrange(0, 3), exc=tok))
    yield dict(kind='gen', workers=w, plans=[_strip(p) for p in plans], threshold=rng.choice([3, 50]), tasks=tasks)
  # --- die mid-call, REJOIN, then the remaining workers are lost (no call timeout)
  for (w, t) in ([(2, 3), (2, 5), (3, 4)] if quick else [(2, 2), (2, 3), (2, 5), (3, 4), (3, 6), (4, 6)]):
    for first in range(w if not quick else 2):
      for at in (0, 1, 2):
        plans = [['die_late'] for _ in range(w)]
        plans[first] = ['ok'] * at + ['restart']
        yield dict(kind='acrejoin', workers=w, tasks=t, first=first, plans=plans, slow=0.04)
  for _ in range(6 if quick else 150):
    w = rng.choice([2, 2, 3])
    first = rng.randrange(w)
    plans = [['die_late'] for _ in range(w)]
    plans[first] = ['ok'] * rng.randrange(0, 4) + ['restart']
    yield dict(kind='acrejoin', workers=w, tasks=rng.randrange(3, 7), first=first, plans=plans,
               slow=rng.choice([0.03, 0.04, 0.05]))
  # --- a worker stopped while its generator is inside a slow next() (shutdown replies are retriable)
  for (s, n, pipe) in ([(2, 4, 'p0'), (3, 6, 'p1'), (2, 5, 'p3'), (3, 7, 'p2')] if quick else
                       [(s, n, p) for s in (2, 3) for n in (4, 5, 7) for p in ('p0', 'p1', 'p2', 'p3')]):
    yield dict(kind='shutdown', workers=2, shards=s, n=n, pipe=pipe, plans=[[], []], threshold=999999)
  # --- reply latency / reply order as an environment choice
  for _ in range(30 if quick else 500):
    w = rng.choice([2, 2, 3])
    s = rng.choice([1, 2, 3])
    n = rng.randrange(max(1, s - 1), s + 4)
    plans = [['ok'] * 6 for _ in range(w)]
    for _ in range(rng.choice([0, 1, 1, 2])):
      plans[rng.randrange(w)][rng.randrange(6)] = rng.choice(['deadline', 'deadline_after', 'restart', 'deadline'])
    lat = [[rng.randrange(w), rng.randrange(6), rng.choice([2, 5, 10, 20])] for _ in range(rng.choice([1, 2, 3]))]
    yield dict(kind='sharded', workers=w, shards=s, n=n, pipe=rng.choice(['p0', 'p1', 'p2', 'p3']),
               plans=[_strip(p) for p in plans], threshold=rng.choice([1, 3, 50]), lat=lat)
  # --- chains with several aggregating stages (each stage's states are merged from the same one-shot stream)
  for (w, s, n) in [(1, 1, 2), (2, 2, 3), (2, 3, 5)]:
    for pipe in ('p3', 'p4'):
      yield dict(kind='sharded', workers=w, shards=s, n=n, pipe=pipe, plans=[[] for _ in range(w)], threshold=3)
      yield dict(kind='sharded', workers=w, shards=s, n=n, pipe=pipe, plans=[['ok', 'deadline']] + [[] for _ in range(w - 1)],
                 threshold=3)
  # --- directed hand-off (F21)
  for (s, n) in ([(1, 2), (2, 3)] if quick else [(1, 1), (1, 2), (1, 3), (2, 3), (2, 4), (3, 5)]):
    for pipe in ('p0', 'p1'):
      yield dict(kind='f21', workers=2, shards=s, n=n, pipe=pipe, plans=[[], []], threshold=5)


def _strip(p):
  p = list(p)
  while p and p[-1] == 'ok':
    p.pop()
  return p


# ------------------------------------------------------------------------------------------ real code

def run_impl(case):
  """One run; a run reported as HANG although a worker stays usable is run once more with a three times longer
  wall-clock limit before it counts: 'hang' is decided by a wall-clock guard, and on a heavily loaded machine a
  long-lived pool process can exceed 8 s without hanging (seen once in 18853 thorough-tier cases, not reproducible in
  ~2000 replays).  A real hang hangs again; a hang that does not repeat is recorded in the observation
  (`hang_not_reproduced`) and counted in the evidence."""
  global TIMEOUT
  obs = _run_impl(case)
  if isinstance(obs, dict) and obs.get('outcome') == 'hang' and case['kind'] in ('sharded', 'gen', 'shutdown') \
      and usable_by_plan(case['plans'], case['workers']):
    old = TIMEOUT
    TIMEOUT = 3 * old
    try:
      obs2 = _run_impl(case)
    finally:
      TIMEOUT = old
    if obs2.get('outcome') != 'hang':
      obs2['hang_not_reproduced'] = 1
      return obs2
  return obs


def _run_impl(case):
  kind = case['kind']
  if kind in ('sharded', 'f21', 'shutdown'):
    obs = run_shutdown(case) if kind == 'shutdown' else run_sharded(case)
    obs['nonempty'] = [s for s, size in enumerate(L.shard_sizes(case['n'], case['shards'])) if size]
  elif kind == 'gen':
    obs = run_gen(case)
  elif kind == 'ac':
    obs = run_ac(case)
  elif kind == 'acrejoin':
    obs = run_acrejoin(case)
  elif kind == 'run':
    return run_run(case)
  else:
    raise ValueError(kind)
  obs['kind'] = kind
  obs['faultfree'] = all(f == 'ok' for p in case['plans'] for f in p) and not case.get('bad') \
      and case.get('fail_at') is None and kind not in ('f21', 'shutdown', 'acrejoin') \
      and not any('exc' in t for t in (case['tasks'] if kind == 'gen' else []))
  obs['proj'] = project(case, obs)     # the observation in the model's vocabulary (used by `compare`)
  return obs


def outcome_of(hang, exc):
  if hang:
    return 'hang'
  if exc is None:
    return 'returned'
  k = err_kind(exc)
  return k


class _HookQueue:
  """queue.SimpleQueue replacement handed to the repo modules for the F21 hand-off."""
  hook = None

  def __init__(self):
    self._q = queue.SimpleQueue()

  def put(self, x):
    self._q.put(x)
    h = _HookQueue.hook
    if h is not None:
      h(x)

  def get(self, *a, **k):
    return self._q.get(*a, **k)

  def empty(self):
    return self._q.empty()


def _queue_shim():
  import types
  shim = types.ModuleType('queue_shim')
  for k in dir(queue):
    if not k.startswith('__'):
      setattr(shim, k, getattr(queue, k))
  shim.SimpleQueue = _HookQueue
  return shim


def run_sharded(case):
  ns = L.setup()
  cl = L.Cluster(case['workers'], case['plans'])
  rq = queue.SimpleQueue()
  batches = []
  info = {}
  f21 = case['kind'] == 'f21'
  lat = _latency(cl, case)
  if f21:
    import threading
    import time as real_time
    body_thread = {}

    def hook(x):
      # first hand-over of a shard state made by the event-loop thread (not by the bookkeeping loop)
      if isinstance(x, ns.transform.AggregateResult) and 'killed' not in info \
          and threading.current_thread().name != 'case-body':
        calls = cl.calls()
        w = calls[-1][0]
        info['killed'] = w
        info['kill_at'] = sum(1 for c in calls if c[0] == w)
        cl.kill(w)                 # the worker dies right after its last answer ...
        real_time.sleep(0.25)      # ... and the event-loop thread is descheduled before the coroutine completes

    _HookQueue.hook = hook
    shim = _queue_shim()
    ns.orchestrate.queue = shim
    ns.courier_worker.queue = shim
    rq = _HookQueue()
  try:
    def body():
      kw = dict(n=case['n'], pipe=case['pipe'])
      if case.get('fail_at') is not None:
        kw['fail_at'] = case['fail_at']
      define = L.define_pipeline
      if case.get('exc') is not None:
        kw['exc'] = case['exc']
        define = F.define_pipeline_exc
      for b in ns.orchestrate.sharded_pipelines_as_iterator(
          cl.pool, define, num_shards=case['shards'], result_queue=rq,
          retry_threshold=case['threshold'], **kw):
        batches.append(b)

    # a pool all of whose workers die for good can only hang (outside the hypothesis): do not wait long for it
    limit = TIMEOUT if usable_by_plan(case['plans'], case['workers']) else 1.5
    hang, _, exc = L.run_guarded(body, limit)
    outcome = outcome_of(hang, exc)
    results = L.drain_queue(rq, 2.0 if outcome == 'returned' else 0.15)
    obs = dict(outcome=outcome, batches=sorted(int(b) for b in batches),
               results=[L.canon_agg(r.agg_result) for r in results],
               acquired=cl.acquired(), faults=dict(cl.delivered()), rejoins=cl.rejoins)
    if f21:
      obs['killed'] = info.get('killed')
      obs['kill_at'] = info.get('kill_at')
    if lat is not None:
      obs['delayed'] = len(lat.delayed)
    return obs
  finally:
    if lat is not None:
      lat.close()
    if f21:
      _HookQueue.hook = None
      ns.orchestrate.queue = queue
      ns.courier_worker.queue = queue
    cl.close(hung=False)


def _latency(cl, case):
  """Reply latency of chosen counted calls: `lat` = [[worker, counted call index, ms], ..]."""
  if not case.get('lat'):
    return None
  want = {(cl.names[w], i): ms / 1000.0 for w, i, ms in case['lat'] if w < len(cl.names)}
  return X.ReplyLatency(lambda call: want.get((call.address, call.index)))


def run_gen(case):
  """WorkerPool.iterate over plain generator tasks; the caller's generator_result_queue must receive every task's
  return value exactly once, then the end marker."""
  ns = L.setup()
  cl = L.Cluster(case['workers'], case['plans'])
  q = queue.SimpleQueue()
  T = ns.lazy_fns.trace
  tasks = [T(F.gen_task_exc)(i, t['k'], t['exc']) if 'exc' in t else T(X.gen_task)(i, t['k'], t['rc'])
           for i, t in enumerate(case['tasks'])]
  out = []
  lat = _latency(cl, case)
  try:
    def body():
      for b in cl.pool.iterate(iter(tasks), generator_result_queue=q, retry_threshold=case['threshold'],
                               total_tasks=len(tasks)):
        out.append(b)

    limit = TIMEOUT if usable_by_plan(case['plans'], case['workers']) else 1.5
    hang, _, exc = L.run_guarded(body, limit)
    items = L.drain_queue(q, 0.05)
    stops = [i for i, x in enumerate(items) if isinstance(x, Exception) and ns.iter_utils.is_stop_iteration(x)]
    cut = stops[0] if stops else len(items)
    return dict(outcome=outcome_of(hang, exc), batches=sorted(int(b) for b in out),
                results=sorted(X.canon_value(x) for x in items[:cut]), markers=len(stops),
                after_marker=len(items) - cut - (1 if stops else 0),
                acquired=cl.acquired(), faults=dict(cl.delivered()), rejoins=cl.rejoins)
  finally:
    if lat is not None:
      lat.close()
    cl.close(hung=False)


def run_shutdown(case):
  """Sharded run in which worker X is stopped while its generator is inside a slow next()."""
  import time as real_time
  ns = L.setup()
  cl = L.Cluster(case['workers'], case['plans'])
  rq = queue.SimpleQueue()
  gid = cl.names[0] + '/gates'
  gates = X.new_gates(gid, [0, 1])
  batches = []
  info = dict(shutdown_inits=0, shutdown_next=0, resubmitted=False)
  try:
    def body():
      for b in ns.orchestrate.sharded_pipelines_as_iterator(
          cl.pool, X.gated_pipeline, num_shards=case['shards'], result_queue=rq,
          retry_threshold=case['threshold'], n=case['n'], pipe=case['pipe'], gid=gid):
        batches.append(b)

    def steer():
      # 1. shards 0 and 1 are both inside their slow read (one on each worker)
      for s in (0, 1):
        if not gates['started'][s].wait(5):
          return
      calls = cl.calls()
      x = next((w for w, m, _ in calls if m == 'init_generator'), 0)   # the worker that took the first shard
      info['x'] = x
      mark = len(cl.world.log)
      # 2. X is preempted (stop() = what SIGTERM does) in the middle of the slow read
      cl.servers[x].stop()
      # ... the pool notices the interrupted shard and re-submits it; X is the only idle worker
      t0 = real_time.time()
      while real_time.time() - t0 < 1.0:
        late = [(m, o) for _, a, m, _, o in cl.world.log[mark:] if a == cl.names[x]]
        if any(m == 'init_generator' for m, _ in late):
          info['resubmitted'] = True
          break
        real_time.sleep(0.001)
      # 3. the slow read ends: X goes away for real (and its death becomes known), the other worker goes on
      for s in (0, 1):
        gates['release'][s].set()
      th = cl.servers[x].stop()
      th.join(5)
      late = [(m, o) for _, a, m, _, o in cl.world.log[mark:] if a == cl.names[x]]
      info['shutdown_inits'] = sum(1 for m, o in late if m == 'init_generator' and o in ('ok', 'handler_raised'))
      info['shutdown_next'] = sum(1 for m, o in late if m == 'next_batch_from_generator' and o in ('ok', 'handler_raised'))
      info['x_ok_before'] = sum(1 for _, a, m, _, o in cl.world.log[cl.log0:mark] if a == cl.names[x] and m in L.COUNTED)
      cl.kill(x)

    import threading
    st = threading.Thread(target=steer, daemon=True, name='steer')
    st.start()
    hang, _, exc = L.run_guarded(body, TIMEOUT)
    st.join(6)
    outcome = outcome_of(hang, exc)
    results = L.drain_queue(rq, 2.0 if outcome == 'returned' else 0.15)
    return dict(outcome=outcome, detail=(repr(exc.__cause__ or exc)[:160] if exc is not None else None),
                batches=sorted(int(b) for b in batches),
                results=[L.canon_agg(r.agg_result) for r in results],
                acquired=cl.acquired(), faults=dict(cl.delivered()), rejoins=cl.rejoins, **info)
  finally:
    X.drop_gates(gid)
    cl.close(hung=False)


def run_ac(case):
  ns = L.setup()
  cl = L.Cluster(case['workers'], case['plans'], prefetched=False)
  T = ns.lazy_fns.trace
  slow = case.get('slow', 0)
  bad_fn = (lambda i: F.FailWith(i, case['exc'])) if case.get('exc') is not None else L.FailAt
  tasks = [T(bad_fn(i))(i) if i in case['bad'] else (T(L.slow_double)(i, slow) if slow else T(L._double)(i))
           for i in range(case['tasks'])]
  out = []
  try:
    def body():
      for r in ns.orchestrate.as_completed(cl.pool, iter(tasks), ignore_failures=case.get('ignore', False)):
        out.append(r)

    hang, _, exc = L.run_guarded(body, TIMEOUT)
    return dict(outcome=outcome_of(hang, exc), yielded=sorted(int(x) for x in out), acquired=cl.acquired(),
                faults=dict(cl.delivered()), rejoins=cl.rejoins)
  finally:
    cl.close()


def run_acrejoin(case):
  """as_completed (default: no call timeout) under 'die mid-call, rejoin, then the remaining workers are lost'."""
  ns = L.setup()
  cl = F.RejoinCluster(case['workers'], case['plans'], prefetched=False)
  T = ns.lazy_fns.trace
  tasks = [T(L.slow_double)(i, case.get('slow', 0.01)) for i in range(case['tasks'])]
  out = []
  try:
    def body():
      for r in ns.orchestrate.as_completed(cl.pool, iter(tasks)):
        out.append(r)

    hang, _, exc = L.run_guarded(body, TIMEOUT)
    killed = {int(k): int(v) for k, v in cl.killed_at.items()}
    late_lost = sorted(i for i in killed if i != case['first'])
    return dict(outcome=outcome_of(hang, exc), yielded=sorted(int(x) for x in out), acquired=cl.acquired(),
                faults=dict(cl.delivered()), rejoins=cl.rejoins, killed_at=sorted(killed.items()), late_lost=late_lost,
                alive_at_end=sorted(i for i in range(case['workers']) if not cl.dead[i]))
  finally:
    cl.close()


def run_run(case):
  ns = L.setup()
  cl = L.Cluster(case['workers'], case['plans'], prefetched=False)
  T = ns.lazy_fns.trace
  try:
    task = T(L.FailAt(7))(7) if case['bad'] else T(L._double)(7)
    hang, val, exc = L.run_guarded(lambda: cl.pool.run(task), TIMEOUT)
    return dict(outcome=outcome_of(hang, exc), value=val if exc is None and not hang else None,
                acquired=cl.acquired(), faults=dict(cl.delivered()))
  finally:
    cl.close()


# ------------------------------------------------------------------------------------------ oracle (the statement)

def _timeouts(obs):
  f = obs.get('faults', {})
  return f.get('deadline', 0) + f.get('hung', 0) + f.get('cancelled', 0)


def oracle(case, obs):
  kind = case['kind']
  if obs['acquired']:
    return f"workers still acquired afterwards: {obs['acquired']} (outcome {obs['outcome']})"
  if kind in ('sharded', 'f21', 'shutdown'):
    return oracle_sharded(case, obs)
  if kind == 'gen':
    return oracle_gen(case, obs)
  if kind == 'ac':
    return oracle_ac(case, obs)
  if kind == 'acrejoin':
    return oracle_acrejoin(case, obs)
  if kind == 'run':
    if obs['outcome'] == 'hang':
      return 'WorkerPool.run did not come back'
    if not case['bad'] and obs['outcome'] == 'returned' and obs['value'] != 14:
      return f"run returned {obs['value']!r}, expected 14"
    if case['bad'] and obs['outcome'] == 'returned':
      return 'the task error did not surface from WorkerPool.run'
    return None


def oracle_sharded(case, obs):
  ref_batches, ref_agg = ref(case['n'], case['pipe'])
  out = obs['outcome']
  got = collections.Counter(obs['batches'])
  want = collections.Counter(int(b) for b in ref_batches)
  task_error = case.get('fail_at') is not None
  app_errors = obs['faults'].get('app_error', 0)
  if set(got) - set(want):
    return f'foreign output batches {sorted(set(got) - set(want))}'
  if out == 'hang':
    if usable_by_plan(case['plans'], case['workers']):
      return 'the run hangs although a worker stays usable'
    return None
  if out == 'returned':
    if task_error or app_errors:
      return 'a non-retriable error was delivered but the iteration ended normally (silently shorter result?)'
    if _timeouts(obs) > case['threshold']:
      return f"{_timeouts(obs)} timeouts exceed retry_threshold={case['threshold']} but no TimeoutError was raised"
    missing = want - got
    if missing:
      return f'output batches never delivered: {sorted(missing.elements())}'
    if len(obs['results']) != 1:
      return f"{len(obs['results'])} aggregate results on result_queue, expected exactly one"
    if obs['results'][0] != ref_agg:
      return f"final aggregate {obs['results'][0]} differs from the in-process result {ref_agg}"
    return None
  if obs['results']:
    return f"the run raised {out} but an aggregate was still put on result_queue: {obs['results']}"
  if out == 'TimeoutError':
    if _timeouts(obs) <= case['threshold']:
      return f"TimeoutError although only {_timeouts(obs)} timeouts happened (retry_threshold={case['threshold']})"
    return None
  if out == 'RuntimeError':
    if not (task_error or app_errors):
      return 'RuntimeError although no non-retriable error was injected'
    return None
  return f'unexpected exception kind {out}'


def oracle_gen(case, obs):
  """Every task's result is delivered exactly once - whatever the result is (0, '', [], {}, None are results)."""
  out = obs['outcome']
  want = collections.Counter(X.canon_value(X.RETURNS[t['rc']]) for t in case['tasks'] if 'exc' not in t)
  got = collections.Counter(obs['results'])
  failing = [t['exc'] for t in case['tasks'] if 'exc' in t]
  want_b = collections.Counter(100 * i + j for i, t in enumerate(case['tasks']) for j in range(t['k']))
  got_b = collections.Counter(obs['batches'])
  app_errors = obs['faults'].get('app_error', 0)
  if set(got_b) - set(want_b):
    return f'foreign output records {sorted(set(got_b) - set(want_b))}'
  if got - want:
    return f'task results delivered twice or foreign: {sorted((got - want).elements())}'
  if obs['after_marker']:
    return f"{obs['after_marker']} items on the result queue after its end marker"
  if out == 'hang':
    if usable_by_plan(case['plans'], case['workers']):
      if failing:
        return (f'a task fails with {_tok_text(failing[0])} but the run never ends: the task error does not surface '
                '(the run hangs although a worker stays usable)')
      return 'the run hangs although a worker stays usable'
    return None
  if failing:
    # a task that fails with an application error: the run must END WITH AN ERROR, whatever the value of the error is
    # (an error that IS a TimeoutError is, by the code's own convention, a retriable outcome: it may exhaust the budget)
    if out == 'returned':
      return (f'a task fails with {_tok_text(failing[0])} but the iteration ended normally: the task error was '
              'swallowed (its result is silently missing)')
    if out == 'TimeoutError' and _timeouts(obs) <= case['threshold'] and not any(F.is_retriable_class(t) for t in failing):
      return (f"TimeoutError although only {_timeouts(obs)} timeouts happened (retry_threshold={case['threshold']}) "
              f'and the task error {_tok_text(failing[0])} is not a timeout')
    return None
  if obs['markers'] != 1:
    return f"{obs['markers']} end markers on the result queue, expected exactly one"
  if out == 'returned':
    if app_errors:
      return 'a non-retriable error was delivered but the iteration ended normally'
    if _timeouts(obs) > case['threshold']:
      return f"{_timeouts(obs)} timeouts exceed retry_threshold={case['threshold']} but no TimeoutError was raised"
    if want - got:
      return (f'task results never delivered: {sorted((want - got).elements())} (delivered: {sorted(got.elements())}); '
              'every finished task owes the caller exactly one result')
    if want_b - got_b:
      return f'output records never delivered: {sorted((want_b - got_b).elements())}'
    return None
  if out == 'TimeoutError':
    if _timeouts(obs) <= case['threshold']:
      return f"TimeoutError although only {_timeouts(obs)} timeouts happened (retry_threshold={case['threshold']})"
    return None
  if out == 'RuntimeError':
    if not app_errors:
      return 'RuntimeError although no non-retriable error was injected'
    return None
  return f'unexpected exception kind {out}'


def _tok_text(tok):
  return f'{tok[1]}{_tok_args(tok)}'


def oracle_acrejoin(case, obs):
  """One worker is usable at every moment (the others until the first one is back, the rejoined one from then on):
  every task's result is delivered exactly once, no error, no hang."""
  want = collections.Counter(2 * i for i in range(case['tasks']))
  got = collections.Counter(obs['yielded'])
  out = obs['outcome']
  story = (f"worker {case['first']} died with a call in flight and rejoined ({obs['rejoins']} rejoin(s)), then "
           f"workers {obs['late_lost']} were lost; usable at the end: {obs['alive_at_end']}")
  if got - want:
    return f'results delivered twice or foreign: {sorted((got - want).elements())} ({story})'
  if out == 'hang':
    return f'as_completed did not come back although a worker is usable: {story}; delivered {sorted(got.elements())}'
  if out == 'returned':
    if want - got:
      return f'results silently missing: {sorted((want - got).elements())} ({story})'
    return None
  return f'as_completed raised {out} although a worker was usable at every moment and no task fails ({story})'


def oracle_ac(case, obs):
  want = collections.Counter(2 * i for i in range(case['tasks']) if i not in case['bad'])
  got = collections.Counter(obs['yielded'])
  out = obs['outcome']
  errors = obs['faults'].get('app_error', 0) + len(case['bad'])
  if got - want:
    return f'results delivered twice or foreign: {sorted((got - want).elements())}'
  if out == 'hang':
    return 'as_completed did not come back'
  if out == 'returned':
    missing = want - got
    if case.get('ignore'):
      if sum(missing.values()) > obs['faults'].get('app_error', 0):
        return f'results missing beyond the ignored failures: {sorted(missing.elements())}'
      return None
    if missing:
      return f'results silently missing: {sorted(missing.elements())}'
    if case['bad']:
      return 'a task raised but as_completed ended normally'
    if obs['faults'].get('app_error', 0):
      return 'an application error was delivered but as_completed ended normally'
    return None
  if out == 'TimeoutError':
    # 'All workers timeout': legitimate only when at some moment no worker was usable, i.e. every worker of the
    # pool suffered a death (for good or until its restart)
    plans = list(case['plans']) + [[]] * (case['workers'] - len(case['plans']))
    if not all(('die' in p or 'restart' in p) for p in plans[:case['workers']]):
      return 'TimeoutError although a worker stays usable throughout'
    return None
  if out == 'Exception':     # the StatusNotOk of the failed call, re-raised
    if not errors or case.get('ignore'):
      return 'a task exception surfaced although none was injected (or failures were to be ignored)'
    return None
  if case.get('exc') is not None and case['bad'] and not case.get('ignore'):
    return None              # the task's own (special-valued) exception, or its transport wrapping: an error surfaced
  return f'unexpected exception kind {out}'


# ------------------------------------------------------------------------------------------ model side

def _model_plans(case, obs=None):
  plans = [list(p) for p in case['plans']]
  plans += [[] for _ in range(case['workers'] - len(plans))]
  if case['kind'] == 'f21' and obs and obs.get('killed') is not None:
    w, at = obs['killed'], obs['kill_at']
    plans[w] = ['ok'] * at + ['die']
  return plans


def model_requests_obs(case, obs):
  kind = case['kind']
  if kind == 'acrejoin':
    plans = [[] for _ in range(case['workers'])]
    for w, at in obs.get('killed_at', []):
      plans[w] = ['ok'] * at + (['restart'] if w == case['first'] else ['die'])
    req = dict(model='sched', workers=case['workers'], tasks=case['tasks'], plans=plans, bad=[], ignore_failures=False)
    if case['workers'] <= 2 and case['tasks'] <= 3:
      return [dict(req, op='ac_explore', cap=60000)]
    return [dict(req, op='ac_sample', runs=60, seed=len(str(case)))]
  if kind == 'gen' and any('exc' in t for t in case['tasks']):
    return []       # errors raised by the task itself are not in the model's vocabulary (oracle only)
  if kind in ('sharded', 'f21'):
    nb = L.shard_sizes(case['n'], case['shards'])
    plans = _model_plans(case, obs)
    if case.get('fail_at') is not None:
      return []     # task errors inside the pipeline are not in the model's vocabulary (oracle only)
    small = case['workers'] <= 2 and case['shards'] <= 2 and sum(nb) <= 3
    req = dict(model='sched', workers=case['workers'], nb=nb, threshold=case['threshold'], plans=plans)
    if small:
      return [dict(req, op='it_explore', cap=60000)]
    return [dict(req, op='it_sample', runs=60, seed=len(str(case)))]
  if kind == 'shutdown':
    if obs.get('x') is None:
      return []
    nb = L.shard_sizes(case['n'], case['shards'])
    plans = [[] for _ in range(case['workers'])]
    # X: the calls answered before the stop, then one retriable answer per call it still answered while shutting
    # down (shutdown replies are in the `deadline` class of the environment alphabet: theorem C06_shutdown_*), then gone
    plans[obs['x']] = ['ok'] * obs['x_ok_before'] + ['deadline'] * (obs['shutdown_inits'] + obs['shutdown_next']) + ['die']
    req = dict(model='sched', workers=case['workers'], nb=nb, threshold=case['threshold'], plans=plans)
    if case['shards'] <= 2 and sum(nb) <= 4 and len(plans[obs['x']]) <= 8:
      return [dict(req, op='it_explore', cap=60000)]
    return [dict(req, op='it_sample', runs=80, seed=len(str(case)))]
  if kind == 'gen':
    nb = [t['k'] for t in case['tasks']]
    req = dict(model='sched', workers=case['workers'], nb=nb, threshold=case['threshold'], plans=_model_plans(case),
               strict=False)
    if case['workers'] <= 2 and len(nb) <= 2 and sum(nb) <= 3:
      return [dict(req, op='it_explore', cap=60000)]
    return [dict(req, op='it_sample', runs=60, seed=len(str(case)))]
  if kind == 'ac':
    req = dict(model='sched', workers=case['workers'], tasks=case['tasks'], plans=_model_plans(case),
               bad=case['bad'], ignore_failures=bool(case.get('ignore')))
    small = case['workers'] <= 2 and case['tasks'] <= 3
    if small:
      return [dict(req, op='ac_explore', cap=60000)]
    return [dict(req, op='ac_sample', runs=60, seed=len(str(case)))]
  return []


def model_obs(case, resps):
  if not resps:
    return None
  r = resps[0]
  return dict(terminals=r['terminals'], stuck=r['stuck'], exhaustive=not r.get('sampled') and not r.get('truncated'))


def project(case, obs):
  """The real run's observation in the model's vocabulary."""
  kind = case['kind']
  out = obs['outcome']
  if kind in ('ac', 'acrejoin'):
    f = lambda v: v // 2
    return dict(outcome={'Exception': 'TaskError'}.get(out, out), yielded=sorted(f(v) for v in obs['yielded']))
  if kind == 'gen':
    got = collections.Counter(obs['batches'])
    complete = all(got[100 * i + j] >= 1 for i, t in enumerate(case['tasks']) for j in range(t['k']))
    return dict(outcome=out, values=obs['results'], complete=complete,
                task_values=[X.canon_value(X.RETURNS[t['rc']]) if 'exc' not in t else None for t in case['tasks']])
  nb = L.shard_sizes(case['n'], case['shards'])
  starts = list(itertools.accumulate([0] + nb))
  fn = L.row_fn(case['pipe'])
  sfn = L.seen_fn(case['pipe'])
  ref_batches = [fn(i) for i in range(case['n'])]
  got = collections.Counter(obs['batches'])
  complete = all(got[b] >= 1 for b in ref_batches)
  if obs['results']:
    seen = dict((int(k), int(v)) for k, v in obs['results'][0].get('seen', []))
    result = []
    for s, size in enumerate(nb):
      if size:
        result += [s] * seen.get(sfn(starts[s]), 0)
  else:
    result = 'ValueError'
  return dict(outcome=out, result=result, complete=complete)


def compare(obs, mobs):
  if mobs is None or 'proj' not in obs:
    return None
  p = obs['proj']
  if p['outcome'] == 'hang':
    return None if mobs['stuck'] else 'the real run hangs but no stuck state is reachable in the model'
  for t in mobs['terminals']:
    if obs['kind'] in ('ac', 'acrejoin'):
      if t['outcome'] == p['outcome'] and t['yielded'] == p['yielded']:
        return None
    elif obs['kind'] == 'gen':
      # the model delivers task IDS; the real queue holds their VALUES: the multiset of values must be the one of a
      # terminal's delivered tasks (the model never looks at a value: theorem C06_results_whatever_value)
      vals = sorted(p['task_values'][i] for i in t['result']) if isinstance(t['result'], list) else None
      if t['outcome'] == p['outcome'] and vals == p['values'] and t['complete'] == p['complete']:
        return None
    else:
      res = t['result']
      if isinstance(res, list):
        res = [s for s in res if s in obs['nonempty']]
      if t['outcome'] == p['outcome'] and res == p['result'] and t['complete'] == p['complete']:
        return None
  if not mobs['exhaustive']:
    # sampled / truncated explorations under-approximate the model's behaviours (which worker meets which fault
    # depends on the schedule): a miss is inconclusive, except for a fault-free plan, whose answer is unique
    # (theorem C16_sharded)
    if obs.get('faultfree'):
      return f'model: a fault-free run returns normally with everything delivered once; real run: {p}'
    return None
  return f'real observation {p} is not a terminal observation of the model {mobs["terminals"][:6]}'


def nontrivial(case, obs):
  f = obs.get('faults', {})
  _cover(case, obs)
  return any(f.get(k, 0) for k in ('deadline', 'hung', 'app_error', 'cancelled')) or bool(case.get('bad')) \
      or case.get('fail_at') is not None or case['kind'] in ('f21', 'shutdown') \
      or (case['kind'] == 'acrejoin' and bool(obs.get('rejoins'))) \
      or (case['kind'] == 'gen' and any('exc' in t or t['rc'] in X.FALSY for t in case['tasks']))


# ------------------------------------------------------------------------------------------ promised coverage

_ARMS = collections.Counter()
REQUIRED_ARMS = ['gen:falsy-result-delivered', 'gen:falsy-result-after-retry', 'gen:every-falsy-class',
                 'shutdown:init-answered-while-shutting-down', 'shutdown:next-answered-while-shutting-down',
                 'shutdown:run-completed', 'latency:reply-held-back', 'multi-agg:sharded-returned',
                 'multi-agg:after-retry',
                 'special-error:gen-every-special-value-surfaced', 'special-error:sharded-surfaced',
                 'special-error:ac-surfaced', 'rejoin:died-mid-call-then-rejoined',
                 'rejoin:others-lost-after-rejoin', 'rejoin:all-results-after-others-lost']
_SPECIAL_SEEN = set()
_FALSY_SEEN = set()


def _cover(case, obs):
  """Which promised arms this (case, observation) pair exercised (called in the main process for every case)."""
  kind = case['kind']
  f = obs.get('faults', {})
  retried = any(f.get(k, 0) for k in ('deadline', 'hung', 'cancelled'))
  if kind != 'run' and oracle(case, obs) is not None:
    _ARMS['(oracle failed)'] += 1     # the verdict is a VIOLATION: the coverage promise is not what decides this run
  if kind == 'gen' and obs['outcome'] == 'returned':
    fal = [t['rc'] for t in case['tasks'] if 'exc' not in t and t['rc'] in X.FALSY]
    if fal:
      _ARMS['gen:falsy-result-delivered'] += 1
      _FALSY_SEEN.update(fal)
      if _FALSY_SEEN >= set(X.FALSY):
        _ARMS['gen:every-falsy-class'] += 1
      if retried:
        _ARMS['gen:falsy-result-after-retry'] += 1
  if kind == 'gen' and obs['outcome'] not in ('returned', 'hang'):
    for t in case['tasks']:
      if 'exc' in t:
        _SPECIAL_SEEN.add(str(t['exc']))
    if _SPECIAL_SEEN >= set(str(t) for t in F.specials(REPO)[0]):
      _ARMS['special-error:gen-every-special-value-surfaced'] += 1
  if case.get('exc') is not None and obs['outcome'] not in ('returned', 'hang'):
    _ARMS[f'special-error:{kind}-surfaced'] += 1
  if kind == 'acrejoin':
    if obs.get('rejoins'):
      _ARMS['rejoin:died-mid-call-then-rejoined'] += 1
      if obs.get('late_lost'):
        _ARMS['rejoin:others-lost-after-rejoin'] += 1
        if obs['outcome'] == 'returned' and len(obs['late_lost']) == case['workers'] - 1:
          _ARMS['rejoin:all-results-after-others-lost'] += 1
  if kind == 'shutdown':
    if obs.get('shutdown_inits'):
      _ARMS['shutdown:init-answered-while-shutting-down'] += 1
    if obs.get('shutdown_next'):
      _ARMS['shutdown:next-answered-while-shutting-down'] += 1
    if obs['outcome'] == 'returned':
      _ARMS['shutdown:run-completed'] += 1
  if obs.get('hang_not_reproduced'):
    _ARMS['(hang not reproduced with a 3x longer limit)'] += 1
  if obs.get('delayed'):
    _ARMS['latency:reply-held-back'] += 1
  if kind == 'sharded' and case.get('pipe') in ('p3', 'p4') and obs['outcome'] == 'returned':
    _ARMS['multi-agg:sharded-returned'] += 1
    if retried:
      _ARMS['multi-agg:after-retry'] += 1


def extra(ctx):
  """Coverage promise (else: infrastructure failure, not a verdict)."""
  from harness.core import InfraError
  for k, v in sorted(_ARMS.items()):
    ctx.count('arm', k, v)
  missing = [a for a in REQUIRED_ARMS if not _ARMS.get(a)]
  if missing and not _ARMS.get('(oracle failed)'):
    raise InfraError(f'C06 generator missed promised arms: {missing}')


def finding(case, what):
  return None


def shrink(case, still_fails):
  """Drop faults one at a time, then shrink sizes."""
  cur = dict(case)
  if cur['kind'] == 'acrejoin':
    while cur['tasks'] > 1 and still_fails(dict(cur, tasks=cur['tasks'] - 1)):
      cur = dict(cur, tasks=cur['tasks'] - 1)
    return cur
  changed = True
  while changed:
    changed = False
    for wi, p in enumerate(cur['plans']):
      for i, f in enumerate(p):
        if f != 'ok':
          cand = dict(cur, plans=[list(q) for q in cur['plans']])
          cand['plans'][wi][i] = 'ok'
          cand['plans'] = [_strip(q) for q in cand['plans']]
          if still_fails(cand):
            cur, changed = cand, True
            break
      if changed:
        break
  if cur['kind'] == 'gen':
    i = 0
    while len(cur['tasks']) > 1 and i < len(cur['tasks']):
      cand = dict(cur, tasks=cur['tasks'][:i] + cur['tasks'][i + 1:])
      if still_fails(cand):
        cur = cand
      else:
        i += 1
    for i, t in enumerate(cur['tasks']):
      if t['k'] and 'exc' not in t:
        cand = dict(cur, tasks=[dict(u, k=0) if j == i else u for j, u in enumerate(cur['tasks'])])
        if still_fails(cand):
          cur = cand
  return cur


def neighbours(case, rng):
  if case['kind'] == 'acrejoin':
    for t in range(2, 7):
      yield dict(case, tasks=t)
    return
  for _ in range(40):
    c = dict(case, plans=[list(p) for p in case['plans']])
    w = rng.randrange(case['workers'])
    while len(c['plans']) <= w:
      c['plans'].append([])
    p = c['plans'][w] + ['ok'] * 6
    p[rng.randrange(6)] = rng.choice(FAULTS + ['ok'])
    c['plans'][w] = _strip(p[:6])
    yield c
