"""C06 — distributed runs survive worker timeouts and deaths: no lost or doubled work.

Real code (entered through the public entry points, over harness.fakecourier, real `PrefetchedCourierServer`s
and a real `WorkerPool`):
  kind 'sharded' : orchestrate.sharded_pipelines_as_iterator(pool, define_pipeline, ..., num_shards, result_queue,
                   retry_threshold)  -> WorkerPool.iterate + CourierClient.async_iterate + compute_result thread
  kind 'ac'      : orchestrate.as_completed(pool, tasks, ignore_failures)
  kind 'run'     : WorkerPool.run(task)
  kind 'f21'     : 'sharded' with a directed hand-off: the worker dies between the coroutine's hand-over of the
                   shard's state and the completion of the coroutine (event-loop thread held for 0.25 s there)
Model: lean/MlModel/Model/Sched.lean (`AC`, `IT`), theorems lean/MlModel/Properties/C06.lean.

Case format (JSON): {kind, workers, plans:[[fate,..] per worker], ...}
  sharded/f21: shards, n (elements 0..n-1), pipe (p0|p1|p2), threshold, fail_at? (element whose row function raises)
  ac         : tasks (number), bad:[task ids whose evaluation raises], ignore (ignore_failures)
  run        : bad (bool)
Fates per counted call index: ok | deadline | deadline_after | die | restart | app_error (see harness/lib_sched.py).

Correspondence: the Lean driver explores ALL schedules of the model for the same fault plan (exhaustively for
small configurations, by sampling for larger ones) and the real run's observation must be one of the model's
terminal observations (a hang must be a reachable stuck state).  The oracle is the English statement, evaluated
against the in-process run of the same pipeline / direct evaluation of the same tasks.
"""
import collections
import itertools
import queue

from harness import lib_sched as L
from harness.core import err_kind

PID = 'C06'
TITLE = 'Distributed runs survive worker timeouts and deaths: no lost or doubled work'
LEAN_MODULES = ['MlModel.Properties.C06', 'MlModel.Witness.C06']
TRUSTED = [
    'the courier transport is harness/fakecourier (in-process): at-most-once handler execution, deadline errors carry '
    'code 4, an unreachable server completes no call, arguments/results are passed by reference (the repo pickles them)',
    'worker deaths are announced to the master (WorkerRegistry.unregister, as a stopping CourierServer does); '
    'detection by heartbeat staleness (180 s real time) is not exercised',
    'the asyncio event loop, thread scheduling and RPC timing are not modelled: one model step = one main-loop '
    'examination of one task / one coroutine step; the tie is "observation of the real run is a terminal observation '
    'of the model under some schedule"',
]
ASSUMPTIONS = [
    'a restarted worker is seen alive again only after the master has dealt with the call that hung on it',
    'max_parallelism = 1, iterate_batch_size = 1 (defaults); one pool per run',
]
RULE = ('sharded runs: every single-fault plan (worker x call index 0..5 x {deadline, deadline_after, die, restart, app_error}) '
        'for small configurations (1-2 workers, 1-2 shards), then random plans with 1-4 faults for 1-3 workers / 1-4 shards, '
        'three pipelines, thresholds from 0 to ample, task errors inside the pipeline (~10 %); as_completed: the same over '
        '1-3 workers / 1-4 tasks incl. raising tasks and ignore_failures; WorkerPool.run; the directed F21 hand-off. '
        'non-trivial = at least one fault was actually delivered by the transport (or a task error was reached); '
        'distinct = distinct canonical case JSON')

FAULTS = ['deadline', 'deadline_after', 'die', 'restart', 'app_error']
TIMEOUT = 8.0
_REF = {}


def ref(n, pipe):
  k = (n, pipe)
  if k not in _REF:
    _REF[k] = L.in_process(n, pipe)
  return _REF[k]


# ------------------------------------------------------------------------------------------ generation

def usable_by_plan(plans, workers):
  """At least one worker never dies for good according to the plan."""
  plans = list(plans) + [[]] * (workers - len(plans))
  return any('die' not in p for p in plans[:workers])


def gen_cases(ctx):
  """Wrapper that records what the generated cases cover (evidence histograms)."""
  for c in _gen_cases(ctx):
    ctx.count('kind', c['kind'])
    ctx.count('workers', c['workers'])
    if 'shards' in c:
      ctx.count('shards', c['shards'])
    if 'tasks' in c:
      ctx.count('tasks', c['tasks'])
    if 'threshold' in c:
      ctx.count('threshold', c['threshold'])
    nf = 0
    for p in c['plans']:
      for i, f in enumerate(p):
        if f != 'ok':
          nf += 1
          ctx.count('fate', f)
          ctx.count('fault_call_index', i)
    ctx.count('faults_per_case', nf)
    if c.get('fail_at') is not None or c.get('bad'):
      ctx.count('task_error', 'yes')
    yield c


def _gen_cases(ctx):
  rng = ctx.rng
  quick = ctx.quick
  for c in ctx.corpus():
    yield c
  # --- sharded: single-fault exhaustive for small configurations
  small = [(1, 1, 2), (1, 2, 3), (2, 1, 2), (2, 2, 3)] if quick else \
      [(1, 1, 2), (1, 2, 3), (1, 2, 4), (2, 1, 2), (2, 2, 3), (2, 2, 4), (2, 3, 4), (3, 2, 3)]
  for (w, s, n) in small:
    yield dict(kind='sharded', workers=w, shards=s, n=n, pipe='p0', plans=[[] for _ in range(w)], threshold=3)
    for wi in range(w):
      for idx in range(6):
        for f in FAULTS:
          if f == 'die' and w == 1 and idx > 1:
            continue   # a pool whose only worker dies for good can only hang (outside the hypothesis): keep two
          plans = [[] for _ in range(w)]
          plans[wi] = ['ok'] * idx + [f]
          yield dict(kind='sharded', workers=w, shards=s, n=n, pipe=('p0', 'p1', 'p2')[(idx + wi) % 3],
                     plans=plans, threshold=(0 if (idx + len(f)) % 4 == 0 else 3))
  # --- sharded: every pair of faults (thorough) for one small configuration
  if not quick:
    pos = [(wi, idx) for wi in range(2) for idx in range(6)]
    for a, b in itertools.combinations(pos, 2):
      for fa in ('deadline', 'restart', 'app_error'):
        for fb in ('deadline', 'restart', 'die'):
          plans = [['ok'] * 6, ['ok'] * 6]
          plans[a[0]][a[1]] = fa
          plans[b[0]][b[1]] = fb
          yield dict(kind='sharded', workers=2, shards=2, n=3, pipe='p0', plans=[_strip(p) for p in plans],
                     threshold=(1 if (a[1] + b[1]) % 2 else 3))
  # --- sharded: random plans
  for _ in range(250 if quick else 8000):
    w = rng.choice([1, 2, 2, 3, 3])
    s = rng.choice([1, 2, 2, 3, 4])
    n = rng.randrange(max(1, s - 1), s + 4)
    plans = [['ok'] * 6 for _ in range(w)]
    for _ in range(rng.choice([1, 1, 2, 2, 3, 4])):
      plans[rng.randrange(w)][rng.randrange(6)] = rng.choice(FAULTS + ['deadline', 'restart'])
    if not usable_by_plan(plans, w) and rng.random() < 0.9:
      plans[rng.randrange(w)] = [('restart' if f == 'die' else f) for f in plans[0]]
    plans = [_strip(p) for p in plans]
    c = dict(kind='sharded', workers=w, shards=s, n=n, pipe=rng.choice(['p0', 'p1', 'p2']), plans=plans,
             threshold=rng.choice([0, 1, 2, 3, 50]))
    if rng.random() < 0.1:
      c['fail_at'] = rng.randrange(n)
    yield c
  # --- as_completed
  for w in (1, 2, 3):
    for t in (1, 2, 3, 4):
      yield dict(kind='ac', workers=w, tasks=t, plans=[[] for _ in range(w)], bad=[], ignore=False)
  for (w, t) in ([(1, 2), (2, 2), (2, 3)] if quick else [(1, 2), (2, 2), (2, 3), (3, 3), (3, 4)]):
    for wi in range(w):
      for idx in range(4):
        for f in ('deadline', 'die', 'restart', 'app_error'):
          if f == 'die' and w == 1:
            continue
          plans = [[] for _ in range(w)]
          plans[wi] = ['ok'] * idx + [f]
          yield dict(kind='ac', workers=w, tasks=t, plans=plans, bad=[], ignore=False)
  for _ in range(80 if quick else 5000):
    w = rng.choice([1, 2, 3])
    t = rng.randrange(1, 5)
    plans = [['ok'] * 5 for _ in range(w)]
    for _ in range(rng.choice([0, 1, 1, 2, 3])):
      plans[rng.randrange(w)][rng.randrange(5)] = rng.choice(['deadline', 'die', 'restart', 'app_error', 'deadline'])
    plans = [_strip(p) for p in plans]
    bad = [i for i in range(t) if rng.random() < 0.12]
    yield dict(kind='ac', workers=w, tasks=t, plans=plans, bad=bad, ignore=rng.random() < 0.25)
  # --- WorkerPool.run
  for w in (1, 2):
    for bad in (False, True):
      yield dict(kind='run', workers=w, plans=[[] for _ in range(w)], bad=bad)
  yield dict(kind='run', workers=2, plans=[['deadline'], ['deadline']], bad=False)
  # --- directed hand-off (F21)
  for (s, n) in ([(1, 2), (2, 3)] if quick else [(1, 1), (1, 2), (1, 3), (2, 3), (2, 4), (3, 5)]):
    for pipe in ('p0', 'p1'):
      yield dict(kind='f21', workers=2, shards=s, n=n, pipe=pipe, plans=[[], []], threshold=5)


def _strip(p):
  p = list(p)
  while p and p[-1] == 'ok':
    p.pop()
  return p


# ------------------------------------------------------------------------------------------ real code

def run_impl(case):
  kind = case['kind']
  if kind in ('sharded', 'f21'):
    obs = run_sharded(case)
    obs['nonempty'] = [s for s, size in enumerate(L.shard_sizes(case['n'], case['shards'])) if size]
  elif kind == 'ac':
    obs = run_ac(case)
  elif kind == 'run':
    return run_run(case)
  else:
    raise ValueError(kind)
  obs['kind'] = kind
  obs['faultfree'] = all(f == 'ok' for p in case['plans'] for f in p) and not case.get('bad') \
      and case.get('fail_at') is None and kind != 'f21'
  obs['proj'] = project(case, obs)     # the observation in the model's vocabulary (used by `compare`)
  return obs


def outcome_of(hang, exc):
  if hang:
    return 'hang'
  if exc is None:
    return 'returned'
  k = err_kind(exc)
  return k


class _HookQueue:
  """queue.SimpleQueue replacement handed to the repo modules for the F21 hand-off."""
  hook = None

  def __init__(self):
    self._q = queue.SimpleQueue()

  def put(self, x):
    self._q.put(x)
    h = _HookQueue.hook
    if h is not None:
      h(x)

  def get(self, *a, **k):
    return self._q.get(*a, **k)

  def empty(self):
    return self._q.empty()


def _queue_shim():
  import types
  shim = types.ModuleType('queue_shim')
  for k in dir(queue):
    if not k.startswith('__'):
      setattr(shim, k, getattr(queue, k))
  shim.SimpleQueue = _HookQueue
  return shim


def run_sharded(case):
  ns = L.setup()
  cl = L.Cluster(case['workers'], case['plans'])
  rq = queue.SimpleQueue()
  batches = []
  info = {}
  f21 = case['kind'] == 'f21'
  if f21:
    import threading
    import time as real_time
    body_thread = {}

    def hook(x):
      # first hand-over of a shard state made by the event-loop thread (not by the bookkeeping loop)
      if isinstance(x, ns.transform.AggregateResult) and 'killed' not in info \
          and threading.current_thread().name != 'case-body':
        calls = cl.calls()
        w = calls[-1][0]
        info['killed'] = w
        info['kill_at'] = sum(1 for c in calls if c[0] == w)
        cl.kill(w)                 # the worker dies right after its last answer ...
        real_time.sleep(0.25)      # ... and the event-loop thread is descheduled before the coroutine completes

    _HookQueue.hook = hook
    shim = _queue_shim()
    ns.orchestrate.queue = shim
    ns.courier_worker.queue = shim
    rq = _HookQueue()
  try:
    def body():
      kw = dict(n=case['n'], pipe=case['pipe'])
      if case.get('fail_at') is not None:
        kw['fail_at'] = case['fail_at']
      for b in ns.orchestrate.sharded_pipelines_as_iterator(
          cl.pool, L.define_pipeline, num_shards=case['shards'], result_queue=rq,
          retry_threshold=case['threshold'], **kw):
        batches.append(b)

    # a pool all of whose workers die for good can only hang (outside the hypothesis): do not wait long for it
    limit = TIMEOUT if usable_by_plan(case['plans'], case['workers']) else 1.5
    hang, _, exc = L.run_guarded(body, limit)
    outcome = outcome_of(hang, exc)
    results = L.drain_queue(rq, 2.0 if outcome == 'returned' else 0.15)
    obs = dict(outcome=outcome, batches=sorted(int(b) for b in batches),
               results=[L.canon_agg(r.agg_result) for r in results],
               acquired=cl.acquired(), faults=dict(cl.delivered()), rejoins=cl.rejoins)
    if f21:
      obs['killed'] = info.get('killed')
      obs['kill_at'] = info.get('kill_at')
    return obs
  finally:
    if f21:
      _HookQueue.hook = None
      ns.orchestrate.queue = queue
      ns.courier_worker.queue = queue
    cl.close(hung=False)


def run_ac(case):
  ns = L.setup()
  cl = L.Cluster(case['workers'], case['plans'], prefetched=False)
  T = ns.lazy_fns.trace
  slow = case.get('slow', 0)
  tasks = [T(L.FailAt(i))(i) if i in case['bad'] else (T(L.slow_double)(i, slow) if slow else T(L._double)(i))
           for i in range(case['tasks'])]
  out = []
  try:
    def body():
      for r in ns.orchestrate.as_completed(cl.pool, iter(tasks), ignore_failures=case.get('ignore', False)):
        out.append(r)

    hang, _, exc = L.run_guarded(body, TIMEOUT)
    return dict(outcome=outcome_of(hang, exc), yielded=sorted(int(x) for x in out), acquired=cl.acquired(),
                faults=dict(cl.delivered()), rejoins=cl.rejoins)
  finally:
    cl.close()


def run_run(case):
  ns = L.setup()
  cl = L.Cluster(case['workers'], case['plans'], prefetched=False)
  T = ns.lazy_fns.trace
  try:
    task = T(L.FailAt(7))(7) if case['bad'] else T(L._double)(7)
    hang, val, exc = L.run_guarded(lambda: cl.pool.run(task), TIMEOUT)
    return dict(outcome=outcome_of(hang, exc), value=val if exc is None and not hang else None,
                acquired=cl.acquired(), faults=dict(cl.delivered()))
  finally:
    cl.close()


# ------------------------------------------------------------------------------------------ oracle (the statement)

def _timeouts(obs):
  f = obs.get('faults', {})
  return f.get('deadline', 0) + f.get('hung', 0) + f.get('cancelled', 0)


def oracle(case, obs):
  kind = case['kind']
  if obs['acquired']:
    return f"workers still acquired afterwards: {obs['acquired']} (outcome {obs['outcome']})"
  if kind in ('sharded', 'f21'):
    return oracle_sharded(case, obs)
  if kind == 'ac':
    return oracle_ac(case, obs)
  if kind == 'run':
    if obs['outcome'] == 'hang':
      return 'WorkerPool.run did not come back'
    if not case['bad'] and obs['outcome'] == 'returned' and obs['value'] != 14:
      return f"run returned {obs['value']!r}, expected 14"
    if case['bad'] and obs['outcome'] == 'returned':
      return 'the task error did not surface from WorkerPool.run'
    return None


def oracle_sharded(case, obs):
  ref_batches, ref_agg = ref(case['n'], case['pipe'])
  out = obs['outcome']
  got = collections.Counter(obs['batches'])
  want = collections.Counter(int(b) for b in ref_batches)
  task_error = case.get('fail_at') is not None
  app_errors = obs['faults'].get('app_error', 0)
  if set(got) - set(want):
    return f'foreign output batches {sorted(set(got) - set(want))}'
  if out == 'hang':
    if usable_by_plan(case['plans'], case['workers']):
      return 'the run hangs although a worker stays usable'
    return None
  if out == 'returned':
    if task_error or app_errors:
      return 'a non-retriable error was delivered but the iteration ended normally (silently shorter result?)'
    if _timeouts(obs) > case['threshold']:
      return f"{_timeouts(obs)} timeouts exceed retry_threshold={case['threshold']} but no TimeoutError was raised"
    missing = want - got
    if missing:
      return f'output batches never delivered: {sorted(missing.elements())}'
    if len(obs['results']) != 1:
      return f"{len(obs['results'])} aggregate results on result_queue, expected exactly one"
    if obs['results'][0] != ref_agg:
      return f"final aggregate {obs['results'][0]} differs from the in-process result {ref_agg}"
    return None
  if obs['results']:
    return f"the run raised {out} but an aggregate was still put on result_queue: {obs['results']}"
  if out == 'TimeoutError':
    if _timeouts(obs) <= case['threshold']:
      return f"TimeoutError although only {_timeouts(obs)} timeouts happened (retry_threshold={case['threshold']})"
    return None
  if out == 'RuntimeError':
    if not (task_error or app_errors):
      return 'RuntimeError although no non-retriable error was injected'
    return None
  return f'unexpected exception kind {out}'


def oracle_ac(case, obs):
  want = collections.Counter(2 * i for i in range(case['tasks']) if i not in case['bad'])
  got = collections.Counter(obs['yielded'])
  out = obs['outcome']
  errors = obs['faults'].get('app_error', 0) + len(case['bad'])
  if got - want:
    return f'results delivered twice or foreign: {sorted((got - want).elements())}'
  if out == 'hang':
    return 'as_completed did not come back'
  if out == 'returned':
    missing = want - got
    if case.get('ignore'):
      if sum(missing.values()) > obs['faults'].get('app_error', 0):
        return f'results missing beyond the ignored failures: {sorted(missing.elements())}'
      return None
    if missing:
      return f'results silently missing: {sorted(missing.elements())}'
    if case['bad']:
      return 'a task raised but as_completed ended normally'
    if obs['faults'].get('app_error', 0):
      return 'an application error was delivered but as_completed ended normally'
    return None
  if out == 'TimeoutError':
    # 'All workers timeout': legitimate only when at some moment no worker was usable, i.e. every worker of the
    # pool suffered a death (for good or until its restart)
    plans = list(case['plans']) + [[]] * (case['workers'] - len(case['plans']))
    if not all(('die' in p or 'restart' in p) for p in plans[:case['workers']]):
      return 'TimeoutError although a worker stays usable throughout'
    return None
  if out == 'Exception':     # the StatusNotOk of the failed call, re-raised
    if not errors or case.get('ignore'):
      return 'a task exception surfaced although none was injected (or failures were to be ignored)'
    return None
  return f'unexpected exception kind {out}'


# ------------------------------------------------------------------------------------------ model side

def _model_plans(case, obs=None):
  plans = [list(p) for p in case['plans']]
  plans += [[] for _ in range(case['workers'] - len(plans))]
  if case['kind'] == 'f21' and obs and obs.get('killed') is not None:
    w, at = obs['killed'], obs['kill_at']
    plans[w] = ['ok'] * at + ['die']
  return plans


def model_requests_obs(case, obs):
  kind = case['kind']
  if kind in ('sharded', 'f21'):
    nb = L.shard_sizes(case['n'], case['shards'])
    plans = _model_plans(case, obs)
    if case.get('fail_at') is not None:
      return []     # task errors inside the pipeline are not in the model's vocabulary (oracle only)
    small = case['workers'] <= 2 and case['shards'] <= 2 and sum(nb) <= 3
    req = dict(model='sched', workers=case['workers'], nb=nb, threshold=case['threshold'], plans=plans)
    if small:
      return [dict(req, op='it_explore', cap=60000)]
    return [dict(req, op='it_sample', runs=60, seed=len(str(case)))]
  if kind == 'ac':
    req = dict(model='sched', workers=case['workers'], tasks=case['tasks'], plans=_model_plans(case),
               bad=case['bad'], ignore_failures=bool(case.get('ignore')))
    small = case['workers'] <= 2 and case['tasks'] <= 3
    if small:
      return [dict(req, op='ac_explore', cap=60000)]
    return [dict(req, op='ac_sample', runs=60, seed=len(str(case)))]
  return []


def model_obs(case, resps):
  if not resps:
    return None
  r = resps[0]
  return dict(terminals=r['terminals'], stuck=r['stuck'], exhaustive=not r.get('sampled') and not r.get('truncated'))


def project(case, obs):
  """The real run's observation in the model's vocabulary."""
  kind = case['kind']
  out = obs['outcome']
  if kind == 'ac':
    f = lambda v: v // 2
    return dict(outcome={'Exception': 'TaskError'}.get(out, out), yielded=sorted(f(v) for v in obs['yielded']))
  nb = L.shard_sizes(case['n'], case['shards'])
  starts = list(itertools.accumulate([0] + nb))
  fn = L.row_fn(case['pipe'])
  ref_batches = [fn(i) for i in range(case['n'])]
  got = collections.Counter(obs['batches'])
  complete = all(got[b] >= 1 for b in ref_batches)
  if obs['results']:
    seen = dict((int(k), int(v)) for k, v in obs['results'][0].get('seen', []))
    result = []
    for s, size in enumerate(nb):
      if size:
        result += [s] * seen.get(fn(starts[s]), 0)
  else:
    result = 'ValueError'
  return dict(outcome=out, result=result, complete=complete)


def compare(obs, mobs):
  if mobs is None or 'proj' not in obs:
    return None
  p = obs['proj']
  if p['outcome'] == 'hang':
    return None if mobs['stuck'] else 'the real run hangs but no stuck state is reachable in the model'
  for t in mobs['terminals']:
    if obs['kind'] == 'ac':
      if t['outcome'] == p['outcome'] and t['yielded'] == p['yielded']:
        return None
    else:
      res = t['result']
      if isinstance(res, list):
        res = [s for s in res if s in obs['nonempty']]
      if t['outcome'] == p['outcome'] and res == p['result'] and t['complete'] == p['complete']:
        return None
  if not mobs['exhaustive']:
    # sampled / truncated explorations under-approximate the model's behaviours (which worker meets which fault
    # depends on the schedule): a miss is inconclusive, except for a fault-free plan, whose answer is unique
    # (theorem C16_sharded)
    if obs.get('faultfree'):
      return f'model: a fault-free run returns normally with everything delivered once; real run: {p}'
    return None
  return f'real observation {p} is not a terminal observation of the model {mobs["terminals"][:6]}'


def nontrivial(case, obs):
  f = obs.get('faults', {})
  return any(f.get(k, 0) for k in ('deadline', 'hung', 'app_error', 'cancelled')) or bool(case.get('bad')) \
      or case.get('fail_at') is not None or case['kind'] == 'f21'


def finding(case, what):
  return None


def shrink(case, still_fails):
  """Drop faults one at a time, then shrink sizes."""
  cur = dict(case)
  changed = True
  while changed:
    changed = False
    for wi, p in enumerate(cur['plans']):
      for i, f in enumerate(p):
        if f != 'ok':
          cand = dict(cur, plans=[list(q) for q in cur['plans']])
          cand['plans'][wi][i] = 'ok'
          cand['plans'] = [_strip(q) for q in cand['plans']]
          if still_fails(cand):
            cur, changed = cand, True
            break
      if changed:
        break
  return cur


def neighbours(case, rng):
  for _ in range(40):
    c = dict(case, plans=[list(p) for p in case['plans']])
    w = rng.randrange(case['workers'])
    while len(c['plans']) <= w:
      c['plans'].append([])
    p = c['plans'][w] + ['ok'] * 6
    p[rng.randrange(6)] = rng.choice(FAULTS + ['ok'])
    c['plans'][w] = _strip(p[:6])
    yield c
