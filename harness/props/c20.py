"""C20 — worker liveness and ownership bookkeeping stays consistent.

Real code (run over harness.fakecourier, virtual clock):
  family 'live': courier_utils.worker_registry() (register / refresh / unregister / get),
                 CourierClient.is_alive / call / send_heartbeat / shutdown, and the server-side
                 CourierServer._heartbeat handler reached through delivered `heartbeat` calls;
                 the transport is in *manual* mode, so replies can be delivered late, out of order,
                 failed, or never.
  family 'own' : courier_worker.WorkerPool (several pools over shared Worker singletons):
                 _acquire_all, release_all, next_idle_worker, Worker.release(pool), run, call_and_wait,
                 orchestrate.as_completed (exhausted / raising task / closed early), with workers losing
                 capacity (a hung call) and dying / being pronounced dead (before, during — by the task itself —
                 and after acquisition) as the capacity/liveness oracle.
  family 'sched': the same real Worker / WorkerPool / WorkerRegistry objects (and the real CourierServer._heartbeat
                 handler) with several pool threads and environment threads (die / revive / heartbeat sends / late or
                 failed deliveries / clock ticks / the real CourierClient.shutdown of a worker's client) under the DETERMINISTIC SCHEDULER (harness/sched/shim.py, machinery in
                 harness/lib_owner.py): pre-emption at every operation of `_states_lock`, `_lock` (incl. `locked()`),
                 `WorkerRegistry._lock` and at every read / write of `Worker._worker_pool`; every executed operation
                 label, the enabled thread set before every step, the registry contents before every step and all
                 outcomes are compared with the product LTS Model/OwnerEnv.lean (schedule replay), for seeded-random and
                 PCT schedules, plus a model-guided stage that reaches every program point of the LTS.
  family 'schedrun': WorkerPool.run / call_and_wait on a real thread under the same scheduler against other pools' threads
                 and environment threads; the composite operations' clock-driven spin loops are not in the LTS, so this
                 family is decided by the independent oracle alone (single owner, no stealing, dead stays dead, monotone,
                 nothing acquired when the operation returns or raises).
  family 'schedc' (round 6): WorkerPool.run / call_and_wait STEP BY STEP under the scheduler over the manual transport, against
                 other pools' threads and environment threads: besides the lock / attribute operations above, every clock read of
                 courier_worker.py, every time.sleep, futures.wait([state]) and the done() polls of courier_worker.wait are yield
                 points; the composite operations are programs of the product LTS (controller `Ctl` of Model/OwnerEnv.lean: the
                 spin loops are loops whose exits are clock / environment choices), compared step by step like family 'sched'
                 (labels, enabled sets, registry, results, final state); max_parallelism in {1, 2}.
  family 'scheda' (round 6; round 11: step by step against the Lean PROGRAM): orchestrate.as_completed under the scheduler.  Yield points: a
                 marker before every pool-level call made by the body of as_completed (pool.workers, next_idle_worker, release_all(unused),
                 acquired_workers, task.is_alive, worker.submit, the final release_all()) and every task.done() poll (harness/lib_owner.py:
                 install_as_completed_probes; the callees run unchanged).  The model side executes the program `asCompleted` of the product LTS
                 (controller Ctl.ac / acPlan of Model/OwnerEnv.lean: task iterator, retry stack, running tasks, preferred / reserved sets, submit
                 loop, three-way completion handling, release_all(unused), finally); from the real run it receives ONLY the environment's
                 choices (the worker order handed to next_idle_worker = set iteration order + random.shuffle, the set handed to
                 release_all = random.sample + set iteration order), which the controller validates against the Python semantics; which call
                 comes next is decided by the model and compared step by step (labels, enabled sets, registry, how the generator ended, final
                 state).  Cases: 0-4 tasks (ok / raising), all results / k then close / closed unstarted, ignore_failures, competing pools, late /
                 failed replies, and (rand_scheda_faults) workers dying / going stale / coming back in the middle of the run.
Model: lean/MlModel/Model/Registry.lean, Owner.lean, OwnerEnv.lean; theorems: lean/MlModel/Properties/C20.lean.
`extra`: exhaustive exploration of all interleavings of small configurations of the Owner LTS in the Lean
driver (a *test* of the model / theorem hypotheses), the racy orders of F13 / F14 executed by hand on the
real objects, and a real-thread stress run with the oracle only.
"""
import copy
import itertools

from harness import lib_owner as lo
from harness.core import err_kind

PID = 'C20'
TITLE = 'Worker liveness and ownership bookkeeping stays consistent'
LEAN_MODULES = ['MlModel.Properties.C20', 'MlModel.Witness.C20']
TRUSTED = [
    'harness/fakecourier: in-process stand-in for the courier RPC package (a call runs its handler at most once; '
    'failed calls raise an error whose .code is 4 for deadlines; an unreachable server completes no call); '
    'harness VirtualClock replaces the `time` attribute of the repo courier modules',
    'modelled, not verified: threading.Lock / RLock (mutual exclusion, non-blocking acquire), '
    'concurrent.futures.Future (done / exception / cancel), CPython atomicity of single attribute reads and writes',
    'scheduler shim (harness/sched/shim.py) implements CPython Lock / RLock semantics; family sched: one atomic step = one '
    'operation of _states_lock / _lock (acquire, release, locked()) / WorkerRegistry._lock, or one read / write of '
    'Worker._worker_pool (data descriptor installed on the class by the harness), the thread-local code after it (dictionary '
    'access under the registry lock, futures done()/exception(), clock reads, fake-transport submit) is fused into the step, '
    'in the model and under the shim alike',
    'family sched: the servers are fake-transport endpoints whose heartbeat handler is the real CourierServer._heartbeat '
    'function applied to a stand-in object; max_parallelism = 1',
    'family schedc (run / call_and_wait step by step, harness/lib_owner.py): additional yield points = every time.time() of '
    'courier_worker.py, every time.sleep (pure yield: the virtual clock moves only by the environment tick), futures.wait([state]) '
    'and the done() polls of courier_worker.wait as BLOCKING yields (the stutter-free equivalent of the two waits); time.time() of '
    'courier_utils.py is fused into the step; max_parallelism in {1, 2}; the base script of pieces is a prophecy discovered by the '
    'driver and re-checked on the pure xstep? in a second pass',
    'family scheda (round 11): the control flow of orchestrate.as_completed IS the Lean program OwnerEnv.acPlan; taken from the real run and '
    'validated by the model, not predicted: the iteration order of Python sets, random.shuffle, random.sample (the worker lists passed to '
    'next_idle_worker and release_all); class-level probes active only for calls whose caller frame is as_completed log the call and yield a '
    'marker, task.done() polled from that frame is a yield point; orchestrate.time.sleep(0.0) is fused; the thread-local code after the last '
    'step of task.is_alive (set_exception on the future) is fused into that step, in the model alike (afterAliveAC)',
]
ASSUMPTIONS = [
    'times are integral ticks of a virtual clock; thresholds in {100, 180, 400}',
    'every pool-level operation is given worker lists inside the pool; blocking acquire_by (no caller) not modelled',
    'released-on-exit is stated for a pool with one acquiring thread (other threads may release / call / poll for the same '
    'pool; other pools arbitrary)',
]
RULE = ('live: small-exhaustive event sequences (length<=3 quick / <=4 thorough) over a 15-letter alphabet on 2 addresses '
        'and 2 clients, then random sequences of length<=25, clock start 50 or 1000, plus (server life-cycle) every sequence of '
        '<=3 (thorough 4) restart/kill/shutdown/deliver/call/alive events after a delivered shutdown; own: random sequences (<=14 ops) of '
        '_acquire_all/release_all/next_idle_worker/release/run/call_and_wait/as_completed/hang/unhang/die/revive (tasks that '
        'raise and tasks that pronounce a worker dead while they run) from 2-3 pools over '
        '2-3 shared workers, plus all ordered pairs of a small op alphabet; non-trivial = live: some is_alive observed after '
        'an unregister or a late delivery / own: some worker owned by a pool other than the acting one at some op; '
        'sched: 1-3 workers, 2-3 pools, 2-3 pool threads (1-3 operations each out of _acquire_all / release_all / '
        'next_idle_worker / Worker.release / idle_workers / Worker.call) + 0-2 environment threads (die / revive / send heartbeat / '
        'deliver (late, failed) / tick), schedule chosen on the REAL code by a seeded uniform-random or PCT chooser and replayed '
        'choice by choice on the Lean LTS; non-trivial = at least 8 thread switches; model-guided stage: per configuration a BFS of '
        'the LTS yields, per program point, a shortest schedule ending there, replayed on the real code; '
        'schedrun (oracle only): one pool thread running WorkerPool.run / call_and_wait (tasks that succeed or raise) against the '
        'pool and environment threads of a sched case, inline transport, spin loops advance the virtual clock by 30-100 s; '
        'schedc: thread 0 runs 1-2 of run / call_and_wait (task ok / raises; optionally an _acquire_all before and a next_idle_worker after), '
        '0-2 other pool threads (other pools: sched operations; same pool: release_all / call / idle_workers), 1-3 environment threads '
        '(die / revive / send / deliver late or failed / tick up to 200 s, so that the 180 s deadlines and the heartbeat threshold are crossed), '
        '1-3 workers with max_parallelism 1-2, schedule as in sched, cut after 1200 steps (spin loops); '
        'scheda: thread 0 consumes as_completed over 0-4 tasks (ok / raising; all results, or k then close, or closed unstarted; '
        'ignore_failures on / off), other pools compete, the same pool may be driven by a non-acquiring second thread, environment as in '
        'schedc with mostly short ticks and a transport thread of 40-120 deliveries; plus 160 (thorough 4000) cases with 1-2 workers and a fault '
        '(die / heartbeat going stale, optionally revive) placed in the middle of the run by idling the environment thread first; '
        'distinct = distinct canonical case JSON')

THRS = [100, 180, 400]


# ----------------------------------------------------------------------------- generation

def live_alphabet():
  return [
      dict(op='reg', a=0, t=990), dict(op='reg', a=0, t=400), dict(op='refresh', a=0, t=995),
      dict(op='refresh', a=0, t=100), dict(op='reg', a=0, t=820), dict(op='unreg', a=0), dict(op='tick', d=150),
      dict(op='alive', i=0), dict(op='call', i=0), dict(op='send', i=1, a=0, alive=True),
      dict(op='send', i=1, a=0, alive=False), dict(op='deliver', k=0, fail=False),
      dict(op='deliver', k=1, fail=True), dict(op='kill', a=0), dict(op='shutdown', i=0),
  ]


def live_case(now, events, thrs=(180, 100)):
  return dict(fam='live', now=now, addrs=[0, 1], clients=[[0, thrs[0]], [1, thrs[1]]], events=events)


def rand_live(rng):
  now = rng.choice([50, 1000, 1000, 100000])
  n = rng.randrange(1, 26)
  evs = []
  for _ in range(n):
    r = rng.random()
    a = rng.randrange(2)
    i = rng.randrange(2)
    if r < 0.10:
      evs.append(dict(op='reg', a=a, t=max(0, rng.choice([0, 5, now - 500, now - 10, now, now + 100, now + 1000]))))
    elif r < 0.20:
      evs.append(dict(op='refresh', a=a, t=max(0, rng.choice([0, 7, now - 300, now - 1, now + 50, now + 700]))))
    elif r < 0.27:
      evs.append(dict(op='unreg', a=a))
    elif r < 0.37:
      evs.append(dict(op='tick', d=rng.choice([0, 1, 20, 31, 99, 100, 179, 180, 181, 400])))
    elif r < 0.57:
      evs.append(dict(op='alive', i=i))
    elif r < 0.64:
      evs.append(dict(op='call', i=i))
    elif r < 0.74:
      evs.append(dict(op='send', i=i, a=a, alive=rng.random() < 0.65))
    elif r < 0.90:
      evs.append(dict(op='deliver', k=rng.randrange(4), fail=rng.random() < 0.15))
    elif r < 0.93:
      evs.append(dict(op='kill', a=a))
    elif r < 0.96:
      evs.append(dict(op='revive', a=a))
    else:
      evs.append(dict(op='shutdown', i=i))
  return live_case(now, evs, (rng.choice(THRS), rng.choice(THRS)))


def task_of(o):
  """Task of run / call_and_wait: 'ok' | 'raise' | 'kill:<w>' | 'killraise:<w>' (older cases: `raises`)."""
  return o.get('task') or ('raise' if o.get('raises') else 'ok')


def norm_task(x):
  return x if isinstance(x, str) else ('raise' if x else 'ok')


def task_raises(t):
  return t == 'raise' or t.startswith('killraise')


def task_kills(t):
  return int(t.split(':')[1]) if t.startswith('kill') else None


def op_kills(o):
  """The worker an operation's task(s) pronounce dead, if any (at most one kill task per operation)."""
  if o['op'] in ('run', 'call_and_wait'):
    return task_kills(task_of(o))
  if o['op'] == 'as_completed' and not never_started(o):
    ks = [task_kills(norm_task(t)) for t in o['tasks']]
    ks = [k for k in ks if k is not None]
    return ks[0] if ks else None
  return None


def own_case(nworkers, pw, ops):
  """The capacity/liveness oracle is environment state driven by the ops themselves
  (hang/unhang: capacity; die/revive and kill tasks: liveness); nothing is precomputed here."""
  return dict(fam='own', nworkers=nworkers, pw=pw, ops=[dict(o) for o in ops])


def rand_own_op(rng, nworkers, pw):
  p = rng.randrange(len(pw))
  ws = pw[p]
  sub = [w for w in ws if rng.random() < 0.6]
  r = rng.random()
  if r < 0.16:
    return dict(op='acquire_all', p=p, ws=sub or list(ws), n=rng.choice([0, 0, 1, 2]))
  if r < 0.30:
    return dict(op='release_all', p=p, ws=sub if rng.random() < 0.6 else [])
  if r < 0.46:
    return dict(op='next_idle', p=p, ws=sub or list(ws), acq=rng.random() < 0.7)
  if r < 0.54:
    return dict(op='release', p=p, w=rng.choice(ws))
  def rand_task(kill_ok=True):
    x = rng.random()
    if kill_ok and x < 0.30:     # the task pronounces a worker of the pool dead while it runs
      return rng.choice(['kill', 'killraise']) + f':{rng.choice(ws)}'
    return 'raise' if x < 0.55 else 'ok'
  if r < 0.66:
    return dict(op='run', p=p, task=rand_task())
  if r < 0.74:
    return dict(op='call_and_wait', p=p, task=rand_task())
  if r < 0.86:
    nt = rng.randrange(0, 5)
    tasks = [rand_task(False) for _ in range(nt)]
    if nt and rng.random() < 0.45:
      tasks[rng.randrange(nt)] = rand_task()       # at most one kill task
    return dict(op='as_completed', p=p, tasks=tasks,
                take=rng.choice([None, None, 0, 1, 2]), ignore=rng.random() < 0.4)
  if r < 0.90:
    return dict(op='hang', w=rng.randrange(nworkers))
  if r < 0.93:
    return dict(op='unhang', w=rng.randrange(nworkers))
  if r < 0.98:
    return dict(op='die', w=rng.randrange(nworkers))
  return dict(op='revive', w=rng.randrange(nworkers))


def rand_own(rng):
  nworkers = rng.choice([2, 2, 3])
  npools = rng.choice([2, 3])
  pw = []
  for _ in range(npools):
    ws = [w for w in range(nworkers) if rng.random() < 0.8]
    pw.append(ws or [rng.randrange(nworkers)])
  ops = [rand_own_op(rng, nworkers, pw) for _ in range(rng.randrange(1, 15))]
  return own_case(nworkers, pw, ops)


def own_alphabet():
  al = []
  for p in (0, 1):
    al += [dict(op='acquire_all', p=p, ws=[0, 1], n=0), dict(op='acquire_all', p=p, ws=[1], n=1),
           dict(op='next_idle', p=p, ws=[0, 1], acq=True), dict(op='release_all', p=p, ws=[]),
           dict(op='release', p=p, w=0), dict(op='run', p=p, raises=True), dict(op='run', p=p, raises=False),
           dict(op='call_and_wait', p=p, raises=False),
           dict(op='as_completed', p=p, tasks=[False, True, False], take=None, ignore=False),
           dict(op='as_completed', p=p, tasks=[False, False], take=1, ignore=False)]
  al += [dict(op='hang', w=0), dict(op='unhang', w=0), dict(op='die', w=0), dict(op='die', w=1),
         dict(op='revive', w=0), dict(op='run', p=0, task='killraise:1'), dict(op='run', p=0, task='kill:0'),
         dict(op='as_completed', p=0, tasks=['ok', 'kill:0', 'ok'], take=None, ignore=True),
         dict(op='as_completed', p=1, tasks=['killraise:1'], take=None, ignore=False),
         dict(op='call_and_wait', p=1, task='kill:0')]
  return al


def sched_spec(rng):
  return dict(kind=rng.choice(['random', 'pct']), seed=rng.randrange(10**9), changes=rng.randrange(1, 6),
              horizon=rng.choice([30, 80, 200]))


def rand_sched_pool_op(rng, p, ws):
  sub = [w for w in ws if rng.random() < 0.7] or list(ws)
  rng.shuffle(sub)
  r = rng.random()
  if r < 0.22:
    return dict(op='acquire_all', p=p, ws=sub, n=rng.choice([0, 0, 1, 2]))
  if r < 0.42:
    return dict(op='release_all', p=p, ws=sub if rng.random() < 0.4 else [])
  if r < 0.70:
    return dict(op='next_idle', p=p, ws=sub, acq=rng.random() < 0.75)
  if r < 0.80:
    return dict(op='release', p=p, w=rng.choice(ws))
  if r < 0.92:
    return dict(op='idle', p=p)
  return dict(op='call', p=p, w=rng.choice(ws))


def rand_sched_env_op(rng, nworkers):
  r = rng.random()
  w = rng.randrange(nworkers)
  if r < 0.22:
    return dict(op='die', w=w)
  if r < 0.40:
    return dict(op='revive', w=w)
  if r < 0.55:
    return dict(op='send', w=w, alive=rng.random() < 0.5)
  if r < 0.85:
    return dict(op='deliver', k=rng.randrange(3), fail=rng.random() < 0.2)
  if r < 0.91:               # (round 6) the worker's client is shut down: CourierClient.shutdown, not under _states_lock
    return dict(op='shutdown', w=w)
  return dict(op='tick', d=rng.choice([0, 1, 31, 60, 99, 100, 200]))


def rand_sched(rng):
  nworkers = rng.choice([1, 2, 2, 3])
  npools = rng.choice([2, 2, 3])
  pw = []
  for _ in range(npools):
    ws = [w for w in range(nworkers) if rng.random() < 0.8] or [rng.randrange(nworkers)]
    rng.shuffle(ws)
    pw.append(ws)
  threads = []
  for i in range(rng.choice([2, 2, 3])):
    # mostly one thread per pool; sometimes two threads drive the same pool
    p = i % npools if rng.random() < 0.8 else rng.randrange(npools)
    threads.append(dict(kind='pool', ops=[rand_sched_pool_op(rng, p, pw[p]) for _ in range(rng.randrange(1, 4))]))
  for _ in range(rng.choice([0, 1, 1, 2])):
    threads.append(dict(kind='env', ops=[rand_sched_env_op(rng, nworkers) for _ in range(rng.randrange(1, 5))]))
  return dict(fam='sched', nworkers=nworkers, pw=pw, thr=rng.choice([100, 100, 180]), now=1000,
              reg0=[rng.choice(['alive', 'alive', 'alive', 'dead', 'absent']) for _ in range(nworkers)],
              threads=threads, sched=sched_spec(rng))


def rand_schedrun(rng):
  """The composite operations on real threads under the scheduler (oracle only): one pool runs `run` /
  `call_and_wait` (tasks that succeed or raise) while other pools acquire / release the same workers and the
  environment pronounces workers dead / revives them / lets the clock run."""
  c = rand_sched(rng)
  c['fam'] = 'schedrun'
  c['spin'] = rng.choice([30, 60, 100])
  p = rng.randrange(len(c['pw']))
  mine = [dict(op=rng.choice(['run', 'run', 'call_and_wait']), p=p, task=rng.choice(['ok', 'ok', 'raise']))
          for _ in range(rng.randrange(1, 3))]
  if rng.random() < 0.3:
    mine.insert(0, dict(op='acquire_all', p=p, ws=list(c['pw'][p]), n=0))
  others = [t for t in c['threads'] if t['kind'] == 'env' or all(o['p'] != p for o in t['ops'])]
  for t in others:                       # no manual deliveries in this family (the transport answers inline)
    if t['kind'] == 'env':
      t['ops'] = [o for o in t['ops'] if o['op'] != 'deliver'] or [dict(op='tick', d=31)]
  c['threads'] = [dict(kind='pool', ops=mine)] + others[:3]
  return c


def rand_schedc(rng):
  """Composite operations step by step: thread 0 runs `run` / `call_and_wait` (tasks that succeed or raise at the worker);
  other pool threads acquire / release / call the same workers; the environment pronounces workers dead, revives them,
  lets the clock run past the 180 s deadlines and delivers (or fails, or never delivers) the replies."""
  nworkers = rng.choice([1, 1, 2, 2, 3])
  npools = rng.choice([1, 2, 2])
  pw = []
  for _ in range(npools):
    ws = [w for w in range(nworkers) if rng.random() < 0.8] or [rng.randrange(nworkers)]
    rng.shuffle(ws)
    pw.append(ws)
  p = rng.randrange(npools)
  mine = []
  if rng.random() < 0.2:
    mine.append(dict(op='acquire_all', p=p, ws=list(pw[p]), n=0))
  for _ in range(rng.choice([1, 1, 2])):
    mine.append(dict(op=rng.choice(['run', 'run', 'call_and_wait']), p=p, task=rng.choice(['ok', 'ok', 'raise'])))
  if rng.random() < 0.2:
    mine.append(dict(op='next_idle', p=p, ws=list(pw[p]), acq=True))
  threads = [dict(kind='pool', ops=mine)]
  for q in range(npools):
    if q != p and rng.random() < 0.8:
      threads.append(dict(kind='pool', ops=[rand_sched_pool_op(rng, q, pw[q]) for _ in range(rng.randrange(1, 4))]))
  if rng.random() < 0.25:       # a second driver of the same pool (no oracle claim about exit then; the tie still holds)
    threads.append(dict(kind='pool', ops=[rng.choice([dict(op='release_all', p=p, ws=[]), dict(op='call', p=p, w=rng.choice(pw[p])),
                                                      dict(op='idle', p=p)])]))
  def env_op():
    r = rng.random()
    w = rng.randrange(nworkers)
    if r < 0.15:
      return dict(op='die', w=w)
    if r < 0.30:
      return dict(op='revive', w=w)
    if r < 0.38:
      return dict(op='send', w=w, alive=rng.random() < 0.5)
    if r < 0.80:
      return dict(op='deliver', k=rng.randrange(3), fail=rng.random() < 0.2)
    return dict(op='tick', d=rng.choice([0, 1, 31, 60, 99, 100, 200]))
  for _ in range(rng.choice([1, 1, 2])):
    threads.append(dict(kind='env', ops=[env_op() for _ in range(rng.randrange(1, 6))]))
  if rng.random() < 0.85:       # a transport that answers (late)
    threads.append(dict(kind='env', ops=[dict(op='deliver', k=0, fail=False) for _ in range(rng.randrange(4, 18))]))
  return dict(fam='schedc', nworkers=nworkers, pw=pw, thr=rng.choice([100, 100, 180]), now=1000,
              mp=[rng.choice([1, 1, 2]) for _ in range(nworkers)],
              reg0=[rng.choice(['alive', 'alive', 'alive', 'alive', 'alive', 'dead', 'absent']) for _ in range(nworkers)],
              threads=threads, sched=sched_spec(rng))


def rand_scheda(rng):
  """orchestrate.as_completed under the scheduler (observed script of primitives): thread 0 consumes as_completed over
  0-4 tasks (ok / raising), takes all results, or k of them and closes the generator, or closes it unstarted; other pools
  compete for the same workers; the environment kills / revives workers and delivers (or fails) the replies late."""
  c = rand_schedc(rng)
  c['fam'] = 'scheda'
  p = c['threads'][0]['ops'][0]['p']
  nt = rng.randrange(0, 5)
  c['threads'][0] = dict(kind='pool', ops=[dict(op='as_completed', p=p, tasks=[rng.choice(['ok', 'ok', 'raise']) for _ in range(nt)],
                                                take=rng.choice([None, None, None, None, 1, 1, 2, 0] if nt else [None, 0]),
                                                ignore=rng.random() < 0.4)])
  c['reg0'] = [r if rng.random() < 0.3 else 'alive' for r in c['reg0']]
  if rng.random() < 0.75:
    c['sched']['kind'] = 'random'      # (under PCT a spinning as_completed starves the transport: the run is cut)
  c['threads'] = [t for i, t in enumerate(c['threads'])
                  if i == 0 or t['kind'] == 'env' or all(o['p'] != p or o['op'] in ('release_all', 'call', 'idle') for o in t['ops'])]
  # a transport that keeps answering for a while (one step per delivery; as_completed needs dozens of steps per loop round)
  c['threads'].append(dict(kind='env', ops=[dict(op='deliver', k=0, fail=rng.random() < 0.05) for _ in range(rng.randrange(40, 120))]))
  for t in c['threads']:            # mostly short ticks: as_completed gives up as soon as no worker of the pool is alive
    if t['kind'] == 'env':
      for o in t['ops']:
        if o['op'] == 'tick' and rng.random() < 0.7:
          o['d'] = min(o['d'], 31)
  return c


def rand_scheda_faults(rng):
  """round 11: as_completed with faults in the MIDDLE of the run (a worker dies / the clock passes the heartbeat threshold while a
  task is in flight or between next_idle_worker and submit, a reply fails, the reply arrives behind set_exception): the
  environment thread idles (tick 0) for a random number of steps first, so that the fault falls inside the loop."""
  nworkers = rng.choice([1, 1, 2])
  pw = [list(range(nworkers))]
  if rng.random() < 0.3:
    pw.append([rng.randrange(nworkers)])
  nt = rng.randrange(1, 4)
  threads = [dict(kind='pool', ops=[dict(op='as_completed', p=0, tasks=[rng.choice(['ok', 'ok', 'raise']) for _ in range(nt)],
                                         take=rng.choice([None, None, None, 1]), ignore=rng.random() < 0.5)])]
  if len(pw) > 1:
    threads.append(dict(kind='pool', ops=[rand_sched_pool_op(rng, 1, pw[1]) for _ in range(rng.randrange(1, 3))]))
  w = rng.randrange(nworkers)
  idle = lambda a, b: [dict(op='tick', d=0) for _ in range(rng.randrange(a, b))]
  fault = rng.choice(['die', 'die', 'stale', 'die-revive', 'stale-revive'])
  ops = idle(8, 70)
  ops.append(dict(op='die', w=w) if fault.startswith('die') else dict(op='tick', d=rng.choice([100, 200])))
  if fault.endswith('revive'):
    ops += idle(3, 40) + [dict(op='revive', w=w)]
  threads.append(dict(kind='env', ops=ops))
  # the transport: answers late (after its own idling), sometimes fails a reply
  threads.append(dict(kind='env', ops=idle(1, 60) + [dict(op='deliver', k=0, fail=rng.random() < 0.15)
                                                       for _ in range(rng.randrange(0, 30))]))
  return dict(fam='scheda', nworkers=nworkers, pw=pw, thr=100, now=1000, mp=[rng.choice([1, 2]) for _ in range(nworkers)],
              reg0=['alive'] * nworkers, threads=threads, sched=dict(kind='random', seed=rng.randrange(10**9), changes=3, horizon=80))


def gen_cases(ctx):
  import os
  fams = os.environ.get('VERIF_C20_FAMILIES')          # development aid: restrict the families (default: all)
  for c in _gen_cases(ctx):
    if not fams or c.get('fam') in fams.split(','):
      yield c


def _gen_cases(ctx):
  yield from ctx.corpus()
  rng, quick = ctx.rng, ctx.quick
  # --- live: small-exhaustive
  al = live_alphabet()
  maxlen = 3 if quick else 4
  for n in range(1, maxlen + 1):
    for seq in itertools.product(range(len(al)), repeat=n):
      if n == maxlen and quick and (sum(seq) + seq[0]) % 2:   # half of the longest layer in the quick tier
        continue
      now = 1000 if (sum(seq) % 3) else 50
      # close every sequence with the observations the property is about
      yield live_case(now, [al[i] for i in seq] + [dict(op='deliver', k=0, fail=False), dict(op='alive', i=0)])
  for _ in range(700 if quick else 12000):
    yield rand_live(rng)
  # --- own
  oal = own_alphabet()
  for a, b in itertools.product(range(len(oal)), repeat=2):
    yield own_case(2, [[0, 1], [0, 1]], [oal[a], oal[b], dict(op='release_all', p=0, ws=[])])
  if not quick:
    for a, b, c in itertools.product(range(0, len(oal), 2), repeat=3):
      yield own_case(2, [[0, 1], [0, 1]], [oal[a], oal[b], oal[c]])
  for _ in range(500 if quick else 8000):
    yield rand_own(rng)
  # --- sched (after the older families, whose random streams are thereby unchanged): real threads under the deterministic scheduler, replayed on the LTS
  for _ in range(1500 if quick else 18000):
    yield rand_sched(rng)
  for _ in range(150 if quick else 2000):      # (round 6: largely subsumed by family schedc below; kept as an oracle-only cross-check)
    yield rand_schedrun(rng)
  # --- live, server life-cycle (round 6; no PRNG use): after a delivered shutdown every sequence of <= 3 (4 thorough) of
  # restart / kill / shutdown / deliver / call / alive, closed by a call, deliveries, a registration and is_alive: the
  # restarted server (CourierServer.start() after a stop: transport up, no run loop) must answer and must not stop again
  lal = [dict(op='shutdown', i=0), dict(op='deliver', k=0, fail=False), dict(op='revive', a=0), dict(op='kill', a=0),
         dict(op='call', i=0), dict(op='alive', i=0)]
  for n in range(1, 4 if quick else 5):
    for seq in itertools.product(range(len(lal)), repeat=n):
      yield live_case(1000, [dict(op='shutdown', i=0), dict(op='deliver', k=0, fail=False)] + [lal[i] for i in seq] +
                      [dict(op='call', i=0), dict(op='deliver', k=0, fail=False), dict(op='deliver', k=0, fail=False),
                       dict(op='reg', a=0, t=990), dict(op='alive', i=0)])
  # --- schedc (round 6): run / call_and_wait step by step under the scheduler
  for _ in range(330 if quick else 6000):
    yield rand_schedc(rng)
  # --- scheda (round 6): orchestrate.as_completed under the scheduler, as the observed script of its primitive operations
  for _ in range(160 if quick else 3000):
    yield rand_scheda(rng)
  # --- scheda with faults in the middle of the run (round 11; after everything else: earlier random streams unchanged)
  for _ in range(160 if quick else 4000):
    yield rand_scheda_faults(rng)


# ----------------------------------------------------------------------------- real code

def run_impl(case):
  if case['fam'] in ('sched', 'schedrun'):
    return lo.run_real(case)
  if case['fam'] in ('schedc', 'scheda'):
    return lo.run_real(case, max_steps=1200)
  return run_live(case) if case['fam'] == 'live' else run_own(case)


def _num(x):
  return int(x) if float(x) == int(x) else float(x)


def run_live(case):
  from harness import fakecourier
  from harness.lib_courier_env import CourierEnv
  env = CourierEnv(mode='manual', start=float(case['now']))
  try:
    names = {a: env.addr(f'a{a}') for a in case['addrs']}
    for a in case['addrs']:
      env.server(f'a{a}')
    reg = env.courier_utils.worker_registry()
    clients = [env.courier_utils.CourierClient(names[a], heartbeat_threshold_secs=thr)
               for a, thr in case['clients']]
    obs = []
    for ev in case['events']:
      op = ev['op']
      alive, info = None, None
      if op == 'reg':
        reg.register(names[ev['a']], float(ev['t']))
      elif op == 'refresh':
        reg.refresh(names[ev['a']], float(ev['t']))
      elif op == 'unreg':
        reg.unregister(names[ev['a']])
      elif op == 'tick':
        env.clock.advance(ev['d'])
      elif op == 'alive':
        alive = bool(clients[ev['i']].is_alive)
      elif op == 'call':
        clients[ev['i']].call(1)
      elif op == 'send':
        clients[ev['i']].send_heartbeat(names[ev['a']], ev['alive'])
      elif op == 'deliver':
        call = fakecourier.deliver(ev['k'], fate=fakecourier.APP_ERROR if ev['fail'] else None)
        if call is not None:
          outcome = [l for l in fakecourier.world().log if l[0] == call.seq][-1][4]
          sender = None
          if call.method == 'heartbeat' and call.args and call.args[0]:
            sender = [a for a, n in names.items() if n == call.args[0]][0]
          info = dict(method=call.method, outcome=outcome, sender=sender,
                      alive=(call.args[1] if len(call.args) > 1 else True))
          if call.method == 'shutdown' and outcome == 'ok':
            a = [a for a, n in names.items() if n == call.address][0]
            env.servers[f'a{a}'].stop().join(timeout=5)
      elif op == 'kill':
        fakecourier.kill(names[ev['a']])
      elif op == 'revive':
        env.restart(f"a{ev['a']}")
      elif op == 'shutdown':
        clients[ev['i']].shutdown()
      else:
        raise ValueError(op)
      obs.append(dict(alive=alive, get=[_num(reg.get(names[a])) for a in case['addrs']],
                      queued=len(fakecourier.world().pending), now=_num(env.clock.now), info=info))
    return dict(obs=obs)
  finally:
    env.close()


def _outcome(fn):
  try:
    return 'ok', fn()
  except Exception as e:  # pylint: disable=broad-except
    return 'err:' + err_kind(e), None


def _release(worker, pool):
  """`worker.release(pool)`; on a tree without the owner-checked release (before the F14 repair) the
  same request is expressed the way the old release_all did: check, then release."""
  try:
    worker.release(pool)
  except TypeError:
    if worker.is_available(pool):
      worker.release()


ENV_OPS = ('hang', 'unhang', 'die', 'revive')
START = 1_000_000_000.0      # virtual clock of the own family
THRESHOLD = 100_000_000      # heartbeat threshold: a registered worker stays fresh for the whole case,
                             # an unregistered one (last = 0) is not alive (START - 0 > THRESHOLD)


def _kill_task(address, raises):
  """Runs *at the worker* (same process): the worker is pronounced dead while the task executes,
  which is what the server's heartbeat(is_alive=False) handler does to the registry."""
  from ml_metrics._src.utils import courier_utils
  courier_utils.worker_registry().unregister(address)
  if raises:
    raise RuntimeError('worker crashed')
  return 0


def run_own(case):
  from harness import fakecourier
  from harness.lib_courier_env import CourierEnv
  env = CourierEnv(mode='inline', start=START, spin_tick=1.0)
  cw = env.courier_worker
  from ml_metrics._src.chainables import lazy_fns
  try:
    n = case['nworkers']
    reg = env.courier_utils.worker_registry()
    for w in range(n):
      env.server(f'w{w}')
      reg.register(env.addr(f'w{w}'), env.clock.now)      # the worker announced itself: alive
    workers = [cw.Worker(env.addr(f'w{w}'), heartbeat_threshold_secs=THRESHOLD) for w in range(n)]
    pools = [cw.WorkerPool([workers[w] for w in ws]) for ws in case['pw']]
    for p, ws in zip(pools, case['pw']):
      assert all(a is workers[w] for a, w in zip(p.all_workers, ws)), 'pools must share the Worker singletons'
    idx = {id(w): i for i, w in enumerate(workers)}

    def snapshot():
      return dict(
          locked=[bool(w.is_locked()) for w in workers],
          locked_by=[[bool(w.is_locked(p)) for w in workers] for p in pools],
          available=[[bool(w.is_available(p)) for w in workers] for p in pools],
          acquired=[[idx[id(w)] for w in p.acquired_workers] for p in pools],
          dead=[reg.get(w.address) == 0 for w in workers])

    def make_task(t):
      if t == 'ok':
        return lazy_fns.trace(len)([1, 2])
      if t == 'raise':
        return lazy_fns.trace(len)(0.5)                 # TypeError at the worker
      return lazy_fns.trace(_kill_task)(env.addr(f'w{task_kills(t)}'), task_raises(t))

    obs = []
    for o in case['ops']:
      op = o['op']
      res, outcome, mid = None, 'ok', []
      if op == 'hang':
        a = env.addr(f"w{o['w']}")
        if workers[o['w']].has_capacity:
          fakecourier.kill(a)
          workers[o['w']].call(1)           # never completes: the worker has no capacity left
          fakecourier.revive(a)
      elif op == 'unhang':
        fakecourier.fail_hung(env.addr(f"w{o['w']}"))
      elif op == 'die':
        reg.unregister(env.addr(f"w{o['w']}"))            # pronounced dead (heartbeat(is_alive=False))
      elif op == 'revive':
        reg.register(env.addr(f"w{o['w']}"), env.clock.now)
      else:
        pool = pools[o['p']]
        env.clock.deadline = env.clock.now + 1500
        if op == 'acquire_all':
          got = pool._acquire_all([workers[w] for w in o['ws']], num_workers=o['n'])  # pylint: disable=protected-access
          res = [idx[id(w)] for w in got]
        elif op == 'release_all':
          pool.release_all([workers[w] for w in o['ws']])
        elif op == 'next_idle':
          w = pool.next_idle_worker([workers[w] for w in o['ws']], maybe_acquire=o['acq'])
          res = 'none' if w is None else idx[id(w)]
        elif op == 'release':
          _release(workers[o['w']], pool)
        elif op == 'run':
          outcome, _ = _outcome(lambda: pool.run(make_task(task_of(o))))
        elif op == 'call_and_wait':
          outcome, _ = _outcome(lambda: pool.call_and_wait(make_task(task_of(o))))
        elif op == 'as_completed':
          if o['take'] == 0:
            env.orchestrate.as_completed(pool, iter(())).close()     # never started: runs nothing
            outcome = 'never-started'
          else:
            # when no worker can be obtained as_completed spins; the virtual deadline (set above for every
            # op) turns that into a TimeoutError, after which its `finally` still has to release
            gen = env.orchestrate.as_completed(
                pool, (make_task(norm_task(t)) for t in o['tasks']), ignore_failures=o['ignore'])
            try:
              if o['take'] is None:
                for _ in gen:
                  mid.append(snapshot())
              else:
                for _ in range(o['take']):
                  try:
                    next(gen)
                  except StopIteration:
                    break
                  mid.append(snapshot())
                gen.close()
                outcome = 'closed'
            except Exception as e:  # pylint: disable=broad-except
              outcome = 'err:' + err_kind(e)
        else:
          raise ValueError(op)
      env.clock.deadline = None
      obs.append(dict(res=res, outcome=outcome, mid=mid, **snapshot()))
    return dict(obs=obs)
  finally:
    env.close()


# ----------------------------------------------------------------------------- model

def model_requests_obs(case, obs):
  if case['fam'] == 'schedrun':      # oracle-only family: the composite operations are not modelled step by step
    return []
  if case['fam'] in ('sched', 'schedc'):
    return [lo.model_request(case, obs['choices'])]
  if case['fam'] == 'scheda':
    return [lo.model_request(case, obs['choices'], obs['alog'])]
  return model_requests(case)


def model_requests(case):
  if case['fam'] == 'live':
    return [dict(model='liveness', now=case['now'], addrs=case['addrs'],
                 clients=[dict(addr=a, thr=t) for a, t in case['clients']], events=case['events'])]
  ops = []
  for o in case['ops']:
    op = o['op']
    if op in ENV_OPS:
      m = dict(op=op, w=o['w'])                # capacity / liveness oracle: environment state of the model run
    elif op == 'release':
      m = dict(op='release', p=o['p'], w=o['w'], checked=True)
    elif op == 'run':
      m = dict(op='run', p=o['p'], tries=2)
    elif op == 'call_and_wait':
      m = dict(op='call_and_wait', p=o['p'])
    elif op == 'as_completed':
      # a generator that is closed before its first next() never runs a line of as_completed (not even
      # its `finally`): no operation took place
      m = (dict(op='next_idle', p=0, ws=[], acq=False) if never_started(o)
           else dict(op='as_completed', p=o['p'], body=[]))
    else:
      m = {k: v for k, v in o.items() if k in ('op', 'p', 'ws', 'n', 'acq')}
    k = op_kills(o)
    if k is not None:
      m['kills'] = k
    ops.append(m)
  return [dict(model='owner', mode='seq', nworkers=case['nworkers'], pw=case['pw'], ops=ops)]


_COVER = {}     # model branches / op kinds exercised, filled by model_obs (main process), reported by extra()

LIVE_BRANCHES = [
    'reg/absent', 'reg/dead', 'reg/live', 'refresh/absent', 'refresh/dead', 'refresh/live', 'unreg', 'tick',
    'alive/true', 'alive/false', 'alive/false+hb', 'call', 'send/alive', 'send/dead', 'deliver/empty',
    'deliver/cancelled', 'deliver/down', 'deliver/fail', 'deliver/hb-nosender', 'deliver/hb-register',
    'deliver/hb-unregister', 'deliver/plain', 'deliver/shutdown', 'deliver/shutdown-noloop', 'kill', 'revive',
    'revive/restart', 'shutdown']


def _cover(kind, key, n=1):
  h = _COVER.setdefault(kind, {})
  h[key] = h.get(key, 0) + n


def lo_case_key(case):
  from harness.core import jdump
  return jdump({k: v for k, v in case.items() if k != 'sched'})


PROGRAM_POINTS = [
    'start', 'aEnter', 'aRdPool', 'aTry', 'aWr', 'aRd2', 'aExit', 'rEnter', 'rRdLocked1', 'rRdPool', 'rRdLocked2', 'rUnlock',
    'rWr', 'rExit', 'vRdLocked', 'vRdPool', 'lRdLocked', 'lRdPool', 'cEnter', 'cExit', 'iEnter', 'i.foldAcq', 'i.foldRel',
    'i.getAcq', 'i.getRel', 'iExit', 'kEnter', 'kExit', 'e.die', 'e.die.acq', 'e.die.rel', 'e.revive', 'e.revive.acq',
    'e.revive.rel', 'e.send', 'e.tick', 'e.deliver.empty', 'e.deliver.fail', 'e.deliver.plain', 'e.deliver.ping',
    'e.deliver.hb', 'e.hb.register', 'e.hb.unregister', 'e.hb.rel',
    # round 6: program points of the composite operations (controller of Model/OwnerEnv.lean)
    'c.start.run', 'c.start.caw', 'c.rTick', 'c.rCond', 'c.rCond.err', 'c.rAlive.ret', 'c.rAlive.sleep', 'c.rNext',
    'c.rClockN.timeout', 'c.rClockN.submit', 'c.rClockN.again', 'c.rSub.wait', 'c.rSub.sleepAlive', 'c.rSub.disconnected',
    'c.rSub.sleepCap', 'c.cAcq', 'c.cWait', 'r.strAcq', 'r.strRel', 'e.deliver.taskRaise',
    'e.shutdown', 'e.deliver.cancelled', 'e.deliver.shutdown',
    'c.start.submit', 'c.sSub.sleepAlive', 'c.sSub.disconnected', 'c.sSub.sleepCap']
# round 11: program points of the controller of as_completed (Model/OwnerEnv.lean: `acPlan`; name = where the controller is > what it
# does next) that every run must execute on the real code (family scheda); reached but too rare to promise: a.isAl.raced>fin.raised
# (the reply arrives between the done() poll and set_exception), a.rel>workers, a.sub>poll, a.polled.failed>workers, a.next>acquired
AC_POINTS = [
    'a.start', 'a.alive1>workers', 'a.alive1>fin.noWorker', 'a.alive2>nextIdle', 'a.alive2>poll', 'a.next>submit0', 'a.next>poll',
    'a.next>workers', 'a.sub>nextIdle', 'a.sub>submit1', 'a.sub>submit2', 'a.polled.queued>isAlive', 'a.polled.ok>poll',
    'a.polled.ok>fin.closed', 'a.polled.ok>acquired', 'a.polled.failed>fin.raised', 'a.polled.failed>poll', 'a.isAl.alive>workers',
    'a.isAl.alive>acquired', 'a.isAl.alive>poll', 'a.isAl.dead>workers', 'a.acq>release', 'a.acq>workers', 'a.rel>fin.ok']
_VERDICTS = dict(n=0)      # disagreements / oracle failures seen in the main phase (a coverage guard must not mask them)
_SCHEDULES = set()


def model_obs(case, resps):
  if case['fam'] == 'schedrun':
    _cover('schedrun', 'runs')
    return dict(skip=True)
  r = resps[0]
  if case['fam'] in ('sched', 'schedc', 'scheda'):
    m = lo.model_obs(case, r)
    for pp in m['pps']:
      _cover('sched_program_points', pp)
    if case['fam'] == 'scheda':
      _cover('scheda', 'schedules replayed')
      _cover('scheda', 'steps', len(m['pps']))
    if case['fam'] == 'schedc':
      _cover('schedc', 'schedules replayed')
      _cover('schedc', 'steps', len(m['pps']))
      for t, th in enumerate(case['threads']):
        for o, v in zip(th['ops'], m['results'][t]):
          if o['op'] in lo.COMPOSITE_OPS:
            _cover('schedc_outcomes', f"{o['op']}/{v}")
    _cover('sched_schedules', 'replayed')
    _cover('sched_schedules', 'steps', len(m['pps']))
    _cover('sched_schedule_kind', case['sched']['kind'])
    _SCHEDULES.add((lo_case_key(case), tuple(t for t, _ in m['steps'])))
    return m
  if case['fam'] == 'live':
    for b in r['branches']:
      _cover('live_model_branches', b)
    return dict(obs=[dict(alive=o['alive'], get=o['get'], queued=o['queued']) for o in r['obs']],
                branches=r['branches'])
  out = []
  for o, m in zip(case['ops'], r['obs']):
    op = o['op']
    _cover('own_ops', op)
    if op not in ENV_OPS:
      foreign = any(m['locked_by'][q][w] for q in range(len(case['pw'])) if q != o['p']
                    for w in range(case['nworkers']))
      _cover('own_ops_with_foreign_owner_after', f'{op}/{foreign}')
    res, outcome = None, 'ok'
    if op == 'acquire_all':
      res = m['results'][0]
    elif op == 'next_idle':
      res = m['results'][0]
    elif op == 'run':
      found = (not m['not_started']) and m['results'][0] != 'none'
      outcome = 'err:ValueError' if not found else ('err:Exception' if task_raises(task_of(o)) else 'ok')
      _cover('own_run', 'not-started(no live worker)' if m['not_started'] else ('found' if found else 'none-obtainable'))
    elif op == 'call_and_wait':
      outcome = 'err:Exception' if task_raises(task_of(o)) else 'ok'
    elif op == 'as_completed':
      outcome = None       # not part of the property; only the ownership state is compared
    if op in RELEASING and not never_started(o):
      held_dead = any(m['dead'][w] for w in case['pw'][o['p']])
      _cover('own_releasing_ops_with_dead_pool_worker_at_exit', f'{op}/{held_dead}')
    out.append(dict(res=res, outcome=outcome, locked=m['locked'], locked_by=m['locked_by'],
                    available=m['available'], acquired=m['acquired'], dead=m['dead'], stuck=m['stuck']))
  return dict(obs=out)


def compare(impl, model):
  d = _compare(impl, model)
  if d is not None:
    _VERDICTS['n'] += 1
  return d


def _compare(impl, model):
  if model.get('skip'):
    return None
  if 'steps' in impl:
    return lo.compare(impl, model)
  a, b = impl['obs'], model['obs']
  if len(a) != len(b):
    return f'{len(a)} observations vs {len(b)}'
  for i, (x, y) in enumerate(zip(a, b)):
    if 'get' in x:
      for k in ('alive', 'get', 'queued'):
        if x[k] != y[k]:
          return f'event {i}: {k} impl={x[k]} model={y[k]}'
    else:
      if y.get('stuck'):
        return f'op {i}: model thread did not finish the operation'
      for k in ('locked', 'locked_by', 'available', 'acquired', 'dead', 'res'):
        if x[k] != y[k]:
          return f'op {i}: {k} impl={x[k]} model={y[k]}'
      if y['outcome'] is not None and x['outcome'] != y['outcome']:
        return f"op {i}: outcome impl={x['outcome']} model={y['outcome']}"
  return None


# ----------------------------------------------------------------------------- oracle (the property itself)

def oracle(case, obs):
  w = _oracle(case, obs)
  if w is not None:
    _VERDICTS['n'] += 1
  return w


def _oracle(case, obs):
  if case['fam'] in ('sched', 'schedrun', 'schedc', 'scheda'):
    return oracle_sched(case, obs)
  return oracle_live(case, obs) if case['fam'] == 'live' else oracle_own(case, obs)


def oracle_sched(case, obs):
  """The property, on the public observations taken between every two steps of the real run (written from the
  English statement; uses the case, which thread moved and what the transport delivered — not the model)."""
  waiting_for_reply = (case['fam'] == 'schedc' and obs['outcome'] == 'deadlock' and obs.get('blocked') and
                       all(b[2] in ('fwait', 'wdone') for b in obs['blocked']))
  # (schedc, manual transport: a composite operation whose call the environment never answers waits for ever — it has
  #  not returned, the exit clause does not apply; every step up to that point is still checked below)
  if obs['outcome'] not in ('done', 'cut') and not waiting_for_reply:
    return f"the run did not finish: {obs['outcome']} {obs.get('err')} blocked={obs.get('blocked')}"
  if obs['excs']:
    return f"a thread ended with an exception: {obs['excs']}"
  # (round 11) obs['ac_released_busy'] records a mid-run release_all() of as_completed that gives away workers on which its own
  # tasks are still running (empty set read as 'all workers').  It is NOT judged: the statement of C20 allows a pool to release
  # workers it owns at any time; see DESIGN.md (observations outside the properties).
  ths, npools, nw = case['threads'], len(case['pw']), case['nworkers']
  steps, snaps = obs['steps'], obs['snaps']
  drivers = [set() for _ in range(npools)]          # threads that act for a pool
  for t, th in enumerate(ths):
    if th['kind'] == 'pool':
      for o in th['ops']:
        drivers[o['p']].add(t)
  acquirers = [set() for _ in range(npools)]        # threads that may acquire for a pool
  for t, th in enumerate(ths):
    if th['kind'] == 'pool':
      for o in th['ops']:
        if o['op'] in ('acquire_all',) + tuple(lo.COMPOSITE_LIKE) or (o['op'] == 'next_idle' and o['acq']):
          acquirers[o['p']].add(t)
  last_step = {}                                     # (tid, op index) -> index of its last executed step
  first_step = {}
  for k, (tid, _, oi) in enumerate(steps):
    last_step[(tid, oi)] = k
    first_step.setdefault((tid, oi), k)
  for k, (tid, label, oi) in enumerate(steps):
    a, b = snaps[k], snaps[k + 1]
    th = ths[tid]
    op = th['ops'][oi]
    where = f'step {k} (thread {tid} {label}, op {op})'
    for w in range(nw):
      oa, ob = a['owners'][w], b['owners'][w]
      if len(ob) > 1:
        return f'{where}: worker {w} is owned by pools {ob}'
      if not b['sl'][w] and b['locked'][w] != bool(ob):
        return f'{where}: worker {w} locked={b["locked"][w]} but owners={ob} (nobody inside its state lock)'
      for p in set(oa) - set(ob):
        ok = (th['kind'] == 'pool' and op['p'] == p and
              ((op['op'] == 'release' and op['w'] == w) or (op['op'] == 'release_all' and (not op['ws'] or w in op['ws']))
               or (op['op'] in lo.COMPOSITE_LIKE and w in case['pw'][p])))
        if not ok:
          return f'{where}: pool {p} lost worker {w} through an operation that is not its own release'
      for p in set(ob) - set(oa):
        ok = (th['kind'] == 'pool' and op['p'] == p and
              ((op['op'] == 'acquire_all' and w in op['ws']) or (op['op'] == 'next_idle' and op['acq'] and w in op['ws'])
               or (op['op'] in lo.COMPOSITE_LIKE and w in case['pw'][p])))
        if not ok:
          return f'{where}: pool {p} became owner of worker {w} through an operation that does not acquire it for {p}'
      ra, rb = a['reg'][w], b['reg'][w]
      if ra != rb:
        info = obs['opinfo'].get(f'{tid},{oi}') if th['kind'] == 'env' and op['op'] in ('deliver', 'send') else None
        hb = info if (info and info['method'] == 'heartbeat' and info['sender'] == w and not info['fail']) else None
        registers = th['kind'] == 'env' and ((op['op'] == 'revive' and op['w'] == w) or (hb is not None and hb['alive']))
        unregisters = th['kind'] == 'env' and ((op['op'] in ('die', 'shutdown') and op['w'] == w) or (hb is not None and not hb['alive']))
        if rb == 'absent':
          return f'{where}: the registry forgot worker {w}'
        if ra is None and not registers:
          return f'{where}: worker {w} was declared dead and is recorded alive again ({rb}) without re-registering'
        if rb is None and not unregisters:
          return f'{where}: worker {w} was pronounced dead by an operation that does not unregister it'
        if ra not in (None, 'absent') and rb is not None and rb < ra:
          return f'{where}: recorded heartbeat of worker {w} moved backwards {ra} -> {rb}'
    # ---- an operation has just finished
    if last_step.get((tid, oi)) == k and th['kind'] == 'pool' and oi < len(obs['results'][tid]):
      res = obs['results'][tid][oi]
      p = op['p']
      span = snaps[first_step[(tid, oi)]:k + 2]
      if op['op'] in ('next_idle', 'idle'):
        got = [] if res in ('none', None) else ([res] if isinstance(res, int) else list(res))
        for w in got:
          if all(s['reg'][w] is None for s in span) and case['thr'] <= case['now']:
            return (f'{where}: {op["op"]} returned worker {w} as alive although it was declared dead before the '
                    f'operation began and did not re-register')
          if all(s['owners'][w] and s['owners'][w] != [p] for s in span):
            return f'{where}: {op["op"]} of pool {p} returned worker {w}, owned by pool {span[0]["owners"][w]} all along'
      if op['op'] == 'next_idle' and isinstance(res, int) and drivers[p] == {tid} and b['owners'][res] != [p]:
        return f'{where}: next_idle_worker of pool {p} returned worker {res} but the pool does not own it ({b["owners"][res]})'
      if op['op'] == 'acquire_all' and drivers[p] == {tid}:
        for w in res:
          if b['owners'][w] != [p]:
            return f'{where}: _acquire_all of pool {p} returned worker {w} but its owners are {b["owners"][w]}'
      # (round 6) the exit clauses also apply to a pool that other threads drive too, as long as those never acquire for it
      sole_acq = acquirers[p] <= {tid}
      if op['op'] == 'release_all' and not op['ws'] and sole_acq:
        held = [w for w in range(nw) if p in b['owners'][w]]
        if held:
          return f'{where}: release_all() of pool {p} returned and the pool still owns workers {held}'
      if op['op'] == 'as_completed' and sole_acq and res != 'never-started':
        # "when a pool-level operation returns or raises [or its generator is closed], none of its workers remains acquired"
        held = [w for w in range(nw) if p in b['owners'][w]]
        if held:
          return f'{where}: as_completed of pool {p} ended with {res!r} and the pool still owns workers {held}'
      if op['op'] in lo.COMPOSITE_OPS and sole_acq:
        # "when a pool-level operation returns or raises, none of its workers remains acquired"
        held = [w for w in range(nw) if p in b['owners'][w]]
        before = [w for w in range(nw) if p in span[0]['owners'][w]]
        if op['op'] == 'run' and str(res).startswith('err:ValueError:Failed to connect'):
          # run() on a pool without a live worker fails in wait_until_alive() before its try block: it did not start
          if held != before and drivers[p] == {tid}:
            return f'{where}: run() that could not start (no live worker) changed what pool {p} owns: {before} -> {held}'
        elif held:
          return f'{where}: {op["op"]}() of pool {p} ended with {res!r} and the pool still owns workers {held}'
  if obs['outcome'] == 'done' and not all(obs['finished']):
    return f"threads did not finish: {obs['finished']}"
  return None


def oracle_live(case, obs):
  """Written from the English statement; uses only events, delivered-call facts and public observations."""
  addrs = case['addrs']
  client_addr = [a for a, _ in case['clients']]
  thr = [t for _, t in case['clients']]
  dead = {a: False for a in addrs}       # declared dead and not registered since
  prev = {a: 0 for a in addrs}
  for i, (ev, o) in enumerate(zip(case['events'], obs['obs'])):
    op = ev['op']
    declared, registered = set(), set()
    if op == 'unreg':
      declared.add(ev['a'])
    elif op == 'shutdown':
      declared.add(client_addr[ev['i']])
    elif op == 'reg':
      registered.add(ev['a'])
    elif op == 'deliver' and o['info'] and o['info']['method'] == 'heartbeat' and o['info']['outcome'] == 'ok' \
        and o['info']['sender'] is not None:
      (registered if o['info']['alive'] else declared).add(o['info']['sender'])
    for a in declared:
      dead[a] = True
    for a in registered:
      dead[a] = False
    for k, a in enumerate(addrs):
      g = o['get'][k]
      if dead[a] and g != 0:
        return f'event {i} ({op}): address {a} was declared dead but get() = {g}'
      if a not in declared and g < prev[a]:
        return f'event {i} ({op}): recorded heartbeat of {a} moved backwards {prev[a]} -> {g}'
      prev[a] = g
    if op == 'alive':
      c = ev['i']
      a = client_addr[c]
      g = o['get'][addrs.index(a)]
      if dead[a] and thr[c] <= o['now'] and o['alive']:
        return f'event {i}: dead worker {a} reported alive'
      want = (o['now'] - g) < thr[c]
      if o['alive'] != want:
        return (f'event {i}: is_alive={o["alive"]} but now-last={o["now"] - g} vs threshold {thr[c]} '
                f'(not a function of last heartbeat, threshold, now)')
  return None


RELEASING = ('run', 'call_and_wait', 'as_completed')


def never_started(o):
  return o['op'] == 'as_completed' and o['take'] == 0


def _check_snapshot(s, npools, where):
  for w, locked in enumerate(s['locked']):
    owners = [p for p in range(npools) if s['locked_by'][p][w]]
    if len(owners) > 1:
      return f'{where}: worker {w} owned by pools {owners}'
    if locked != bool(owners):
      return f'{where}: worker {w} locked={locked} but owners={owners}'
    for p in range(npools):
      if s['available'][p][w] != ((not locked) or owners == [p]):
        return f'{where}: worker {w} is_available({p})={s["available"][p][w]} with owners={owners}'
  return None


def oracle_own(case, obs):
  npools = len(case['pw'])
  prev = [[] for _ in range(npools)]
  prev_dead = [False] * case['nworkers']
  for i, (o, s) in enumerate(zip(case['ops'], obs['obs'])):
    op = o['op']
    for j, m in enumerate(s['mid']):
      bad = _check_snapshot(m, npools, f'op {i} ({op}) after yield {j}')
      if bad:
        return bad
      for q in range(npools):
        if q != o['p'] and sorted(m['acquired'][q]) != sorted(prev[q]):
          return f'op {i} ({op}) of pool {o["p"]} changed what pool {q} owns: {prev[q]} -> {m["acquired"][q]}'
    bad = _check_snapshot(s, npools, f'after op {i} ({op})')
    if bad:
      return bad
    if op not in ENV_OPS:
      p = o['p']
      for q in range(npools):
        if q != p and sorted(s['acquired'][q]) != sorted(prev[q]):
          return f'op {i} ({op}) of pool {p} changed what pool {q} owns: {prev[q]} -> {s["acquired"][q]}'
      if op in RELEASING and not never_started(o) and s['outcome'] != 'never-started':
        # "when the pool-level operation returns or raises, none of ITS workers remains acquired" — dead
        # workers included: is_locked(pool), acquired_workers and the availability to every other pool
        if op == 'run' and all(prev_dead[w] for w in case['pw'][p]):
          # run() on a pool without any live worker fails in wait_until_alive() before it starts
          # (nothing is acquired by it); what the pool held from earlier operations is not run()'s to release
          if sorted(s['acquired'][p]) != sorted(prev[p]):
            return f'op {i} (run that could not start: no live worker) changed what pool {p} owns'
        else:
          held = [w for w in range(case['nworkers']) if s['locked_by'][p][w]]
          if held or s['acquired'][p]:
            dead = [w for w in held if s['dead'][w]]
            return (f'op {i} ({op}, outcome {s["outcome"]}) left pool {p} with acquired workers '
                    f'{sorted(set(held) | set(s["acquired"][p]))} (dead among them: {dead})')
          for w in case['pw'][p]:
            for q in range(npools):
              if q != p and not s['available'][q][w] and not any(
                  s['locked_by'][r][w] for r in range(npools) if r != p):
                return (f'op {i} ({op}) of pool {p} finished, yet its worker {w} is not available to pool {q} '
                        f'(dead: {s["dead"][w]})')
    else:
      for q in range(npools):
        if sorted(s['acquired'][q]) != sorted(prev[q]):
          return f'op {i} ({op}) changed what pool {q} owns'
    prev = [list(x) for x in s['acquired']]
    prev_dead = list(s['dead'])
  return None


def nontrivial(case, obs):
  if case['fam'] in ('sched', 'schedrun', 'schedc', 'scheda'):
    ch = obs['choices']
    return sum(1 for a, b in zip(ch, ch[1:]) if a != b) >= 8
  if case['fam'] == 'live':
    seen_dead = False
    for ev, o in zip(case['events'], obs['obs']):
      if ev['op'] in ('unreg', 'shutdown') or (o['info'] and o['info']['outcome'] != 'ok'):
        seen_dead = True
      if ev['op'] == 'deliver' and o['info'] and o['info']['method'] == 'heartbeat':
        seen_dead = True
      if ev['op'] == 'alive' and seen_dead:
        return True
    return False
  prev = [[] for _ in case['pw']]
  for o, s in zip(case['ops'], obs['obs']):
    if o['op'] not in ENV_OPS and any(prev[q] for q in range(len(prev)) if q != o['p']):
      return True
    prev = s['acquired']
  return False


def finding(case, what):
  return None     # F13, F14, F19 are repaired (`fix:` commits); nothing is suppressed


def neighbours(case, rng):
  if case['fam'] in ('schedrun', 'schedc', 'scheda'):
    for k in range(300):
      c = copy.deepcopy(case)
      c['sched'] = sched_spec(rng)
      yield c
    if case['fam'] == 'schedc':
      for _ in range(200):
        yield rand_schedc(rng)
    if case['fam'] == 'scheda':
      for _ in range(200):
        yield rand_scheda(rng)
    return
  if case['fam'] == 'sched':
    for k in range(300):
      c = copy.deepcopy(case)
      c['sched'] = sched_spec(rng)
      yield c
    for _ in range(200):
      yield rand_sched(rng)
    return
  if case['fam'] == 'live':
    evs = case['events']
    for i in range(len(evs)):
      c = copy.deepcopy(case); del c['events'][i]; yield c
    for _ in range(150):
      yield rand_live(rng)
  else:
    ops = case['ops']
    for i in range(len(ops)):
      yield own_case(case['nworkers'], case['pw'], [o for j, o in enumerate(ops) if j != i])
    for _ in range(150):
      yield rand_own(rng)


def shrink_sched(case, fails):
  cur = case
  changed = True
  while changed:
    changed = False
    for t in range(len(cur['threads']) - 1, -1, -1):
      cands = []
      if len(cur['threads']) > 1:
        c = copy.deepcopy(cur); del c['threads'][t]; cands.append(c)
      for j in range(len(cur['threads'][t]['ops']) - 1, -1, -1):
        if len(cur['threads'][t]['ops']) > 1:
          c = copy.deepcopy(cur); del c['threads'][t]['ops'][j]; cands.append(c)
      for c in cands:
        if c['sched']['kind'] == 'replay':
          continue
        if fails(c):
          cur, changed = c, True
          break
      if changed:
        break
  return cur


def shrink(case, fails):
  if case['fam'] in ('sched', 'schedrun', 'schedc', 'scheda'):
    return shrink_sched(case, fails)
  cur = case
  key = 'events' if case['fam'] == 'live' else 'ops'
  changed = True
  while changed:
    changed = False
    for i in range(len(cur[key])):
      items = [x for j, x in enumerate(cur[key]) if j != i]
      c = dict(cur, events=items) if key == 'events' else own_case(cur['nworkers'], cur['pw'], items)
      if fails(c):
        cur, changed = c, True
        break
  return cur


# ----------------------------------------------------------------------------- extra stages

EXPLORE = [
    # (name, nworkers, pw, usable, threads, expect_clean)
    ('call_and_wait || run', 2, [[0, 1], [0, 1]], [True, True],
     [[dict(op='call_and_wait', p=0)], [dict(op='run', p=1, tries=1)]], True),
    ('as_completed(body) || release_all+acquire', 2, [[0, 1], [0, 1]], [True, False],
     [[dict(op='as_completed', p=0, body=[dict(next=[0, 1]), dict(rel=[1]), dict(next=[1, 0])])],
      [dict(op='release_all', p=1, ws=[]), dict(op='acquire_all', p=1, ws=[1, 0], n=0)]], True),
    ('three pools, one worker', 1, [[0], [0], [0]], [True],
     [[dict(op='run', p=0, tries=2)], [dict(op='call_and_wait', p=1)],
      [dict(op='next_idle', p=2, ws=[0], acq=True), dict(op='release', p=2, w=0, checked=True)]], True),
    ('same pool from two threads + another pool', 2, [[0, 1], [0, 1]], [True, True],
     [[dict(op='acquire_all', p=0, ws=[0, 1], n=0), dict(op='release_all', p=0, ws=[])],
      [dict(op='release_all', p=0, ws=[]), dict(op='next_idle', p=0, ws=[1], acq=True)],
      [dict(op='call_and_wait', p=1)]], True),
    ('UNREPAIRED release_all || acquire (must be caught)', 1, [[0], [0]], [True],
     [[dict(op='release_all_orig', p=0)], [dict(op='acquire_all', p=1, ws=[0], n=1)]], False),
    ('UNREPAIRED unchecked release after run || acquire (must be caught)', 1, [[0], [0]], [True],
     [[dict(op='next_idle', p=0, ws=[0], acq=True), dict(op='release_all', p=0, ws=[]),
       dict(op='release', p=0, w=0, checked=False)],
      [dict(op='acquire_all', p=1, ws=[0], n=1)]], False),
]


COVER_CONFIGS = [
    # small configurations whose LTS is searched breadth-first for a shortest schedule to every program point
    dict(nworkers=1, pw=[[0], [0]], thr=100, now=1000, reg0=['alive'],
         threads=[dict(kind='pool', ops=[dict(op='next_idle', p=0, ws=[0], acq=True), dict(op='release_all', p=0, ws=[])]),
                  dict(kind='pool', ops=[dict(op='acquire_all', p=1, ws=[0], n=0), dict(op='release', p=1, w=0)]),
                  dict(kind='env', ops=[dict(op='die', w=0), dict(op='revive', w=0)])]),
    dict(nworkers=1, pw=[[0], [0]], thr=100, now=1000, reg0=['alive'],
         threads=[dict(kind='pool', ops=[dict(op='call', p=0, w=0), dict(op='idle', p=0), dict(op='next_idle', p=0, ws=[0], acq=False)]),
                  dict(kind='pool', ops=[dict(op='next_idle', p=1, ws=[0], acq=True), dict(op='release', p=0, w=0)]),
                  dict(kind='env', ops=[dict(op='deliver', k=0, fail=False), dict(op='tick', d=200), dict(op='deliver', k=0, fail=True)])]),
    dict(nworkers=2, pw=[[0, 1], [1, 0]], thr=100, now=1000, reg0=['dead', 'alive'],
         threads=[dict(kind='pool', ops=[dict(op='next_idle', p=0, ws=[0, 1], acq=True), dict(op='next_idle', p=0, ws=[0, 1], acq=True)]),
                  dict(kind='env', ops=[dict(op='send', w=0, alive=True), dict(op='send', w=1, alive=False),
                                        dict(op='deliver', k=1, fail=False), dict(op='deliver', k=0, fail=False),
                                        dict(op='deliver', k=0, fail=False), dict(op='deliver', k=0, fail=False)])]),
    # round 6: CourierClient.shutdown racing with is_alive / has_capacity / call of pool threads
    dict(nworkers=1, pw=[[0], [0]], thr=100, now=1000, reg0=['alive'],
         threads=[dict(kind='pool', ops=[dict(op='call', p=0, w=0), dict(op='next_idle', p=0, ws=[0], acq=True)]),
                  dict(kind='env', ops=[dict(op='shutdown', w=0), dict(op='deliver', k=0, fail=False), dict(op='deliver', k=0, fail=False)])]),
    # round 6: composite operations (fam 'schedc'): every program point of the controller
    dict(nworkers=1, pw=[[0], [0]], thr=100, now=1000, reg0=['alive'], mp=[1],
         threads=[dict(kind='pool', ops=[dict(op='run', p=0, task='ok')]),
                  dict(kind='pool', ops=[dict(op='call', p=1, w=0)]),
                  dict(kind='env', ops=[dict(op='die', w=0), dict(op='tick', d=200), dict(op='deliver', k=0, fail=False),
                                        dict(op='deliver', k=0, fail=False)])]),
    dict(nworkers=1, pw=[[0]], thr=100, now=1000, reg0=['dead'], mp=[1],
         threads=[dict(kind='pool', ops=[dict(op='run', p=0, task='raise')]),
                  dict(kind='env', ops=[dict(op='tick', d=200), dict(op='revive', w=0), dict(op='deliver', k=0, fail=False),
                                        dict(op='deliver', k=0, fail=False)])]),
    dict(nworkers=1, pw=[[0], [0]], thr=100, now=1000, reg0=['alive'], mp=[1],
         threads=[dict(kind='pool', ops=[dict(op='next_idle', p=0, ws=[0], acq=True), dict(op='submit', p=0, w=0, task='ok'),
                                         dict(op='release_all', p=0, ws=[])]),
                  dict(kind='pool', ops=[dict(op='call', p=1, w=0)]),
                  dict(kind='env', ops=[dict(op='die', w=0), dict(op='tick', d=200), dict(op='deliver', k=0, fail=False)])]),
    dict(nworkers=2, pw=[[0, 1]], thr=100, now=1000, reg0=['alive', 'alive'], mp=[1, 2],
         threads=[dict(kind='pool', ops=[dict(op='call_and_wait', p=0, task='ok')]),
                  dict(kind='env', ops=[dict(op='deliver', k=0, fail=False), dict(op='deliver', k=0, fail=True)])]),
]


def _is_composite_cfg(cfg):
  return any(o['op'] in lo.COMPOSITE_OPS + ('submit',) for t in cfg['threads'] for o in t['ops'])


def _model_guided_stage(ctx):
  """For each small configuration the driver searches the product LTS breadth-first and returns, per program point,
  a shortest schedule whose last step is taken there; every such schedule is replayed on the REAL code (strict
  replay, then the run is cut) and compared step by step, and the oracle is applied to the real run."""
  limit = 60000 if ctx.quick else 400000
  reqs = [dict(model='owner', mode='xcover', limit=limit, **{k: (v if k != 'threads' else
               [dict(kind=t['kind'], ops=[lo.model_op(o) for o in t['ops']]) for t in v]) for k, v in cfg.items()})
          for cfg in COVER_CONFIGS]
  resps = ctx.lean.ask_many(reqs)
  reached = set()
  for cfg, r in zip(COVER_CONFIGS, resps):
    if 'driver_error' in r:
      ctx.extra_disagreements.append(('xcover', cfg, str(r)))
      continue
    ctx.count('sched_model_guided', 'LTS states searched', r['states'])
    todo = []
    for f in r['found']:
      case = dict(fam='schedc' if _is_composite_cfg(cfg) else 'sched', sched=dict(kind='replay', choices=f['sched']),
                  **copy.deepcopy(cfg))
      todo.append((f['pp'], case, lo.run_real(case)))
    mresps = ctx.lean.ask_many([lo.model_request(case, obs['choices']) for _, case, obs in todo])
    for (pp, case, obs), mr in zip(todo, mresps):
      ctx.extra_evals += 1
      ctx.count('sched_model_guided', 'schedules replayed on the real code')
      m = lo.model_obs(case, mr)
      d = lo.compare(obs, m)
      if d is None and (len(m['pps']) != len(case['sched']['choices']) or m['pps'][-1] != pp):
        d = f'replay did not end at program point {pp}: {m["pps"][-1:]}'
      if d is not None:
        ctx.extra_disagreements.append(('sched-model-guided', case, dict(why=d)))
        continue
      w = oracle_sched(case, obs)
      if w is not None:
        ctx.extra_oracle_failures.append((case, w))
        continue
      reached.add(pp)
      _cover('sched_program_points_model_guided', pp)
  return reached


def extra(ctx):
  reached = _model_guided_stage(ctx)
  for kind, h in _COVER.items():
    ctx.hist[kind] = dict(sorted(h.items()))
  ctx.hist.setdefault('sched_schedules', {})['distinct interleavings (case, schedule)'] = len(_SCHEDULES)
  seen = set(_COVER.get('sched_program_points', {})) | reached
  missing_pp = [pp for pp in PROGRAM_POINTS if pp not in seen]
  ctx.notes.append(f'sched: {len(seen & set(PROGRAM_POINTS))}/{len(PROGRAM_POINTS)} program points of the product LTS executed on the real '
                   f'code under the scheduler ({len(reached)} by the model-guided stage); {len(_SCHEDULES)} distinct interleavings')
  if missing_pp and _COVER.get('sched_program_points') and not ctx.extra_disagreements and not ctx.extra_oracle_failures:
    # (a model-guided replay that disagrees or fails the oracle does not count as reached: that is a verdict, reported below)
    from harness.core import InfraError
    raise InfraError(f'C20 sched family missed program points {missing_pp}')
  import os
  fams = os.environ.get('VERIF_C20_FAMILIES')
  # 'a.acq>workers' (nothing unused: the release is skipped) exists only in the guarded variant of as_completed (lo.AC_FIXED)
  missing_ac = [pp for pp in AC_POINTS if pp not in _COVER.get('sched_program_points', {})
                and (lo.AC_FIXED or pp != 'a.acq>workers')]
  ctx.notes.append(f'scheda: {len(AC_POINTS) - len(missing_ac)}/{len(AC_POINTS)} promised program points of the as_completed controller executed '
                   f'on the real code; all a.* points seen: {sorted(k for k in _COVER.get("sched_program_points", {}) if k.startswith("a."))}')
  # the random schedules reach single rare points (e.g. 'a.sub>submit2') only for most seeds: a few missing points are a note
  # in the evidence, a gross loss of coverage (more than 4 of the promised points) is an infrastructure failure
  if (len(missing_ac) > 4 and (not fams or 'scheda' in fams.split(',')) and not _VERDICTS['n'] and not ctx.extra_disagreements
      and not ctx.extra_oracle_failures):
    from harness.core import InfraError
    raise InfraError(f'C20 scheda family missed program points of the as_completed controller {missing_ac}')
  missing = [b for b in LIVE_BRANCHES if b not in _COVER.get('live_model_branches', {})]
  if missing and not os.environ.get('VERIF_C20_FAMILIES'):
    from harness.core import InfraError
    raise InfraError(f'C20 generator missed model branches {missing}')
  # 1. exhaustive interleavings of small LTS configurations (test of the model, not a proof)
  reqs = [dict(model='owner', mode='explore', nworkers=nw, pw=pw, usable=u, threads=th)
          for _, nw, pw, u, th, _ in EXPLORE]
  for (name, *_rest, clean), r in zip(EXPLORE, ctx.lean.ask_many(reqs)):
    ctx.extra_evals += r['states']
    ctx.count('explore_states', name, r['states'])
    bad = r['bad_owner'] + r['steals'] + r['bad_exit'] + r['deadlocks']
    if clean and bad:
      ctx.extra_disagreements.append(('explore', dict(config=name), dict(why='LTS exploration found a violation', **r)))
    if not clean and r['steals'] == 0:
      ctx.extra_disagreements.append(('explore', dict(config=name),
                                      dict(why='exploration no longer finds the steal of the unrepaired operations', **r)))
  # 2. racy orders by hand on the real objects, 3. real-thread stress (oracle only)
  for name, fn in (('F14 racy order by hand', hand_f14), ('F13 racy order by hand', hand_f13),
                   ('thread stress', lambda: stress(ctx.seed, 4000 if ctx.quick else 40000))):
    try:
      what = fn()
    except Exception as e:  # pylint: disable=broad-except
      what = f'{name}: harness error {type(e).__name__}: {e}'
    ctx.extra_evals += 1
    if what:
      ctx.extra_oracle_failures.append((dict(fam='hand', name=name), what))


def hand_f14():
  """Pool A's release_all, decomposed as the unchanged code did (check, then release), with pool B
  acquiring in between: B must still own the worker afterwards."""
  from harness.lib_courier_env import CourierEnv
  env = CourierEnv(mode='inline')
  try:
    env.server('w0')
    w = env.courier_worker.Worker(env.addr('w0'), heartbeat_threshold_secs=10**9)
    a, b = env.courier_worker.WorkerPool([w]), env.courier_worker.WorkerPool([w])
    checked = w.is_available(a)          # A: the test release_all makes before releasing
    if not checked:
      return 'fresh worker is not available'
    if not w.acquire_by(b):              # B acquires between A's test and A's release
      return 'pool B could not acquire a free worker'
    try:
      w.release(a)                       # A: the release that follows the test (owner-checked since the repair)
    except TypeError:
      w.release()                        # unrepaired tree: release_all called the unconditional release()
    if not w.is_locked(b):
      return 'F14: pool A released a worker that pool B acquired between A\'s availability test and A\'s release'
    a.release_all()
    if not w.is_locked(b):
      return 'F14: release_all of pool A released a worker owned by pool B'
    b.release_all()
    return None if not w.is_locked() else 'pool B could not release its own worker'
  finally:
    env.close()


def hand_f13():
  """Two heartbeat handlers: the one that read the clock earlier commits last."""
  from harness.lib_courier_env import CourierEnv
  env = CourierEnv(mode='manual', start=1000.0)
  try:
    reg = env.courier_utils.worker_registry()
    a = env.addr('x')
    reg.register(a, 1020.0)
    reg.register(a, 1010.0)
    return None if reg.get(a) == 1020.0 else f'F13: heartbeat moved backwards to {reg.get(a)}'
  finally:
    env.close()


def stress(seed, iters):
  """Real threads, real locks, no scheduler: each thread repeatedly acquires for its pool, checks that
  what it acquired stays its own until it releases (no other pool can take or free it)."""
  import sys
  import threading
  from harness.lib_courier_env import CourierEnv
  env = CourierEnv(mode='inline')
  old = sys.getswitchinterval()
  try:
    for i in range(2):
      env.server(f'w{i}')
    ws = [env.courier_worker.Worker(env.addr(f'w{i}'), heartbeat_threshold_secs=10**9) for i in range(2)]
    pools = [env.courier_worker.WorkerPool(ws) for _ in range(3)]
    errors = []
    sys.setswitchinterval(1e-6)

    def body(pool):
      for _ in range(iters):
        got = pool._acquire_all()  # pylint: disable=protected-access
        for _ in range(3):
          for w in got:
            if not w.is_locked(pool):
              errors.append('a worker acquired by a pool was taken or freed by another pool')
              return
        for other in pools:
          if other is not pool and got:
            other.release_all(got)       # other pools try to release what they do not own
        for w in got:
          if not w.is_locked(pool):
            errors.append('release_all of another pool freed an owned worker')
            return
        pool.release_all()
        if any(w.is_locked(pool) for w in ws):
          errors.append('pool still owns a worker after release_all')
          return

    ts = [threading.Thread(target=body, args=(p,)) for p in pools]
    for t in ts:
      t.start()
    for t in ts:
      t.join()
    return errors[0] if errors else None
  finally:
    sys.setswitchinterval(old)
    env.close()
