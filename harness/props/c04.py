"""C04 — iterator queues deliver every element exactly once and always terminate.

Real code: iter_utils.IteratorQueue (put/get/get_batch/enqueue_from_iterator) driven through
chosen thread schedules by the deterministic scheduler (harness/sched/shim.py); model: the LTS
lean/MlModel/Model/Queue.lean; theorems: lean/MlModel/Properties/C04.lean.
"""
from harness import lib_queue as lq
from harness import lib_queue_backends as lqb

PID = 'C04'
TITLE = 'Iterator queues deliver every element exactly once and always terminate'
LEAN_MODULES = ['MlModel.Properties.C04', 'MlModel.Properties.C04Live', 'MlModel.Properties.C04Backend', 'MlModel.Witness.C04',
                'MlModel.Witness.C04Backend']
TRUSTED = [
    'scheduler shim (harness/sched/shim.py) implements CPython Lock/RLock/Condition(FIFO notify, no spurious wake-up)/'
    'queue.Queue/SimpleQueue semantics; one atomic step = one synchronisation operation, the thread-local code after it '
    '(incl. GIL-atomic reads/writes of plain shared attributes) is fused into the step, in the model and under the shim alike',
    'pre-emption inside a C-level queue operation or between two plain attribute accesses is not explored',
    'queue backends: Model/QueueBackend.lean writes the three operations of queue.Queue / queue.SimpleQueue / asyncio.Queue as CPython '
    'documents them (validated three-way each run on random operation sequences: real object = shim = Lean instance); the exception '
    'class lattice is flat below Exception (true of the four queue classes in CPython 3.12); translate/queue_exc.py (clause order, '
    'classes named, role of a clause decided from what its body does) is validated each run against eval + issubclass on the real module',
    'async API: the deterministic event loop (harness/lib_queue_backends.DetLoop) replaces the selector wait by a scheduler yield '
    'point and run_in_executor threads by managed threads; asyncio task scheduling inside the loop is CPython\'s (FIFO ready queue)',
]
ASSUMPTIONS = ['producer count declared up front (max_enqueuer = number of producers), as piter_multiplex does; '
               'undeclared late-starting producers are the known input class F22']
RULE = ('configurations: 1-3 producers x 1-3 consumers (get loop / get_batch loop with max in {1,2,3,1024}, blocking or not) x '
        'capacity in {0,1,2,3} x sources of 0-3 (quick) / 0-5 (thorough) elements; schedules: seeded uniform-random and PCT-style '
        'priority schedules chosen on the REAL code, then replayed choice by choice on the Lean LTS comparing every executed '
        'operation label, the set of enabled choices before every step, and the final per-thread outcomes; '
        'non-trivial = at least 2 threads took turns at least 10 times in the schedule. '
        'Model-guided stage: for 4 fixed small configurations, seeded random walks on the Lean LTS are reduced (greedy cover) '
        'to schedules that together execute every program point (Pc constructor) reachable without failure/stop/timeout; '
        'each is replayed on the REAL code, compared as above and checked by the oracle; histograms pc / pc_unreached. '
        'Round 10 (queue BACKENDS, harness/lib_queue_backends.py): the same schedule-replay family over every buffer the constructors '
        'accept -- IteratorQueue(n) default, IteratorQueue(queue.Queue(n) | queue.SimpleQueue() | asyncio.Queue(n) | duck object with '
        'exactly put_nowait/get_nowait/empty raising queue.* or asyncio.Queue* classes), IteratorQueue.from_queue(asyncio.Queue(n)), '
        'AsyncIteratorQueue(n) -- bounded and unbounded, 12 cases per arm (quick): a quarter producers-first (phased schedule: the '
        'producers run until parked on the full buffer), a quarter consumers-first, the rest random / PCT; the shims raise the REAL '
        'exception classes of their backend; 4 of the 8 model-guided configurations run on non-default backends; coverage enforced '
        "(exit 2) per backend x bounded/unbounded x API: the arm ran, a consumer met the backend's Empty and parked, and (bounded) a "
        "producer met the backend's Full and parked -- never masking a verdict. Async API: AsyncIteratorQueue(int | queue.Queue | "
        'queue.SimpleQueue | asyncio.Queue | duck) with one producer (async_enqueue_from_iterator or sync) and 1-2 consumers '
        '(`async for`, anext, async_get, async_get_batch, sync get / get_batch) on a deterministic event loop (SelectorEventLoop '
        'subclass: virtual clock, the selector is a scheduler yield point enabled when another thread handed the loop a callback, '
        'run_in_executor jobs are managed threads); every operation is attributed to its LOGICAL thread (asyncio task / its executor '
        'jobs) and the projection of the run onto the LTS alphabet must be an execution of the LTS (every choice enabled, same labels, '
        'same per-thread outcomes; enabled SETS are not compared for async runs). Backend contract: 150 random put_nowait / '
        'get_nowait / empty sequences on the real CPython object, its shim and the Lean Backend instance (three-way, exception '
        'classes included) + an independent FIFO-with-capacity oracle. Real un-shimmed backends under OS threads (8 configurations, '
        'producers first, C04 oracle). Table check: every `except` expression of put / get / get_batch / get_nowait evaluated in the '
        "module's namespace and dispatched with issubclass on real classes vs `dispatch` over Generated/QueueExc.lean; "
        '_default_queue(n) for n<4 vs the generated defaults')


def gen_cases(ctx):
  yield from ctx.corpus()
  rng = ctx.rng
  n = 500 if ctx.quick else 12000
  for i in range(n):
    nprod, ncons = rng.randrange(1, 4), rng.randrange(1, 4)
    declared = rng.random() < 0.93 or nprod == 1
    case = dict(cap=rng.choice([0, 1, 1, 2, 3]), max_enq=nprod if declared else 0, timeout=False,
                threads=lq.gen_threads(rng, nprod, ncons, 3 if ctx.quick else 5),
                sched=dict(kind=rng.choice(['random', 'pct']), seed=rng.randrange(10**9),
                           changes=rng.randrange(1, 6), horizon=rng.choice([50, 150, 400])))
    ctx.count('cap', case['cap'])
    ctx.count('threads', f'{nprod}p{ncons}c')
    yield case
  # round 10: the same family over every BACKEND the constructors accept, bounded and unbounded, producers ahead
  for k in range(12 if ctx.quick else 300):
    for b, bd in lqb.sync_arm_list():
      case = lqb.gen_backend_case(rng, k, b, bd, 3 if ctx.quick else 5)
      ctx.count('backend_cases', lqb.arm(case))
      yield case
  # the async API of AsyncIteratorQueue (async_enqueue_from_iterator, `async for`, anext, async_get, async_get_batch) on a
  # deterministic event loop, over every buffer its constructor accepts, mixed with sync threads
  for k in range(8 if ctx.quick else 200):
    for ab, bds in lqb.ASYNC_BUFFERS.items():
      for bd in bds:
        case = lqb.gen_async_case(rng, k, ab, bd, 3 if ctx.quick else 5)
        ctx.count('backend_cases', lqb.async_arm(case))
        yield case
  # the backend CONTRACT: the same operation sequences on the real CPython object, its scheduler shim, the Lean instance
  for case in lqb.contract_cases(rng, 150 if ctx.quick else 3000):
    yield dict(case, kind='contract')
  # the real, un-shimmed backends under OS threads (producers first)
  for _ in range(1 if ctx.quick else 10):
    yield from lqb.real_thread_cases(rng)


def _cfg(cap, threads, timeout=False):
  return dict(cap=cap, max_enq=sum(1 for t in threads if t['kind'] == 'producer'), timeout=timeout, threads=threads)


_P = lambda src, ret=900: dict(kind='producer', src=src, ret=ret)
_G = dict(kind='get')
_B = lambda m, block: dict(kind='batch', max=m, block=block)

# Model-guided stage: fixed small configurations of the C04 setting (no failing item, no stop request, no
# timeout): producers + get / get_batch (blocking and not) consumers, capacity 0 (unbounded), 1 and 2.
GUIDED_CONFIGS = [
    _cfg(1, [_P([0, 1, 2]), _P([100], 901), _G, _B(2, True)]),
    _cfg(0, [_P([0, 1, 2]), _B(1024, False), _G]),
    _cfg(2, [_P([0, 1]), _P([100, 101], 901), _B(2, False), _B(3, True)]),
    _cfg(1, [_P([]), _G]),
    # round 10: the same LTS walks replayed on the other backends (the LTS is backend-independent)
    dict(_cfg(1, [_P([0, 1, 2]), _P([100], 901), _G, _B(2, True)]), backend='asyncio.Queue'),
    dict(_cfg(2, [_P([0, 1, 2, 3]), _B(2, False), _G]), backend='AsyncIteratorQueue', max_enq=0),
    dict(_cfg(0, [_P([0, 1]), _P([100], 901), _B(3, True), _G]), backend='queue.SimpleQueue'),
    dict(_cfg(1, [_P([0, 1, 2]), _G, _B(2, False)]), backend='duck_async'),
]
# Program points of the LTS that no C04 configuration can execute, and why (they are C05's).
_NO_TIMEOUT = 'no timeout configured: a parked wait has no timeout alternative'
_NO_STOPPER = 'maybe_stop is never called'
GUIDED_UNREACHABLE = {
    'gWake:timeout': _NO_TIMEOUT, 'bWake:timeout': _NO_TIMEOUT, 'pWake:timeout': _NO_TIMEOUT,
    'pRaiseT': 'only entered from pWake:timeout',
    'pExit': 'put sees enqueue_done only after a failure / stop request / timeout: without them the putting '
             'producer itself has not stopped yet (stop < start)',
    **{m: _NO_STOPPER for m in ('mAcq', 'mRel', 'mE0', 'mE1', 'mE2', 'mD0', 'mD1', 'mD2')},
}


def extra(ctx):
  """Model-guided stage: schedules chosen by random walks on the Lean LTS so that together they execute every
  program point reachable in the C04 setting, replayed on the real code and compared step by step."""
  lq.model_guided(ctx, GUIDED_CONFIGS, ctx.seed, unreachable=GUIDED_UNREACHABLE, oracle=oracle)
  import os
  from harness.core import REPO
  for why in lqb.table_check(ctx, os.path.join(REPO, 'ml_metrics', '_src', 'utils', 'iter_utils.py')):
    ctx.extra_disagreements.append(('backend_table', None, dict(why=why)))
  lqb.enforce(ctx, extra_required=lqb.async_required() + lqb.CONTRACT_REQUIRED +
              ['real_threads:' + c[0] for c in lqb.REAL_THREAD_CONFIGS])


def run_impl(case):
  return lqb.run_impl(case, lq.run_impl)


def model_requests_obs(case, obs):
  k = lqb.kind(case)
  if k == 'contract':
    return [lqb.contract_request(case)]
  if k == 'real_threads':
    return []
  if k == 'async':
    return [lqb.async_model_request(case, obs)]
  return lq.model_requests_obs(case, obs)


model_requests = None


def model_obs(case, resps):
  k = lqb.kind(case)
  if k == 'schedule':
    return lq.model_obs(case, resps)
  return dict(kind=k, resp=resps[0] if resps else None)


def compare(obs, m):
  k = m.get('kind') if isinstance(m, dict) else None
  if k == 'contract':
    d = lqb.contract_compare(obs, m['resp'])
  elif k == 'real_threads':
    d = None
  elif k == 'async':
    d = lqb.async_compare(obs, m['resp'])
  else:
    d = lq.compare(obs, m)
  if d is not None:
    lqb.VERDICT['disagreement'] += 1
  if isinstance(obs, dict) and obs.get('oracle_new_failure'):
    lqb.VERDICT['oracle failure outside the known input classes'] += 1
  return d


def oracle(case, obs):
  what = _oracle(case, obs)
  if what is not None and finding(case, what) is None:
    obs['oracle_new_failure'] = True      # travels to the main process with the observation (see lqb.enforce)
  return what


def _oracle(case, obs):
  k = lqb.kind(case)
  if k == 'contract':
    return lqb.contract_oracle(case, obs)
  if k == 'real_threads':
    return lqb.real_threads_oracle(case, obs)
  if obs['outcome'] != 'done':
    return (f"{obs['outcome']}: threads blocked forever {obs['blocked']} after {len(obs['choices'])} steps "
            f'(no failure, no stop request)')
  w = lq.safety_oracle(case, obs)
  if w:
    return w
  vals = lq.all_values(case)
  got = sorted(v for i, _ in lq.consumers(case) for v in obs['threads'][i]['received'])
  if got != vals:
    return f'delivered {got} != produced {vals}'
  rets = sorted(p['ret'] for _, p in lq.producers(case))
  for i, _ in lq.consumers(case):
    o = obs['threads'][i]['outcome']
    if not o or o.get('raise') != 'StopIteration':
      return f'consumer {i} ended with {o}, expected StopIteration'
    if sorted(o.get('args', [])) != rets:
      return f"consumer {i} end-of-stream carries {o.get('args')} != all return values {rets}"
  for i, _ in lq.producers(case):
    if obs['threads'][i]['outcome'] is not None:
      return f"producer {i} raised {obs['threads'][i]['outcome']}"
  return None


def nontrivial(case, obs):
  if lqb.kind(case) != 'schedule':
    lqb.note_kind(case, obs)
    if lqb.kind(case) != 'async':
      return lqb.kind(case) == 'real_threads' or any(r[0] == 'raise' for r in obs['real'])
  else:
    lqb.note_run(case, obs)
  ch = [c[0] for c in obs['choices']]
  return sum(1 for a, b in zip(ch, ch[1:]) if a != b) >= 10


def finding(case, what):
  if lqb.kind(case) in ('contract', 'real_threads'):
    return None
  if case['max_enq'] == 0 and len(lq.producers(case)) > 1:
    return 'F22'
  return None


def neighbours(case, rng):
  import copy
  if lqb.kind(case) != 'schedule':
    # the table / contract / async ties have no schedule to re-draw: look for a failing input among the backend cases
    for k in range(300):
      b, bd = rng.choice(lqb.sync_arm_list())
      yield lqb.gen_backend_case(rng, k, b, bd, 4)
    return
  for k in range(300):
    c = copy.deepcopy(case)
    c['sched'] = dict(kind=rng.choice(['random', 'pct']), seed=rng.randrange(10**9), changes=rng.randrange(1, 6),
                      horizon=rng.choice([50, 150, 400]))
    if k % 3 == 0:
      c['cap'] = rng.choice([0, 1, 2])
    yield c


shrink = lq.shrink_schedule_case
