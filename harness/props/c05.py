"""C05 — failures and stop requests propagate through queues without hanging.

Same machinery as C04 (harness/lib_queue.py) with three more event kinds: a producer's source
raises at any position, an external thread calls maybe_stop(exc?) at any point, and — with a
timeout configured — any parked wait may time out (a scheduler choice).
"""
from harness import lib_queue as lq

PID = 'C05'
TITLE = 'Failures and stop requests propagate through queues without hanging'
LEAN_MODULES = ['MlModel.Properties.C05', 'MlModel.Properties.C05Live', 'MlModel.Witness.C05']
TRUSTED = list(__import__('harness.props.c04', fromlist=['TRUSTED']).TRUSTED)
ASSUMPTIONS = ['a timeout is modelled as a scheduler choice available whenever a thread is parked with a timeout configured']
RULE = ('as C04 plus: each producer source fails with p=0.4 at a random position; an extra thread calls maybe_stop() or '
        'maybe_stop(ValueError) (each p=0.25); timeout configured with p=0.3 (timeout choices drawn with weight 0.1); '
        'non-trivial = a fault event actually happened in the run (a consumer or producer ended with an error, or a stop '
        'request was executed) and threads took turns at least 10 times. '
        'Model-guided stage: for 5 fixed small configurations (failing item; stop request without / with an exception; '
        'timeout; all together), seeded random walks on the Lean LTS are reduced (greedy cover) to schedules that together '
        'execute every program point (Pc constructor, timeout alternatives included) of the model; each is replayed on the '
        'REAL code, compared as above and checked by the oracle; histograms pc / pc_unreached')


def gen_cases(ctx):
  yield from ctx.corpus()
  rng = ctx.rng
  n = 500 if ctx.quick else 12000
  for i in range(n):
    nprod, ncons = rng.randrange(1, 4), rng.randrange(1, 3)
    stopper = rng.choice([None, None, dict(kind='stopper'), dict(kind='stopper', exc='ValueError')])
    mode = rng.choice(['fail', 'fail', 'stop', 'timeout', 'mixed'])
    fail_p = 0.6 if mode in ('fail', 'mixed') else 0.0
    if mode not in ('stop', 'mixed'):
      stopper = None
    elif stopper is None:
      stopper = dict(kind='stopper')
    timeout = mode == 'timeout' or (mode == 'mixed' and rng.random() < 0.5)
    case = dict(cap=rng.choice([0, 1, 1, 2, 3]), max_enq=nprod, timeout=timeout, mode=mode,
                threads=lq.gen_threads(rng, nprod, ncons, 3 if ctx.quick else 5, fail_p=fail_p, stopper=stopper),
                sched=dict(kind=rng.choice(['random', 'pct']), seed=rng.randrange(10**9), tw=0.1,
                           changes=rng.randrange(1, 6), horizon=rng.choice([50, 150, 400])))
    ctx.count('mode', mode)
    yield case
  # many producers parked on a full queue when another one fails (needs every parked producer to be woken)
  for i in range(120 if ctx.quick else 3000):
    yield blocked_producers_case(rng)
    ctx.count('mode', 'blocked_producers')


def blocked_producers_case(rng):
  nprod = rng.randrange(3, 5)
  failer = rng.randrange(nprod)
  ths = []
  for p in range(nprod):
    n = rng.randrange(2, 6)
    src = [p * 100 + k for k in range(n)]
    if p == failer:
      src.insert(rng.randrange(1, n + 1), 'fail')
    ths.append(dict(kind='producer', src=src, ret=900 + p))
  ths.append(dict(kind='get') if rng.random() < 0.7 else dict(kind='batch', max=rng.choice([1, 2]), block=rng.random() < 0.5))
  return dict(cap=rng.choice([1, 1, 2]), max_enq=nprod, timeout=False, mode='blocked_producers', threads=ths,
              sched=dict(kind=rng.choice(['random', 'pct']), seed=rng.randrange(10**9), tw=0.1,
                         changes=rng.randrange(1, 6), horizon=rng.choice([50, 150, 400])))


_c04 = __import__('harness.props.c04', fromlist=['_cfg'])
_cfg, _P, _G, _B = _c04._cfg, _c04._P, _c04._G, _c04._B
_S = lambda exc=None: dict(kind='stopper', exc=exc) if exc else dict(kind='stopper')

# Model-guided stage: fixed small configurations with the C05 fault events: a failing source item, a stop
# request without / with an exception, timeout configured, and all of them together.
GUIDED_CONFIGS = [
    _cfg(1, [_P([0, 'fail', 1]), _P([100, 101], 901), _G, _B(2, True)]),
    _cfg(1, [_P([0, 1, 2]), _G, _S()]),
    _cfg(0, [_P([0, 1]), _P([100], 901), _B(2, True), _S('ValueError')]),
    _cfg(1, [_P([0, 1, 2]), _G, _B(2, True)], timeout=True),
    _cfg(2, [_P([0, 1, 'fail']), _P([100, 101, 102], 901), _B(3, False), _S()], timeout=True),
]


def extra(ctx):
  """Model-guided stage: schedules chosen by random walks on the Lean LTS so that together they execute EVERY
  program point of the model (timeout alternatives included), replayed on the real code and compared step by step."""
  lq.model_guided(ctx, GUIDED_CONFIGS, ctx.seed, unreachable={}, oracle=oracle)


run_impl = lq.run_impl
model_requests_obs = lq.model_requests_obs
model_requests = None
model_obs = lq.model_obs
compare = lq.compare


def oracle(case, obs):
  if obs['outcome'] != 'done':
    return f"{obs['outcome']}: threads blocked forever {obs['blocked']} after {len(obs['choices'])} steps"
  w = lq.safety_oracle(case, obs)
  if w:
    return w
  th = obs['threads']
  prod_failed = [i for i, _ in lq.producers(case) if th[i]['outcome'] and th[i]['outcome']['raise'] == 'ValueError']
  stop = [p for p in case['threads'] if p['kind'] == 'stopper']
  if prod_failed and not stop and not case['timeout']:
    # every consumer observes that exception, never a clean end-of-stream
    for i, _ in lq.consumers(case):
      o = th[i]['outcome']
      if not o or o['raise'] != 'ValueError':
        return f'producer(s) {prod_failed} failed but consumer {i} ended with {o}'
  if not prod_failed and not stop and not case['timeout']:
    # a failing item that was never reached: plain C04 behaviour is checked there
    pass
  if stop and stop[0].get('exc') and not case['timeout'] and not prod_failed:
    rets = sorted(p['ret'] for _, p in lq.producers(case))
    for i, _ in lq.consumers(case):
      o = th[i]['outcome']
      complete = bool(o) and o['raise'] == 'StopIteration' and sorted(o.get('args', [])) == rets
      # a consumer may already have seen the complete stream end before the stop request arrived
      if not o or (o['raise'] != 'ValueError' and not complete):
        return f'stop request with an exception, but consumer {i} ended with {o}'
  if not case['timeout']:
    for i, _ in list(lq.consumers(case)) + list(lq.producers(case)):
      o = th[i]['outcome']
      if o and o['raise'] == 'TimeoutError':
        return f'thread {i} raised TimeoutError although no timeout is configured'
  return None


def nontrivial(case, obs):
  ch = [c[0] for c in obs['choices']]
  turns = sum(1 for a, b in zip(ch, ch[1:]) if a != b)
  fault = any(t['outcome'] and t['outcome']['raise'] != 'StopIteration' for t in obs['threads']) or \
      any(p['kind'] == 'stopper' for p in case['threads'])
  return turns >= 10 and fault


def finding(case, what):
  return None


_nb04 = __import__('harness.props.c04', fromlist=['neighbours']).neighbours


def neighbours(case, rng):
  for k, c in enumerate(_nb04(case, rng)):
    yield c
    if k % 2 == 0:
      yield blocked_producers_case(rng)

shrink = lq.shrink_schedule_case
