"""C05 — failures and stop requests propagate through queues without hanging.

Same machinery as C04 (harness/lib_queue.py) with three more event kinds: a producer's source
raises at any position, an external thread calls maybe_stop(exc?) at any point, and — with a
timeout configured — any parked wait may time out (a scheduler choice).
"""
from harness import lib_queue as lq
from harness import lib_queue_backends as lqb

PID = 'C05'
TITLE = 'Failures and stop requests propagate through queues without hanging'
LEAN_MODULES = ['MlModel.Properties.C05', 'MlModel.Properties.C05Live', 'MlModel.Properties.C05Observe', 'MlModel.Properties.C05Backend',
                'MlModel.Witness.C05']
TRUSTED = list(__import__('harness.props.c04', fromlist=['TRUSTED']).TRUSTED)
ASSUMPTIONS = ['a timeout is modelled as a scheduler choice available whenever a thread is parked with a timeout configured']
RULE8 = (' Round 8 (observers after the fact, non-Exception faults): every failing item raises ValueError or, p=0.35, one of '
         'KeyboardInterrupt / SystemExit / GeneratorExit / asyncio.CancelledError (BaseExceptions that are not Exceptions; the '
         'model has one failing item, the class matters to the oracle: every consumer has to end with THAT exception object); '
         '260 (quick) directed late-observer cases with a phased schedule: the fault events happen in a chosen order (producer fails, '
         'then a clean stop by another thread; clean stop while the producer is inside next(), then its failure; stop with an '
         'exception; put / get timeouts) and only then one or two further consumers (get loop / get_batch loop) start; after EVERY run '
         'that ended, the main thread probes the queue again through get / get_nowait / get_batch / iteration (q.exception must still '
         'be set, every probe has to end with the failure, never StopIteration / Empty / [] / a wait); the observed event orders are '
         'counted (histogram observer) and the promised ones enforced (exit 2). Round 10 (queue BACKENDS): the fault events (failing '
         'item / clean stop / stop with an exception / timeout, rotating) over every buffer the constructors accept (see C04: default, '
         'queue.Queue, queue.SimpleQueue, asyncio.Queue, from_queue, AsyncIteratorQueue, duck buffers; bounded and unbounded; producers-first '
         '/ consumers-first / random / PCT), 16 cases per arm (quick), coverage per arm enforced (ran, Empty met, bounded: Full met); 3 more '
         'model-guided configurations on asyncio.Queue / AsyncIteratorQueue / SimpleQueue; async API under faults: an async producer '
         '(async_enqueue_from_iterator on the deterministic event loop) whose source raises or that is stopped by maybe_stop() / '
         'maybe_stop(exc) from a thread, with async and sync consumers, projected onto the LTS (the loop-head read of enqueue_done happens '
         'one await point later than the LTS fuses it: a producer the LTS leaves in front of its next pull while the real one has seen '
         'the stop and returned is accepted and counted, histogram backend / async:late_loop_check); new oracle clause: once a stop request '
         'or a failing producer is complete every other producer pulls at most one more element from its source')
RULE = ('as C04 plus: each producer source fails with p=0.4 at a random position; an extra thread calls maybe_stop() or '
        'maybe_stop(ValueError) (each p=0.25); timeout configured with p=0.3 (timeout choices drawn with weight 0.1); '
        'non-trivial = a fault event actually happened in the run (a consumer or producer ended with an error, or a stop '
        'request was executed) and threads took turns at least 10 times. '
        'Model-guided stage: for 5 fixed small configurations (failing item; stop request without / with an exception; '
        'timeout; all together), seeded random walks on the Lean LTS are reduced (greedy cover) to schedules that together '
        'execute every program point (Pc constructor, timeout alternatives included) of the model; each is replayed on the '
        'REAL code, compared as above and checked by the oracle; histograms pc / pc_unreached.' + RULE8)


def gen_cases(ctx):
  yield from ctx.corpus()
  rng = ctx.rng
  n = 500 if ctx.quick else 12000
  for i in range(n):
    nprod, ncons = rng.randrange(1, 4), rng.randrange(1, 3)
    stopper = rng.choice([None, None, dict(kind='stopper'), dict(kind='stopper', exc='ValueError')])
    mode = rng.choice(['fail', 'fail', 'stop', 'timeout', 'mixed'])
    fail_p = 0.6 if mode in ('fail', 'mixed') else 0.0
    if mode not in ('stop', 'mixed'):
      stopper = None
    elif stopper is None:
      stopper = dict(kind='stopper')
    timeout = mode == 'timeout' or (mode == 'mixed' and rng.random() < 0.5)
    case = dict(cap=rng.choice([0, 1, 1, 2, 3]), max_enq=nprod, timeout=timeout, mode=mode,
                threads=lq.gen_threads(rng, nprod, ncons, 3 if ctx.quick else 5, fail_p=fail_p, stopper=stopper),
                sched=dict(kind=rng.choice(['random', 'pct']), seed=rng.randrange(10**9), tw=0.1,
                           changes=rng.randrange(1, 6), horizon=rng.choice([50, 150, 400])))
    ctx.count('mode', mode)
    yield with_faults(rng, case, ctx)
  for i in range(260 if ctx.quick else 6000):
    yield with_faults(rng, late_observer_case(rng, i), ctx)
    ctx.count('mode', 'late_observer')
  # many producers parked on a full queue when another one fails (needs every parked producer to be woken)
  for i in range(120 if ctx.quick else 3000):
    yield with_faults(rng, blocked_producers_case(rng), ctx)
    ctx.count('mode', 'blocked_producers')
  # round 10: the fault events over every BACKEND the constructors accept (bounded and unbounded; a quarter of the
  # schedules producers-first, a quarter consumers-first): a failing item / a stop request without / with an exception /
  # a timeout, rotating
  for k in range(16 if ctx.quick else 320):
    for j, (b, bd) in enumerate(lqb.sync_arm_list()):
      ev = ['fail', 'stop', 'excstop', 'timeout'][(k // 4 + j) % 4]
      case = lqb.gen_backend_case(
          rng, k, b, bd, 3 if ctx.quick else 5, fail_p=0.8 if ev == 'fail' else 0.0, timeout=ev == 'timeout',
          stopper=dict(kind='stopper') if ev == 'stop' else dict(kind='stopper', exc='ValueError') if ev == 'excstop' else None)
      case['mode'] = 'backend:' + ev
      ctx.count('mode', case['mode'])
      ctx.count('backend_cases', lqb.arm(case))
      yield with_faults(rng, case, ctx)
  # the async API under the fault events: an async producer (async_enqueue_from_iterator on a deterministic event loop)
  # whose source raises / that is stopped by maybe_stop() / maybe_stop(exc) from a thread; async and sync consumers
  for k in range(9 if ctx.quick else 180):
    for ab, bds in lqb.ASYNC_BUFFERS.items():
      for bd in bds:
        case = lqb.gen_async_fault_case(rng, k, ab, bd, 3 if ctx.quick else 5)
        case['mode'] = 'async:' + case['event']
        ctx.count('mode', case['mode'])
        yield case


POST = ['get', 'get_nowait', 'get_batch', 'iter']
BASE_FAULTS = [k for k in lq.FAULTS if k != 'fail']


def with_faults(rng, case, ctx=None):
  """fault alphabet: a failing item raises ValueError or a BaseException that is not an Exception; and every run is
  followed by the after-the-fact probes (in a random order)"""
  for p in case['threads']:
    if p['kind'] == 'producer':
      for k, v in enumerate(p['src']):
        if v == 'fail' and rng.random() < 0.35:
          p['src'][k] = rng.choice(BASE_FAULTS)
        if ctx is not None and lq.is_fail(p['src'][k]):
          ctx.count('fault_class', p['src'][k])
  case['post'] = rng.sample(POST, len(POST))
  return case


ORDERS = ['fail,cleanstop', 'cleanstop,fail', 'fail', 'excstop', 'cleanstop', 'fail,excstop', 'timeout']


def late_observer_case(rng, i):
  """Directed event order, then consumers that arrive afterwards (phased schedule, see lib_queue.phased_chooser)."""
  order = ORDERS[i % len(ORDERS)]
  nprod = rng.randrange(1, 4)
  failer = rng.randrange(nprod)
  ths = []
  for p in range(nprod):
    n = rng.randrange(1, 4)
    src = [p * 100 + k for k in range(n)]
    if p == failer and 'fail' in order:
      src.insert(rng.randrange(0, n + 1), 'fail')
    ths.append(dict(kind='producer', src=src, ret=900 + p))
  early = []
  for _ in range(rng.randrange(0, 2) if order != 'timeout' else 1):
    early.append(len(ths))
    ths.append(dict(kind='get') if rng.random() < 0.5 else dict(kind='batch', max=rng.choice([1, 2, 1024]), block=rng.random() < 0.4))
  stop = None
  if 'stop' in order:
    stop = len(ths)
    ths.append(dict(kind='stopper', exc='ValueError') if 'excstop' in order else dict(kind='stopper'))
  late = []
  for k in range(rng.randrange(1, 3)):
    late.append(len(ths))
    ths.append(dict(kind='get') if (i // len(ORDERS) + k) % 2 == 0 else
               dict(kind='batch', max=rng.choice([1, 2, 1024]), block=rng.random() < 0.4))
  prods = list(range(nprod))
  first = prods + early
  if order == 'cleanstop,fail':
    kfail = ths[failer]['src'].index('fail')
    phases = [dict(tids=first, until=dict(tid=failer, nexts=kfail)), dict(tids=[stop]), dict(tids=first), dict(tids=late)]
  elif order in ('cleanstop', 'excstop'):
    # the stop request arrives somewhere in the middle of the run
    phases = [dict(tids=first, until=dict(tid=failer, nexts=rng.randrange(0, len(ths[failer]['src']) + 1))),
              dict(tids=[stop]), dict(tids=first), dict(tids=late)]
  elif stop is not None:
    phases = [dict(tids=first), dict(tids=[stop]), dict(tids=late)]
  else:
    phases = [dict(tids=first), dict(tids=late)]
  timeout = order == 'timeout' or (rng.random() < 0.15)
  cap = rng.choice([0, 0, 1, 2]) if early else 0
  if order == 'timeout':
    cap = rng.choice([1, 1, 2])      # producers park on the full queue and time out; consumers on the empty one
  return dict(cap=cap, max_enq=nprod, timeout=timeout, mode='late_observer', order=order, threads=ths,
              sched=dict(kind='phased', seed=rng.randrange(10**9), phases=phases, tw=0.25 if order == 'timeout' else 0.03))


def blocked_producers_case(rng):
  nprod = rng.randrange(3, 5)
  failer = rng.randrange(nprod)
  ths = []
  for p in range(nprod):
    n = rng.randrange(2, 6)
    src = [p * 100 + k for k in range(n)]
    if p == failer:
      src.insert(rng.randrange(1, n + 1), 'fail')
    ths.append(dict(kind='producer', src=src, ret=900 + p))
  ths.append(dict(kind='get') if rng.random() < 0.7 else dict(kind='batch', max=rng.choice([1, 2]), block=rng.random() < 0.5))
  return dict(cap=rng.choice([1, 1, 2]), max_enq=nprod, timeout=False, mode='blocked_producers', threads=ths,
              sched=dict(kind=rng.choice(['random', 'pct']), seed=rng.randrange(10**9), tw=0.1,
                         changes=rng.randrange(1, 6), horizon=rng.choice([50, 150, 400])))


_c04 = __import__('harness.props.c04', fromlist=['_cfg'])
_cfg, _P, _G, _B = _c04._cfg, _c04._P, _c04._G, _c04._B
_S = lambda exc=None: dict(kind='stopper', exc=exc) if exc else dict(kind='stopper')

# Model-guided stage: fixed small configurations with the C05 fault events: a failing source item, a stop
# request without / with an exception, timeout configured, and all of them together.
GUIDED_CONFIGS = [
    _cfg(1, [_P([0, 'fail', 1]), _P([100, 101], 901), _G, _B(2, True)]),
    _cfg(1, [_P([0, 1, 2]), _G, _S()]),
    _cfg(0, [_P([0, 1]), _P([100], 901), _B(2, True), _S('ValueError')]),
    _cfg(1, [_P([0, 1, 2]), _G, _B(2, True)], timeout=True),
    _cfg(2, [_P([0, 1, 'fail']), _P([100, 101, 102], 901), _B(3, False), _S()], timeout=True),
    # round 10: the same LTS walks replayed on the other backends (the LTS is backend-independent)
    dict(_cfg(1, [_P([0, 'fail', 1]), _P([100, 101], 901), _G, _B(2, True)]), backend='asyncio.Queue'),
    dict(_cfg(1, [_P([0, 1, 2]), _G, _B(2, True), _S()], timeout=True), backend='AsyncIteratorQueue', max_enq=0),
    dict(_cfg(0, [_P([0, 1]), _P([100, 'fail'], 901), _B(2, True), _S('ValueError')]), backend='queue.SimpleQueue'),
]


def extra(ctx):
  """Model-guided stage: schedules chosen by random walks on the Lean LTS so that together they execute EVERY
  program point of the model (timeout alternatives included), replayed on the real code and compared step by step."""
  lq.model_guided(ctx, GUIDED_CONFIGS, ctx.seed, unreachable={}, oracle=oracle)
  ctx.hist['observer'] = dict(sorted(OBSERVED.items()))
  missing = [k for k in PROMISED if not OBSERVED.get(k)]
  ctx.notes.append(f'observers after the fact: {sum(OBSERVED.get(k, 0) for k in PROMISED)} consumer starts / probe rounds after a '
                   f'promised event order ({len(PROMISED)} orders promised, missing {missing})')
  if missing:
    from harness.core import InfraError
    if not (sum(lqb.VERDICT.values()) or ctx.extra_disagreements or ctx.extra_oracle_failures):
      raise InfraError(f'C05: promised event orders not exercised by any run that ended: {missing}')
  # the async arms under faults: every buffer x bounded/unbounded ran (their Full / Empty coverage is enforced by C04)
  lqb.enforce(ctx, extra_required=[k for k in lqb.async_required() if (k.endswith('/async') or
                                   k in ('async_api:async_enqueue_from_iterator', 'async_api:sync'))])


def run_impl(case):
  return lqb.run_impl(case, lq.run_impl)


def model_requests_obs(case, obs):
  if lqb.kind(case) == 'async':
    return [lqb.async_model_request(case, obs)]
  return lq.model_requests_obs(case, obs)


model_requests = None


def model_obs(case, resps):
  if lqb.kind(case) == 'async':
    return dict(kind='async', resp=resps[0])
  return lq.model_obs(case, resps)


def compare(obs, m):
  if isinstance(m, dict) and m.get('kind') == 'async':
    d = lqb.async_compare(obs, m['resp'])
    if obs.get('late_loop_check'):
      lqb.COV['async:late_loop_check'] += 1
  else:
    d = lq.compare(obs, m)
  if d is not None:
    lqb.VERDICT['disagreement'] += 1
  if isinstance(obs, dict) and obs.get('oracle_new_failure'):
    lqb.VERDICT['oracle failure outside the known input classes'] += 1
  return d


def history(case, obs):
  """The fault events of a run, located in its trace (index of the step), and when each thread started / ended.
  Written from the property text and the call protocol only: a producer's source raises at its k-th pull (the step
  labelled 'next' of that thread); a stop request is complete when the stopper thread has ended; a put timeout is on
  record when the producer has ended with TimeoutError."""
  tr = obs['trace']
  th = obs['threads']
  start, last, nexts = {}, {}, {}
  for k, (tid, lbl) in enumerate(tr):
    start.setdefault(tid, k)
    last[tid] = k
    if lbl == 'next':
      nexts.setdefault(tid, []).append(k)
  ev = []          # (step, kind, tid, class name the consumers have to see)
  for i, p in enumerate(case['threads']):
    o = th[i]['outcome'] if i < len(th) else None
    if p['kind'] == 'producer':
      fails = [k for k, v in enumerate(p['src']) if lq.is_fail(v)]
      if fails and len(nexts.get(i, [])) > fails[0]:
        ev.append((nexts[i][fails[0]], 'fail', i, lq.FAULTS[p['src'][fails[0]]].__name__))
      elif o and o['raise'] == 'TimeoutError' and th[i]['done']:
        ev.append((last[i], 'puttimeout', i, 'TimeoutError'))
    elif p['kind'] == 'stopper' and th[i]['done'] and i in last:
      ev.append((last[i], 'excstop' if p.get('exc') else 'cleanstop', i, 'ValueError' if p.get('exc') else None))
  ev.sort()
  return dict(start=start, last=last, events=ev)


def oracle(case, obs):
  what = _oracle(case, obs)
  if what is not None and finding(case, what) is None:
    obs['oracle_new_failure'] = True      # travels to the main process with the observation (see lqb.enforce)
  return what


def _oracle(case, obs):
  if obs['outcome'] != 'done':
    return f"{obs['outcome']}: threads blocked forever {obs['blocked']} after {len(obs['choices'])} steps"
  w = lq.safety_oracle(case, obs)
  if w:
    return w
  th = obs['threads']
  excs = obs.get('excs') or [None] * len(th)
  prod_failed = [i for i, _ in lq.producers(case) if th[i]['outcome'] and th[i]['outcome']['raise'] == 'ValueError']
  stop = [p for p in case['threads'] if p['kind'] == 'stopper']
  if prod_failed and not stop and not case['timeout']:
    # every consumer observes that exception, never a clean end-of-stream
    for i, _ in lq.consumers(case):
      o = th[i]['outcome']
      if not o or o['raise'] != 'ValueError':
        return f'producer(s) {prod_failed} failed but consumer {i} ended with {o}'
  if not prod_failed and not stop and not case['timeout']:
    # a failing item that was never reached: plain C04 behaviour is checked there
    pass
  if stop and stop[0].get('exc') and not case['timeout'] and not prod_failed:
    rets = sorted(p['ret'] for _, p in lq.producers(case))
    for i, _ in lq.consumers(case):
      o = th[i]['outcome']
      complete = bool(o) and o['raise'] == 'StopIteration' and sorted(o.get('args', [])) == rets
      # a consumer may already have seen the complete stream end before the stop request arrived
      if not o or (o['raise'] != 'ValueError' and not complete):
        return f'stop request with an exception, but consumer {i} ended with {o}'
  if not case['timeout']:
    for i, _ in list(lq.consumers(case)) + list(lq.producers(case)):
      o = th[i]['outcome']
      if o and o['raise'] == 'TimeoutError':
        return f'thread {i} raised TimeoutError although no timeout is configured'
  # a producer whose source raised re-raises THAT exception (whatever its class)
  for i, p in lq.producers(case):
    o, x = th[i]['outcome'], excs[i]
    if o and o['raise'].startswith('Base:'):
      return f'producer {i} ended with {x}, which no source raised'
  # ---- "all other producers stop": once a stop request is complete (its thread has ended) or a failing producer has
  # ended, a producer pulls at most ONE more element from its source (the pull it may already be committed to)
  h0 = history(case, obs)
  for ev in h0['events']:
    if ev[1] in ('cleanstop', 'excstop', 'fail', 'puttimeout') and ev[2] in h0['last'] and obs['threads'][ev[2]]['done']:
      at = h0['last'][ev[2]]
      for i, _ in lq.producers(case):
        if i == ev[2]:
          continue
        later = [k for k, (tid, lbl) in enumerate(obs['trace']) if tid == i and lbl == 'next' and k > at]
        if len(later) > 1:
          return (f'producer {i} pulled {len(later)} more elements from its source after the {ev[1]} of thread {ev[2]} was '
                  f'complete (step {at}): it did not stop')
  # ---- observers after the fact (round 8): a recorded failure is never cleared; every consumer that arrives after it
  # was recorded observes it -- whatever stop requests / timeouts happened in between
  h = history(case, obs)
  failures = [e for e in h['events'] if e[1] != 'cleanstop']
  classes = sorted({e[3] for e in failures})
  for i, _ in lq.consumers(case):
    if i not in h['start']:
      continue
    before = [e for e in failures if e[0] < h['start'][i]]
    o, x = th[i]['outcome'], excs[i]
    if before:
      if not o or not x or x['cls'] not in classes or o['raise'] == 'StopIteration':
        return (f'consumer {i} started at step {h["start"][i]}, after the failure {before[0][1]} of thread {before[0][2]} at step '
                f'{before[0][0]} (events {h["events"]}), but ended with {o} {x}: a recorded failure was lost')
    elif not failures and any(e[1] == 'cleanstop' and e[0] < h['start'][i] for e in h['events']):
      if not o or o['raise'] != 'StopIteration':
        return f'consumer {i} started after a clean stop request and no failure happened, but ended with {o}'
  for i, _ in lq.consumers(case):
    o, x = th[i]['outcome'], excs[i]
    if o and x and o['raise'] not in ('StopIteration', 'TimeoutError') and x['cls'] not in classes:
      return f'consumer {i} ended with {x} but the failures of this run are {classes}'
    if o and o['raise'] == 'ValueError' and x and x['cls'] != 'ValueError' and not x['same']:
      return f'consumer {i} ended with a {x["cls"]} that is not the object the source raised'
  post = obs.get('post')
  if post is not None:
    if failures and post['exception'] is None:
      return f'failures {failures} happened but q.exception is None when the run has ended: the recorded failure was cleared'
    if failures and post['exception']['cls'] not in classes:
      return f'q.exception is {post["exception"]} but the failures of this run are {classes}'
    seen = [v for i, _ in lq.consumers(case) for v in th[i]['received']]
    deferred = None
    for pr in post['probes']:
      e, x = pr['end'], pr['exc']
      if pr['kind'] == 'get_nowait' and e and e['raise'] == 'RuntimeError':
        # open finding F-C05-getnowait-unlocked; reported only if nothing else is wrong with this run
        deferred = (f'late consumer (get_nowait) called the public get_nowait() directly and got RuntimeError after '
                    f'{pr["values"]} (notify_all on the un-acquired dequeue lock in _set_exhausted)')
        continue
      late = [v for v in pr['values'] if v in seen or v not in lq.all_values(case)]
      if late or len(set(pr['values'])) != len(pr['values']):
        return f'late consumer ({pr["kind"]}) was handed {pr["values"]}: duplicated / invented elements'
      seen += pr['values']
      if e is None or e['raise'] in ('would_block', 'NeverEnds', 'Empty', 'EmptyBatch'):
        return f'late consumer ({pr["kind"]}) after the run ended with {e}: neither the failure nor an end of the stream'
      if failures:
        if x is None or x['cls'] not in classes or e['raise'] == 'StopIteration':
          return (f'late consumer ({pr["kind"]}) arriving after the failures {failures} ended with {e} {x}: '
                  f'a recorded failure was lost (events {h["events"]})')
      elif e['raise'] != 'StopIteration':
        return f'late consumer ({pr["kind"]}) ended with {e} {x} although no failure happened (events {h["events"]})'
    if post['exception_after'] != post['exception']:
      return f'q.exception changed while late consumers looked at the queue: {post["exception"]} -> {post["exception_after"]}'
    return deferred
  return None


OBSERVED = {}       # event orders seen before a consumer started / before the probes (main process, see nontrivial)
PROMISED = ['fail<consumer', 'fail<cleanstop<consumer', 'cleanstop<fail<consumer', 'excstop<consumer', 'cleanstop<consumer',
            'puttimeout<consumer', 'fail<cleanstop<probes', 'cleanstop<fail<probes', 'fail<probes', 'excstop<probes',
            'cleanstop<probes', 'puttimeout<probes', 'base-fault<consumer', 'base-fault<probes']


def observe(case, obs):
  if obs['outcome'] != 'done':
    return
  h = history(case, obs)

  def key(evs, who):
    ks = []
    for e in evs:
      if e[1] not in ks:
        ks.append(e[1])
    return '<'.join(ks + [who])
  def note(k):
    OBSERVED[k] = OBSERVED.get(k, 0) + 1
  for i, p in lq.consumers(case):
    if i in h['start']:
      evs = [e for e in h['events'] if e[0] < h['start'][i]]
      if evs:
        note(key(evs, 'consumer'))
        note(key(evs, 'consumer') + ':' + p['kind'])
        if any(e[1] == 'fail' and e[3] != 'ValueError' for e in evs):
          note('base-fault<consumer')
  if obs.get('post') is not None and h['events']:
    note(key(h['events'], 'probes'))
    if any(e[1] == 'fail' and e[3] != 'ValueError' for e in h['events']):
      note('base-fault<probes')


def nontrivial(case, obs):
  observe(case, obs)
  if lqb.kind(case) == 'async':
    lqb.note_async(case, obs)
  else:
    lqb.note_run(case, obs)
  ch = [c[0] for c in obs['choices']]
  turns = sum(1 for a, b in zip(ch, ch[1:]) if a != b)
  fault = any(t['outcome'] and t['outcome']['raise'] != 'StopIteration' for t in obs['threads']) or \
      any(p['kind'] == 'stopper' for p in case['threads'])
  return turns >= 10 and fault


def finding(case, what):
  if what and what.startswith('late consumer (get_nowait) called the public get_nowait() directly and got RuntimeError'):
    return 'F-C05-getnowait-unlocked'
  return None


_nb04 = __import__('harness.props.c04', fromlist=['neighbours']).neighbours


def neighbours(case, rng):
  for k, c in enumerate(_nb04(case, rng)):
    yield c
    if k % 2 == 0:
      yield blocked_producers_case(rng)

shrink = lq.shrink_schedule_case
