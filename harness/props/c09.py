"""C09 — Sharding partitions a data source exactly; merged sequences = concatenation.

Real code (entered through the public classes):
  io.SequenceDataSource(...) / .from_sequences(...) .shard(i, k, offset) .from_state(state) len() list()
  io.ShardedIterable(...).shard(i, k) / .from_state(ShardConfig(i, k, start)) iterated with next()
  iter_utils.MergedSequences(parts, max_batch_size)[i] / [a:b] / iter() / len()
  (the private _RangeIterator is only reached through MergedSequences / the data source)
Models: lean/MlModel/Model/Shard.lean, lean/MlModel/Model/Merged.lean; theorems: Properties/C09.lean.

Case kinds
  shards  sizes (parts of the source, elements are 0..n-1), path (ancestor shard calls), k, idxs, extra_off:
          the base data source and, for each shard index, the shard for every offset 0..size+extra_off
  rr      n, k, idxs, start, calls: the k round-robin iterators of an iterable
  merged  parts (per index the value or the exception raised; sliceable or not), max_batch, queries
  recv    `state` / `from_state` round trips through ANY receiver: receiver x state-origin matrix for SequenceDataSource /
          SequenceIterator, ShardedIterable / DataIterator, MultiplexIterator over per-thread shards
          (harness/lib_c09recv.py; model lean/MlModel/Model/ShardRecv.lean, wire name "shardrecv")
"""
import itertools

from harness.core import err_kind
from harness import lib_c09recv as R

PID = 'C09'
TITLE = 'Sharding partitions a data source exactly'
LEAN_MODULES = ['MlModel.Properties.C09', 'MlModel.Witness.C09Recv']
TRUSTED = [
    'modelled, not verified: bisect.bisect_right, itertools.accumulate/chain, slice.indices, collections.deque, '
    'divmod on Python ints, list/range slicing of the underlying sequences (their list semantics are written out '
    'in Model/Merged.lean and Model/Shard.lean)',
    'C09_range_iterator assumes the slice contract of a random-access source: `data[i:j]` either raises or returns '
    'exactly `[data[i], ..., data[j-1]]` (an eager sequence slice); lazily failing slices are outside it',
]
ASSUMPTIONS = [
    'shard indices are in range(num_shards), offsets in [0, shard size] and num_shards >= 1 for the partition theorems '
    '(the code validates only num_shards >= 1; other inputs are mirrored by the model but not covered by the property)',
    'elements are opaque values (ints in the correspondence)',
]
RULE = ('small-exhaustive: every (n<=12, k<=14) at depth 1, every parent shard x k at depth 2 and a deterministic '
        'sub-lattice at depth 3, each with every shard index and every offset 0..size+1, over single and multi-part '
        'sources; every split into <=4 parts of size <=3 with every index and every slice bound in [-n-1, n+1] and None; '
        'round-robin n<=12, k<=14, start<=n+1; then random large cases and ~10% malformed inputs (num_shards<1, '
        'shard index out of range, slice step, failing/non-sliceable sources); non-trivial = at least two non-empty '
        'shards / a split with >=2 parts one of which is empty or a slice crossing a part boundary / >=2 round-robin '
        'shards with data; distinct = distinct canonical case JSON.  Receiver matrix (kind recv): for every origin kind '
        '(root, shard i/k with and without offset, nested shard, restored-with-offset source) x state kind (source.state, '
        'iterator.state after 0 / 1 / half / all elements) every receiver kind (root, shard, nested shard, restored source, '
        'sibling, the origin itself, its sub-shard; each as a source and as a partly consumed iterator; the very iterator '
        'that produced the state) calls from_state, over single and merged (from_sequences) data with ignore_error on and '
        'off; the same for ShardedIterable / DataIterator and for MultiplexIterator over per-thread shards (receivers: '
        'itself, a fresh one, all roots, rotated siblings, sub-shards, iterators, restored sources; wrong source count); '
        'literal states outside the domain (num_shards < 1, index / offset out of range) through every receiver; every '
        'promised receiver x origin arm is enforced (exit 2 if a run misses one)')

ERRS = ['ValueError', 'TypeError', 'RuntimeError', 'KeyError', 'ZeroDivisionError']
_EXC = dict(ValueError=ValueError, TypeError=TypeError, RuntimeError=RuntimeError, KeyError=KeyError,
            ZeroDivisionError=ZeroDivisionError, IndexError=IndexError)


# ----------------------------------------------------------------------------- sources

class FailSeq:
  """A random-access source: per index a value or an exception; eager slices (first failure raised)."""

  def __init__(self, outs, sliceable=True):
    self.outs, self.sliceable = outs, sliceable

  def __len__(self):
    return len(self.outs)

  def __getitem__(self, i):
    if isinstance(i, slice):
      if not self.sliceable:
        raise TypeError('not sliceable')
      return [self[j] for j in range(*i.indices(len(self.outs)))]
    o = self.outs[i]
    if isinstance(o, str):
      raise _EXC[o](f'element {i}')
    return o


class LazySeq(FailSeq):
  """Like FailSeq but a slice is evaluated lazily (a generator), as MergedSequences' own slices are."""

  def __getitem__(self, i):
    if isinstance(i, slice):
      return (FailSeq.__getitem__(self, j) for j in range(*i.indices(len(self.outs))))
    return FailSeq.__getitem__(self, i)


def mk_part(p, variant=0):
  outs = p['outs']
  if p.get('lazy') == 'gen':
    return LazySeq(outs, True)
  if p.get('lazy') == 'nested':
    from ml_metrics._src.utils import iter_utils
    return iter_utils.MergedSequences([FailSeq(outs, p['sliceable'])], p.get('inner_batch', 0))
  if p['sliceable'] and not any(isinstance(o, str) for o in outs):
    if variant % 3 == 0:
      return list(outs)
    if variant % 3 == 1:
      return tuple(outs)
    if outs and list(outs) == list(range(outs[0], outs[0] + len(outs))):
      return range(outs[0], outs[0] + len(outs))
    import numpy as np
    return np.array(outs, dtype=np.int64)
  return FailSeq(outs, p['sliceable'])


def parts_of_sizes(sizes):
  out, g = [], 0
  for s in sizes:
    out.append(dict(outs=list(range(g, g + s)), sliceable=True))
    g += s
  return out


def outcome(fn):
  try:
    return ['v', int(fn())]
  except StopIteration:
    return 'stop'
  except Exception as e:  # pylint: disable=broad-except
    return ['e', err_kind(e)]


def drive(it, calls):
  return [outcome(lambda: next(it)) for _ in range(calls)]


# ----------------------------------------------------------------------------- generators

def splits(max_parts, max_size):
  for m in range(0, max_parts + 1):
    yield from itertools.product(range(0, max_size + 1), repeat=m)


def merged_case(sizes, max_batch=0, fails=None, unsliceable=(), queries=None, tag=None, lazy=None):
  parts = parts_of_sizes(sizes)
  for pi, how in (lazy or {}).items():
    parts[pi]['lazy'] = how
    if how == 'nested':
      parts[pi]['inner_batch'] = [0, 1, 3][pi % 3]
  for (pi, j), kind in (fails or {}).items():
    parts[pi]['outs'][j] = kind
  for pi in unsliceable:
    parts[pi]['sliceable'] = False
  n = sum(sizes)
  if queries is None:
    rng_ = [None] + list(range(-n - 1, n + 2))
    queries = [dict(t='len')]
    queries += [dict(t='idx', i=i) for i in range(-n - 1, n + 2)]
    queries += [dict(t='slice', a=a, b=b, calls=n + 2) for a in rng_ for b in rng_]
  c = dict(kind='merged', parts=parts, max_batch=max_batch, queries=queries)
  if tag:
    c['tag'] = tag
  return c


def shard_size(n, i, k):
  q, r = divmod(n, k)
  return q + (1 if i < r else 0)


def gen_cases(ctx):
  """Corpus, small-exhaustive, random large, malformed; what was generated is counted into the evidence."""
  for c in _gen_cases(ctx):
    kind = c['kind']
    ctx.count('kind', kind)
    if c.get('malform'):
      ctx.count('malformed', f"{kind}:{c['malform']}")
    if kind == 'shards':
      ctx.count('shards.depth', len(c['path']) + 1)
      ctx.count('shards.k_vs_n', 'k>n' if c['k'] > sum(c['sizes']) else 'k<=n')
      ctx.count('shards.parts', min(len(c['sizes']), 4))
      if any(p[2] for p in c['path']):
        ctx.count('shards.parent_offset', 'nonzero')
    elif kind == 'merged':
      sizes = [len(p['outs']) for p in c['parts']]
      ctx.count('merged.parts', len(sizes))
      ctx.count('merged.has_empty_part', 0 in sizes)
      ctx.count('merged.max_batch', c['max_batch'])
      ctx.count('merged.sources', 'failing' if any(isinstance(o, str) for p in c['parts'] for o in p['outs']) else 'plain')
      for p in c['parts']:
        if p.get('lazy'):
          ctx.count('merged.lazy', p['lazy'])
        if not p['sliceable']:
          ctx.count('merged.unsliceable', 1)
      for q in c['queries']:
        ctx.count('merged.query', q['t'])
    elif kind == 'recv':
      ctx.count('recv.cls', c['cls'])
      for a in R.arms(c):
        ctx.count('recv.arm', a)
    else:
      ctx.count('rr.k_vs_n', 'k>n' if c['k'] > c['n'] else 'k<=n')
      ctx.count('rr.start', 'resumed' if c['start'] else 'fresh')
    yield c


def extra(ctx):
  """Enforced coverage of the receiver x origin matrix."""
  from harness.core import InfraError
  seen = ctx.hist.get('recv.arm', {})
  missing = [a for a in R.PROMISED if not seen.get(a)]
  if missing:
    raise InfraError(f'C09 generator missed promised receiver x origin arms: {missing[:12]} ({len(missing)} in all)')


def _gen_cases(ctx):
  yield from ctx.corpus()
  rng, quick = ctx.rng, ctx.quick
  yield from R.gen(ctx)

  # ---- shards, depth 1: every n <= 12, k <= 14, all shard indices, every offset, three source layouts
  for n in range(0, 13):
    for k in range(1, 15):
      layouts = [[n], [n // 2, 0, n - n // 2], [0, 1, n - 1, 0] if n else [0, 0]]
      for li, sizes in enumerate(layouts):
        yield dict(kind='shards', sizes=sizes, single=(li == 0 and (n + k) % 2 == 0), path=[], k=k,
                   idxs=list(range(k)), extra_off=1)
  # ---- depth 2: every parent shard (with offset 0 and 1) x every k2
  N2, K2 = (9, 9) if quick else (12, 14)
  for n in range(0, N2 + 1):
    for k1 in range(1, K2 + 1):
      for i1 in range(k1):
        for off1 in (0, 1):
          if off1 > shard_size(n, i1, k1):
            continue
          for k2 in range(1, K2 + 1):
            yield dict(kind='shards', sizes=[n] if (n + k1) % 3 else [n // 3, n - n // 3], single=False,
                       path=[[i1, k1, off1]], k=k2, idxs=list(range(k2)), extra_off=0)
  # ---- depth 3
  N3, K3 = (8, 4) if quick else (12, 6)
  for n in range(0, N3 + 1):
    for k1, k2, k3 in itertools.product(range(1, K3 + 1), repeat=3):
      for i1 in range(k1):
        for i2 in range(k2):
          yield dict(kind='shards', sizes=[n], single=True, path=[[i1, k1, 0], [i2, k2, (i1 + i2) % 2 if
                     shard_size(shard_size(n, i1, k1), i2, k2) >= 1 else 0]], k=k3, idxs=list(range(k3)), extra_off=0)
  # ---- random large
  for _ in range(150 if quick else 3000):
    n = rng.choice([rng.randrange(0, 40), rng.randrange(40, 400), rng.randrange(400, 3000)])
    depth = rng.randrange(0, 4)
    path, cur = [], n
    for _d in range(depth):
      k = rng.choice([1, 2, 3, 5, 7, 16, 64, cur + 1, max(cur, 1)])
      i = rng.randrange(k)
      sz = shard_size(cur, i, k)
      off = rng.choice([0, 0, rng.randrange(0, sz + 1)])
      path.append([i, k, off])
      cur = sz - off
    k = rng.choice([1, 2, 3, 4, 7, 13, 64, cur + 3, max(cur, 1)])
    idxs = list(range(k)) if k <= 20 else sorted(rng.sample(range(k), 20))
    nparts = rng.randrange(1, 5)
    cuts = sorted(rng.randrange(0, n + 1) for _ in range(nparts - 1))
    sizes = [b - a for a, b in zip([0] + cuts, cuts + [n])]
    yield dict(kind='shards', sizes=sizes, single=False, path=path, k=k, idxs=idxs, extra_off=0, big=True)
  # ---- malformed sharding: num_shards < 1, shard index out of range, negative / too large offsets
  for _ in range(40 if quick else 600):
    n = rng.randrange(0, 10)
    how = rng.choice(['k0', 'kneg', 'idx', 'path', 'off'])
    k = rng.randrange(1, 6)
    c = dict(kind='shards', sizes=[n], single=rng.random() < 0.5, path=[], k=k, idxs=list(range(k)), extra_off=2,
             malform=how)
    if how == 'k0':
      c['k'] = 0
    elif how == 'kneg':
      c['k'] = -rng.randrange(1, 4)
    elif how == 'idx':
      c['idxs'] = [-2, -1, k, k + 1, k + 3]
    elif how == 'path':
      c['path'] = [[rng.choice([-1, k, k + 2]), k, 0]]
    elif how == 'off':
      c['path'] = [[rng.randrange(k), k, rng.choice([-2, -1, n + 1, n + 3])]]
    yield c

  # ---- round robin: exhaustive small, random large, malformed
  for n in range(0, 13):
    for k in range(1, 15):
      for start in ([0, 1, n // 2, n, n + 1] if quick else range(0, n + 2)):
        yield dict(kind='rr', n=n, k=k, idxs=list(range(k)), start=start, calls=n + 2)
  for _ in range(60 if quick else 1500):
    n = rng.randrange(0, 300)
    k = rng.choice([1, 2, 3, 5, 8, 31, n + 1])
    idxs = list(range(k)) if k <= 8 else sorted(rng.sample(range(k), 8))
    yield dict(kind='rr', n=n, k=k, idxs=idxs, start=rng.choice([0, 0, rng.randrange(0, n + 2)]),
               calls=n // max(k, 1) + 3, big=True)
  for _ in range(20 if quick else 300):
    n, k = rng.randrange(0, 8), rng.randrange(1, 5)
    how = rng.choice(['k0', 'idx', 'negstart'])
    c = dict(kind='rr', n=n, k=k, idxs=[0], start=0, calls=n + 2, malform=how)
    if how == 'k0':
      c['k'] = rng.choice([0, -1])
    elif how == 'idx':
      c['idxs'] = [-1, k, k + 2]
    else:
      c['start'] = -rng.randrange(1, 4)
    yield c

  # ---- merged: every split into <= 4 parts of size <= 3, every index, every slice in [-n-1, n+1] + None
  for sizes in splits(4, 3 if not quick else 2):
    yield merged_case(list(sizes), max_batch=[0, 1, 2, 3, 5][(sum(sizes) + len(sizes)) % 5])
  if quick:   # the remaining splits with size-3 parts: a rotating third per seed, the rest in the thorough tier
    rest = [s for s in splits(4, 3) if 3 in s]
    for j, sizes in enumerate(rest):
      if j % 3 == ctx.seed % 3:
        yield merged_case(list(sizes), max_batch=[0, 1, 2, 3, 5][(sum(sizes) + len(sizes)) % 5])
  # ---- merged over failing / non-sliceable sources, all read-ahead sizes (through MergedSequences and the data source)
  for _ in range(250 if quick else 5000):
    m = rng.randrange(1, 4)
    sizes = [rng.choice([0, 1, 2, 3, 5, 9, 17]) for _ in range(m)]
    n = sum(sizes)
    fails = {}
    for pi, s in enumerate(sizes):
      for j in range(s):
        if rng.random() < 0.25:
          fails[(pi, j)] = rng.choice(ERRS)
    unsl = [pi for pi in range(m) if rng.random() < 0.3]
    lazy = {pi: rng.choice(['gen', 'nested']) for pi in range(m) if pi not in unsl and rng.random() < 0.3}
    qs = [dict(t='len')]
    for _q in range(6):
      a, b = (rng.choice([None, rng.randrange(-n - 2, n + 3)]) for _ab in range(2))
      qs.append(dict(t='slice', a=a, b=b, calls=n + 2))
    qs += [dict(t='idx', i=rng.randrange(-n - 2, n + 3)) for _q in range(6)]
    k = rng.randrange(1, 5)
    i = rng.randrange(k)
    qs.append(dict(t='ds', i=i, k=k, off=rng.choice([0, 0, 1]) if shard_size(n, i, k) >= 1 else 0, calls=n + 2))
    yield merged_case(sizes, max_batch=rng.choice([0, 1, 2, 3, 4, 5, 8, 16, 64, 100]), fails=fails, unsliceable=unsl,
                      queries=qs, tag='failing', lazy=lazy)
  # ---- merged random large (failure-free), read-ahead crossing the 64 default
  for _ in range(40 if quick else 600):
    m = rng.randrange(1, 7)
    sizes = [rng.choice([0, 0, 1, 7, 63, 64, 65, 130, 300]) for _ in range(m)]
    n = sum(sizes)
    qs = [dict(t='len'), dict(t='slice', a=None, b=None, calls=n + 1)]
    for _q in range(5):
      a, b = (rng.choice([None, rng.randrange(-n - 2, n + 3)]) for _ab in range(2))
      qs.append(dict(t='slice', a=a, b=b, calls=n + 1))
    qs += [dict(t='idx', i=rng.randrange(-n - 2, n + 3)) for _q in range(10)]
    yield merged_case(sizes, max_batch=rng.choice([0, 1, 7, 64, 1000]), queries=qs, tag='large')
  # ---- malformed slices: a step is rejected
  for step in (1, 2, -1):
    yield merged_case([2, 1], queries=[dict(t='slice', a=0, b=2, step=step, calls=3)], tag='step')


# ----------------------------------------------------------------------------- real code

def _state_list(st):
  out = []
  while st is not None:
    out.append([st.shard_index, st.num_shards, st.start_index])
    st = st.parent
  return out


def compact(xs):
  """Canonical compact form of an element list (same as Driver/Shard.lean `compact`)."""
  if xs and xs == list(range(xs[0], xs[0] + len(xs))):
    return {'from': xs[0], 'n': len(xs)}
  return xs


def expand(c):
  return list(range(c['from'], c['from'] + c['n'])) if isinstance(c, dict) else c


def _ds_core(ds, cap, with_state=True):
  try:
    ln = len(ds)
  except Exception as e:  # pylint: disable=broad-except
    ln = err_kind(e)
  o = dict(start=ds.start, end=ds.end, len=ln, elems=compact([int(x) for x in itertools.islice(iter(ds), cap)]))
  if with_state:
    o['state'] = _state_list(ds.state)
  return o


def _ds_obs(root, ds, cap):
  o = _ds_core(ds, cap)
  try:
    o['rt'] = _ds_core(root.from_state(ds.state), cap, with_state=False)
  except Exception as e:  # pylint: disable=broad-except
    o['rt'] = dict(err=err_kind(e))
  return o


def run_shards(case):
  from ml_metrics._src.chainables import io
  n = sum(case['sizes'])
  cap = n + 5
  if case.get('single'):
    root = io.SequenceDataSource(list(range(n)))
  else:
    root = io.SequenceDataSource.from_sequences([mk_part(p, j) for j, p in enumerate(parts_of_sizes(case['sizes']))])
  try:
    base = root
    for i, k, off in case['path']:
      base = base.shard(i, k, off)
  except Exception as e:  # pylint: disable=broad-except
    return dict(base=dict(err=err_kind(e)), shards=[])
  shards = []
  for i in case['idxs']:
    try:
      s0 = base.shard(i, case['k'])
    except Exception as e:  # pylint: disable=broad-except
      shards.append([i, [dict(err=err_kind(e))]])
      continue
    max_off = max(s0.end - s0.start, 0) + case['extra_off']
    obs = []
    for off in range(max_off + 1):
      try:
        obs.append(_ds_obs(root, base.shard(i, case['k'], off), cap))
      except Exception as e:  # pylint: disable=broad-except
        obs.append(dict(err=err_kind(e)))
    shards.append([i, obs])
  return dict(base=_ds_obs(root, base, cap), shards=shards)


def run_rr(case):
  from ml_metrics._src.chainables import io
  out = []
  for i in case['idxs']:
    try:
      ds = io.ShardedIterable(list(range(case['n'])))
      if case['start'] == 0 and (i + case['n']) % 2 == 0:
        ds = ds.shard(i, case['k'])
      else:
        ds = ds.from_state(io.ShardConfig(i, case['k'], case['start']))
      it = ds.iterate()
      outs = []
      for _ in range(case['calls']):
        try:
          outs.append(int(next(it)))
        except StopIteration:
          outs.append(None)
      out.append(dict(err=None, outs=outs, index=it.state.start_index))
    except Exception as e:  # pylint: disable=broad-except
      out.append(dict(err=err_kind(e)))
  return out


def run_merged(case):
  import logging
  logging.getLogger('absl').setLevel(logging.ERROR)   # the read-ahead fallback logs a warning per retry
  from ml_metrics._src.chainables import io
  from ml_metrics._src.utils import iter_utils
  res = []
  for q in case['queries']:
    parts = [mk_part(p, j) for j, p in enumerate(case['parts'])]
    m = iter_utils.MergedSequences(parts, case['max_batch'])
    t = q['t']
    if t == 'len':
      res.append(len(m))
    elif t == 'idx':
      res.append(outcome(lambda: m[q['i']]))   # pylint: disable=cell-var-from-loop
    elif t == 'slice':
      try:
        if q.get('step') is not None:
          it = m[q['a']:q['b']:q['step']]
        elif q['a'] is None and q['b'] is None and q['calls'] % 2 == 0:
          it = iter(m)
        else:
          it = m[q['a']:q['b']]
      except Exception as e:  # pylint: disable=broad-except
        res.append(['e', err_kind(e)])
        continue
      res.append(drive(it, q['calls']))
    elif t == 'ds':
      try:
        ds = io.SequenceDataSource(m).shard(q['i'], q['k'], q['off'])
      except Exception as e:  # pylint: disable=broad-except
        res.append(['e', err_kind(e)])
        continue
      res.append(drive(ds.iterate(), q['calls']))
    else:
      raise ValueError(t)
  return dict(res=res)


def run_impl(case):
  return dict(shards=run_shards, rr=run_rr, merged=run_merged, recv=R.run_impl)[case['kind']](case)


# ----------------------------------------------------------------------------- model

def model_requests(case):
  kind = case['kind']
  if kind == 'recv':
    return R.model_requests(case)
  if kind == 'shards':
    return [dict(model='shard', op='shards', sizes=case['sizes'], path=case['path'], k=case['k'], idxs=case['idxs'],
                 extra_off=case['extra_off'])]
  if kind == 'rr':
    return [dict(model='shard', op='rr', n=case['n'], i=i, k=case['k'], start=case['start'], calls=case['calls'])
            for i in case['idxs']]
  return [dict(model='merged', parts=case['parts'], max_batch=case['max_batch'], queries=case['queries'])]


def model_obs(case, resps):
  kind = case['kind']
  if kind == 'recv':
    return R.model_obs(case, resps)
  if kind == 'shards':
    return resps[0]
  if kind == 'rr':
    return [r if r.get('err') is None else dict(err=r['err']) for r in resps]
  return dict(res=resps[0]['res'])


# ----------------------------------------------------------------------------- oracle (list semantics)

def spec_shard(xs, i, k):
  """The unique contiguous, order-preserving split into k pieces whose sizes are non-increasing and differ by <= 1."""
  q, r = divmod(len(xs), k)
  s = i * q + min(i, r)
  return xs[s:s + q + (1 if i < r else 0)]


def path_ok(n, path):
  """Expected elements of root.shard(*p0).shard(*p1)... or None when a call is outside the property's domain."""
  xs = list(range(n))
  for i, k, off in path:
    if k < 1 or not 0 <= i < k:
      return None
    xs = spec_shard(xs, i, k)
    if not 0 <= off <= len(xs):
      return None
    xs = xs[off:]
  return xs


def _check_ds(name, o, want):
  if 'err' in o:
    return f"{name}: raised {o['err']}"
  if expand(o['elems']) != want:
    return f"{name}: elements {expand(o['elems'])} != {want}"
  if o['len'] != len(want):
    return f"{name}: len() = {o['len']} but it has {len(want)} elements"
  rt = o.get('rt')
  if rt is not None:
    if 'err' in rt:
      return f"{name}: from_state(state) raised {rt['err']}"
    if expand(rt['elems']) != want or rt['len'] != len(want):
      return f"{name}: rebuilt from its state it yields {expand(rt['elems'])} (len {rt['len']}), expected {want}"
    if (rt['start'], rt['end']) != (o['start'], o['end']):
      return f"{name}: rebuilt interval {(rt['start'], rt['end'])} != {(o['start'], o['end'])}"
  return None


def oracle_shards(case, obs):
  n, k = sum(case['sizes']), case['k']
  base = path_ok(n, case['path'])
  if base is None:
    return None
  w = _check_ds('base', obs['base'], base)
  if w:
    return w
  if k < 1:
    bad = [i for i, o in obs['shards'] if o != [dict(err='ValueError')]]
    return f'num_shards={k} accepted for shard indices {bad}' if bad else None
  by_i = {i: o for i, o in obs['shards']}
  good = [i for i in case['idxs'] if 0 <= i < k]
  for i in good:
    o0 = by_i[i][0]
    if 'err' in o0:
      return f'shard {i}/{k}: raised {o0["err"]}'
    e0 = expand(o0['elems'])
    size = len(e0)
    for off, o in enumerate(by_i[i]):
      if off > size:
        break
      w = _check_ds(f'shard {i}/{k} offset {off}', o, e0[off:])
      if w:
        return w
  if good == list(range(k)):
    pieces = [expand(by_i[i][0]['elems']) for i in good]
    cat = [x for p in pieces for x in p]
    if cat != base:
      return f'shards 0..{k - 1} concatenate to {cat}, the source is {base}'
    sizes = [len(p) for p in pieces]
    if max(sizes) - min(sizes) > 1:
      return f'shard sizes {sizes} differ by more than one'
    if any(a < b for a, b in zip(sizes, sizes[1:])):
      return f'shard sizes {sizes} are not non-increasing'
    if k > len(base) and sizes != [1] * len(base) + [0] * (k - len(base)):
      return f'k > n: sizes {sizes}'
  else:
    for i in good:
      if expand(by_i[i][0]['elems']) != spec_shard(base, i, k):
        return f'shard {i}/{k} = {expand(by_i[i][0]["elems"])}, expected {spec_shard(base, i, k)}'
  return None


def oracle_rr(case, obs):
  n, k, start = case['n'], case['k'], case['start']
  if k < 1:
    bad = [o for o in obs if o.get('err') != 'ValueError']
    return f'num_shards={k} accepted' if bad else None
  if start < 0:
    return None
  xs = list(range(n))
  for i, o in zip(case['idxs'], obs):
    if not 0 <= i < k:
      continue
    if o.get('err') is not None:
      return f'round-robin shard {i}/{k} raised {o["err"]}'
    want = [x for j, x in enumerate(xs) if j >= start and j % k == i]
    want = (want + [None] * case['calls'])[:case['calls']]
    if o['outs'] != want:
      return f'round-robin shard {i}/{k} from {start}: {o["outs"]} != {want}'
  if case['idxs'] == list(range(k)) and start == 0 and case['calls'] >= n + 1:
    got = sorted(x for o in obs for x in o['outs'] if x is not None)
    if got != xs:
      return f'the {k} round-robin shards together yield {got}'
  return None


def _exp_outcome(o):
  return ['e', o] if isinstance(o, str) else ['v', o]


def oracle_merged(case, obs):
  flat = [o for p in case['parts'] for o in p['outs']]
  n = len(flat)
  for q, r in zip(case['queries'], obs['res']):
    t = q['t']
    if t == 'len':
      want = n
    elif t == 'idx':
      try:
        want = _exp_outcome(flat[q['i']])
      except IndexError:
        want = ['e', 'IndexError']
    elif t == 'slice':
      if q.get('step') is not None:
        want = ['e', 'NotImplementedError']
      else:
        want = ([_exp_outcome(o) for o in flat[q['a']:q['b']]] + ['stop'] * q['calls'])[:q['calls']]
    elif t == 'ds':
      if q['k'] < 1 or not 0 <= q['i'] < q['k']:
        continue
      sh = spec_shard(flat, q['i'], q['k'])
      if not 0 <= q['off'] <= len(sh):
        continue
      want = ([_exp_outcome(o) for o in sh[q['off']:]] + ['stop'] * q['calls'])[:q['calls']]
    if r != want:
      return f'{q}: got {r}, list semantics on the concatenation give {want}'
  return None


def oracle(case, obs):
  return dict(shards=oracle_shards, rr=oracle_rr, merged=oracle_merged, recv=R.oracle)[case['kind']](case, obs)


def nontrivial(case, obs):
  kind = case['kind']
  if kind == 'recv':
    return R.nontrivial(case, obs)
  if kind == 'shards':
    return sum(1 for _, o in obs['shards'] if o and o[0].get('elems')) >= 2
  if kind == 'rr':
    return sum(1 for o in obs if o.get('outs') and o['outs'][0] is not None) >= 2
  sizes = [len(p['outs']) for p in case['parts']]
  return len(sizes) >= 2 and (0 in sizes or sum(1 for s in sizes if s) >= 2)


def finding(case, what):
  return None


# ----------------------------------------------------------------------------- search / shrink

def neighbours(case, rng):
  import copy
  kind = case['kind']
  if kind == 'recv':
    yield from R.neighbours(case, rng)
  elif kind == 'shards':
    n = sum(case['sizes'])
    for nn in range(max(0, n - 2), n + 3):
      for k in range(1, 8):
        yield dict(kind='shards', sizes=[nn], single=True, path=case['path'], k=k, idxs=list(range(k)), extra_off=1)
        yield dict(kind='shards', sizes=[nn // 2, 0, nn - nn // 2], single=False, path=[], k=k, idxs=list(range(k)),
                   extra_off=1)
  elif kind == 'rr':
    for n in range(0, 8):
      for k in range(1, 5):
        for start in range(0, 3):
          yield dict(kind='rr', n=n, k=k, idxs=list(range(k)), start=start, calls=n + 2)
  else:
    sizes = [len(p['outs']) for p in case['parts']]
    for mb in (0, 1, 2, 3, 5):
      yield merged_case(sizes, max_batch=mb)
      for j in range(len(sizes)):
        s2 = list(sizes); s2[j] = 0
        yield merged_case(s2, max_batch=mb)
        yield merged_case(sizes[:j] + [0] + sizes[j:], max_batch=mb)
    for _ in range(100):
      c = copy.deepcopy(case)
      c['max_batch'] = rng.choice([0, 1, 2, 3, 4, 5, 16])
      yield c


def shrink(case, fails):
  import copy
  cur = case
  if cur['kind'] == 'recv':
    return R.shrink(cur, fails)
  if cur['kind'] == 'merged':
    # one failing query is enough; then drop parts / elements while it keeps failing
    obs = run_impl(cur)
    flat_fail = None
    for j, q in enumerate(cur['queries']):
      c = dict(cur, queries=[q])
      if fails(c):
        flat_fail = c
        break
    if flat_fail is not None:
      cur = flat_fail
    changed = True
    while changed:
      changed = False
      for j in range(len(cur['parts'])):
        for smaller in ('drop', 'pop'):
          c = copy.deepcopy(cur)
          if smaller == 'drop':
            del c['parts'][j]
          elif c['parts'][j]['outs']:
            c['parts'][j]['outs'].pop()
          else:
            continue
          # renumber the values so that they stay 0..n-1 where they are plain values
          g = 0
          for p in c['parts']:
            for t in range(len(p['outs'])):
              if not isinstance(p['outs'][t], str):
                p['outs'][t] = g
              g += 1
          if fails(c):
            cur, changed = c, True
            break
        if changed:
          break
    return cur
  if cur['kind'] == 'shards':
    for n in range(0, sum(cur['sizes'])):
      c = dict(cur, sizes=[n], single=True)
      if fails(c):
        return c
  return cur
