"""C18 — tree views obey get/set laws and never mutate the viewed data.

Real code : ml_metrics._src.chainables.tree  (TreeMapView.__getitem__/get/set/copy_and_set/
            copy_and_update/items/keys/apply, Key/Index/Literal/SELF/SKIP, normalize_keys), entered
            through the public view API.
Model     : lean/MlModel/Model/Tree.lean (explicit cell heap: alloc / write), driver "tree".
Theorems  : lean/MlModel/Properties/C18.lean.

A case is a *heap* (list of cells, references are indices; one Python object is built per cell, so
aliasing inside the input is part of the case), a root, and up to 5 operations.  Both sides report,
for every operation, the structure of the result *with object identities* (raw `id()` / raw heap
reference), which `relabel` turns into first-seen identity classes: cells of the input heap keep
their number, everything else is `fresh#n`.  So the correspondence compares which sub-trees of a
result are shared with the input / the value / earlier results and which are new objects.

The oracle (`laws`, evaluated on the live objects inside run_impl, reported in the observation) is
written from the English statement: deep-copy before each operation and compare afterwards, shallow
identity snapshots of every node, get-after-set, frame, set-same, SKIP ignored, items = independent
DFS leaf enumeration, multi-key reads aligned, apply = independent recursive leaf map, in-place set
touches only objects on the path; a successful single-path set INTO an ndarray (any depth, ints / tuples of ints) is
numpy's item assignment on a copy of the array (in place: on the array): read-back of the broadcast value + frame
inside the array (`_array_set_law`, wp-C18D).
"""
import copy
import itertools

import numpy as np

from harness.core import err_kind

PID = 'C18'
TITLE = 'Tree views obey get/set laws and never mutate the viewed data'
LEAN_MODULES = ['MlModel.Properties.C18']
TRUSTED = [
    'modelled, not verified: CPython dict/list/tuple semantics (insertion order, negative indices, copy.copy), '
    'structural pattern matching in set/__getitem__/_default_tree, Mapping mixin items()/keys() — written out in Model/Tree.lean; '
    'a dict holds key OBJECTS: Index(i) == i with equal hash address one entry, the entry keeps the key object it was first given and '
    'items()/keys() list it (DKey.idx vs DKey.int, lookups through DKey.norm); both sides report which of the two every dict key and every '
    'element of a listed path is — no Index->int canonicalisation anywhere in the tie',
    'ndarrays are heap objects of the Lean model (an `nd` cell = one array object = a C-contiguous window of a `buf` cell that '
    'several array objects may share): reads and sets (copying and in place) whose path indexes INTO an ndarray are in the model and '
    'in the correspondence, which compares object identity, BUFFER identity (owner of the memory: end of the .base chain), window '
    'offset, shape and elements of every array in every result; modelled-not-verified numpy facts: basic integer indexing returns a view '
    '(ndim > 1) or a scalar, copy.copy(arr) owns a new buffer, assignment broadcasts (surplus leading 1-dims dropped, lists converted with '
    'at most ndim(window) dimensions), int64 only; a tuple-of-ints key (numpy multi-dimensional index) resolves its axes in ONE step '
    '(XKey.tup / tupWin in Model/Tree.lean, wp-C18D): modelled in every read and every single-path set; a set that would STORE a tuple as a dict key '
    '(tuple key met at a dict / below a NullMap), multi-path sets / updates with tuple keys and normalize_keys of tuples stay outside: the model skips / '
    'answers `.other`, the real code still runs the copying ones and the ORACLE alone judges them; slice keys and key_paths= views are not modelled',
    'reserved keys vs plain strings of the same spelling: on the wire the reserved key is the bare string "SELF"/"SKIP", a plain str key is '
    '{"s": "SELF"}; World.pkey builds Key.SELF / the str, the driver PKey.self / PKey.str "SELF"; `_is_key` is written out in '
    'Model/TreeKey.lean (Python types of key objects, isinstance along Reserved<str and Index<int, == on key objects) and proved equal to the '
    'pattern matching of Model/Tree.lean (C18_reserved_vs_plain_model); modelled-not-verified: Reserved subclasses str with inherited __eq__/__hash__',
    'a mapping key / path element that is some OTHER hashable object — a Key instance (a path used as a key: dict(view.items())), a tuple, a frozenset — '
    'is the opaque atom {"o": n} on the wire, DKey.obj n / PKey.obj n in the model (wp-SC18c): ONE key, compared by ==; modelled-not-verified: these '
    'objects are hashable, pairwise unequal in a case, `list[obj]` raises TypeError like `list[str]`; what is INSIDE a Key object is not modelled',
]
ASSUMPTIONS = [
    'leaves are int/str/None; ndarrays are int64, 1-D to 3-D, C-contiguous (owning arrays and views of them); dict keys are '
    'str/int/Index/Literal objects (an Index and the equal int never in one dict; str keys of ANY spelling, the spellings of the reserved keys included; '
    'never a Reserved OBJECT, a bool or a float as a dict key of the input: 1 == True == 1.0 collide by value like Index(1) == 1 and are not modelled); '
    'the view is built without key_paths; Key-object / tuple / frozenset dict keys come from a fixed pool of 11 pairwise unequal objects (a Key and the EQUAL '
    'plain tuple are never both used), are never passed bare (a bare Key is a path, a bare tuple a multi-key) and never meet an ndarray (`arr[()]`)',
    'no cyclic input data (in-place sets never store an ancestor); ndarray elements are assigned ints only where the get/set law is claimed',
]
RULE = ('heaps of <= ~25 cells (trees of depth <= 4 of dict/list/tuple with int/str/None/ndarray leaves, ~15% aliased '
        'sub-trees, NullMap or scalar roots now and then) with 1..5 operations drawn from copy-set / in-place set / '
        'copy_and_update / get / get-with-default / multi-key get / items / apply(map_fn) / normalize_keys; paths are '
        'existing, fresh (dict key, append, append+deeper), negative / out-of-range / wrongly-typed, with SELF, SKIP '
        'and Literal at head or inside, ~12% malformed (misaligned multi-key values, empty keys with values, strict views); '
        'small-exhaustive part: every path of length <= 2 over a fixed key alphabet on 6 fixed trees; '
        'plus two families: (a) trees with 1-D/2-D ndarray nodes (also as view root, also the same object twice, also VIEWS sharing a '
        'buffer with another array inside or outside the tree) and copying AND in-place sets / updates / reads / items / apply whose paths '
        'index into them (existing / negative / out-of-range index, key == len (AssertionError), str key, SELF / SKIP below the array, too '
        'deep; values: int, arrays of equal / broadcastable / incompatible shape incl. a view of the same buffer, flat / nested / ragged int '
        'lists, str, None, dict, NullMap) — model and code compared incl. buffer sharing; (a2, wp-C18D, drawn LAST) 2-D / 3-D arrays and views of a 3-D '
        "array's buffer, 1..3 axes resolved below the array by ints / Index / tuples of ints (full, partial, split, empty, out of range, too long), copying and "
        'in-place sets with values broadcast to the addressed block (equal shape, fewer dims, size-1 axes, surplus leading 1-axes, incompatible, nested lists / '
        'tuples, views of the same buffer, non-numeric), reads and multi-key reads — all predicted by the model; (b) iterate a view, derive a view by '
        'a copying set/update that changes the set of leaf paths (fresh key, append, leaf->subtree, subtree->leaf), iterate the '
        'derived view object itself, chains of these. Along a sequence the SAME view objects are used (the view an op returned is '
        'the one later ops read) and the items oracle is evaluated on every source and derived view object; '
        '(c) SC18, user keys that collide BY VALUE with reserved / special keys: dict keys drawn from a pool of PLAIN strings spelled '
        "'SELF', 'SKIP', '', 'Index(0)', 'Literal(1)', \"Reserved('SELF')\", 'DEFAULT_FILTER', '0', ... — fixed fresh paths through them on NullMap / {} / []; "
        'small-exhaustive: every path of length <= 2 (<= 3 on a 3-level tree) over an alphabet holding the plain AND the reserved spellings on trees with such keys '
        '(copying set + read back + items + apply, read + in-place set + items, multi-key set + read); a directed arm cycling operation kind x spelling x depth '
        '(the plain key 0..3 levels down, dict/list/tuple levels above it, siblings beside it, a random subtree below it; first op through the key, then read-back / '
        'items of the result / the same path with the RESERVED key swapped in / fresh paths through the spellings); the random arm again with 60% of the dicts keyed '
        'from the pool and 12% of the paths with one plain<->reserved swap. ENFORCED coverage (exit 2 otherwise): each of get / multi-key get / copying set / multi-key set / '
        "copy_and_update / in-place set / items / apply SUCCEEDED on an input root through a plain 'SELF' and through a plain 'SKIP' dict key at depth 0, 1 and >= 2; "
        '(d) SC18c, mapping KEYS that are path-like OBJECTS (Key instances incl. Key() and a Key holding a Key, tuples, a frozenset; wire {"o": n}): fixed flattened '
        "trees ({Key().a.b: 1, 'a': {'b': 2}} in both orders, dict(view.items()) shapes, below lists / tuples) with items / apply and every path of length <= 2 over key "
        'objects and their flattened elements (copying set + read back + items + apply, read + in-place set + items); a directed arm cycling operation kind x class '
        '(Key / tuple) x depth 0..3 (70%: the nested path the key SPELLS is a sibling; follow-ups: read-back, items / apply of the result, the flattened spelling read / '
        'set, fresh paths through key objects); the random arm with 60% of the dicts holding such keys. ENFORCED coverage (exit 2 otherwise, only for a run without '
        'violations): each of the 8 operation kinds SUCCEEDED through a Key-object key and through a tuple key at depth 0, 1 and >= 2; items and apply on a Key-object '
        'key next to the nested path it spells; '
        'non-trivial = at least one successful copying set/update/apply on a container root of depth >= 2')


# ----------------------------------------------------------------------------- decoding a case

def _tree():
  from ml_metrics._src.chainables import tree
  return tree


def keyobjs(T):
  """The OTHER hashable key objects of the cases (wire form {'o': n}; Lean `DKey.obj n` / `PKey.obj n`, an opaque atom):
  `Key` instances — a path used as a MAPPING KEY, which the library itself produces (`dict(view.items())` is a flattened
  tree keyed by Key objects) —, tuples, a frozenset.  Pairwise unequal (`Key(('a','b')) == ('a','b')`: a Key is a tuple).
  As a mapping key / path element each of them is ONE element whatever is inside it (seeded change C18-m5:
  `Key.at()` joining paths made `_dfs_iter_tree` list the flattened spelling)."""
  K = T.Key
  return [K().a.b, K(), K.new('a'), K.new(T.Index(0)), K().a.b.c, ('b', 'a'), ('a', 0), frozenset({'a'}), K.new('SELF'), ('p',),
          K.new(K().a, 'b')]


ATOM_CLASS = ['Key', 'Key', 'Key', 'Key', 'Key', 'tuple', 'tuple', 'frozenset', 'Key', 'tuple', 'Key']
# the flattened spelling of a Key-object key (what joining instead of appending would list), as wire path elements
ATOM_FLAT = {0: [{'s': 'a'}, {'s': 'b'}], 1: [], 2: [{'s': 'a'}], 3: [{'x': 0}], 4: [{'s': 'a'}, {'s': 'b'}, {'s': 'c'}],
             8: [{'s': 'SELF'}], 10: [{'o': 2}, {'s': 'b'}]}


def dcopy(o):
  """copy.deepcopy; a `Key` instance cannot be deep-copied (`Key.__getattr__` answers every attribute, `__deepcopy__`
  included, with a longer Key): then containers / arrays are copied and the (immutable) key objects and leaves kept."""
  try:
    return copy.deepcopy(o)
  except TypeError:
    pass

  def rec(x):
    if isinstance(x, dict):
      return {k: rec(v) for k, v in x.items()}
    if isinstance(x, list):
      return [rec(v) for v in x]
    if type(x) is tuple:
      return tuple(rec(v) for v in x)
    if isinstance(x, np.ndarray):
      return x.copy()
    return x
  return rec(o)


class World:
  """Python objects of a case: one object per heap cell (so aliasing is preserved)."""

  def __init__(self, case):
    T = _tree()
    self.T = T
    self.cells = case['heap']
    self.objs = {}
    self.lits = {}          # literal id -> Literal object
    self.lit_of = {}        # id(Literal object) -> (lit id, value ref)
    self.atoms = keyobjs(T)  # wire {'o': n}: the n-th OTHER hashable key object (Key instance, tuple, frozenset): ONE key
    for r in range(len(self.cells)):
      self.obj(r)

  def lit(self, lid, vref):
    if lid not in self.lits:
      o = self.T.Literal(self.obj(vref))
      self.lits[lid] = o
      self.lit_of[id(o)] = (lid, vref)
    return self.lits[lid]

  def dkey(self, k):
    if 'o' in k:
      return self.atoms[k['o']]
    if 's' in k:
      return k['s']
    if 'i' in k:
      return k['i']
    if 'x' in k:                     # an Index OBJECT held as a dict key (the model keeps key objects: DKey.idx)
      return self.T.Index(k['x'])
    return self.lit(k['l'], k['v'])

  def obj(self, r):
    if r in self.objs:
      return self.objs[r]
    c = self.cells[r]
    t = c['t']
    if t == 'dict':
      o = {self.dkey(k): self.obj(v) for k, v in c['es']}
    elif t == 'list':
      o = [self.obj(x) for x in c['rs']]
    elif t == 'tuple':
      o = tuple(self.obj(x) for x in c['rs'])
    elif t == 'int':
      o = int(c['v'])
    elif t == 'str':
      o = str(c['v'])
    elif t in ('arr', 'arr2', 'arr3'):   # 1-D / 2-D / 3-D integer ndarray owning its buffer
      o = np.array(c['v'], dtype=np.int64)
    elif t == 'view':                # another array object on the buffer of cell `of` (window off, shape)
      own = self.obj(c['of'])
      size = int(np.prod(c['shape'])) if c['shape'] else 1
      o = own.reshape(-1)[c['off']:c['off'] + size].reshape(c['shape'])
    elif t == 'none':
      o = None
    elif t == 'null':
      o = self.T.NullMap()
    else:
      raise ValueError(t)
    self.objs[r] = o
    return o

  def pkey(self, k):
    T = self.T
    if k == 'SELF':
      return T.Key.SELF
    if k == 'SKIP':
      return T.Key.SKIP
    if 'o' in k:
      return self.atoms[k['o']]
    if 's' in k:
      return k['s']
    if 'x' in k:
      return T.Index(k['x'])
    if 'i' in k:
      return k['i']
    if 't' in k:                     # a tuple of ints: numpy multi-dimensional index
      return tuple(k['t'])
    return self.lit(k['l'], k['v'])

  def path(self, p, bare=False):
    ks = [self.pkey(k) for k in p]
    # a bare Key object IS a path and a bare tuple a multi-key for `__getitem__` / `set`: a key OBJECT of those types is
    # only ever one path element inside a Key (never passed bare)
    if bare and len(ks) == 1 and not isinstance(ks[0], (tuple, frozenset)):
      return ks[0]
    return self.T.Key(tuple(ks))

  def keys(self, keys, bare=False, aslist=False):
    if keys == 'empty':
      return ()
    if 'path' in keys:
      return self.path(keys['path'], bare)
    ks = [self.path(p, bare) for p in keys['multi']]
    return ks if aslist else tuple(ks)

  def pkey_json(self, k):
    T = self.T
    if isinstance(k, (tuple, frozenset)):      # a Key instance / tuple / frozenset used as ONE key (Key subclasses tuple)
      for n, a in enumerate(self.atoms):
        if type(a) is type(k) and a == k:
          return {'o': n}
      if not (type(k) is tuple and all(isinstance(x, int) and not isinstance(x, bool) for x in k)):
        return {'?': repr(k)}
    if isinstance(k, T.Reserved):
      return str(k)
    if isinstance(k, T.Literal):
      lid, v = self.lit_of.get(id(k), (-1, -1))
      return {'l': lid, 'v': v}
    if isinstance(k, T.Index):
      return {'x': int(k)}
    if isinstance(k, bool):
      return {'b': k}
    if isinstance(k, tuple):
      return {'t': [int(x) for x in k]}
    if isinstance(k, int):
      return {'i': int(k)}
    if isinstance(k, str):
      return {'s': str(k)}
    return {'?': repr(k)}

  def dkey_json(self, k):
    """A key OBJECT held by a dict.  Index(i) and i are reported apart ({'x': i} / {'i': i}): a dict keeps the
    key object it was first given and items() lists it, and since wp-C18F the model does the same (DKey.idx vs
    DKey.int) — before, both sides were canonicalised to {'i': i} here."""
    j = self.pkey_json(k)
    if isinstance(j, str):      # Reserved('SKIP') == 'SKIP' as a dict key
      return {'s': j}
    return j

  def path_json(self, key):
    T = self.T
    if isinstance(key, T.Key):
      return [self.pkey_json(k) for k in key]
    return [self.pkey_json(key)]

  def dump(self, o):
    """Structure with raw identities, same shape as Driver.Tree.dump."""
    T = self.T
    if isinstance(o, dict):
      return {'t': 'dict', 'r': id(o), 'es': [[self.dkey_json(k), self.dump(v)] for k, v in o.items()]}
    if isinstance(o, list):
      return {'t': 'list', 'r': id(o), 'rs': [self.dump(v) for v in o]}
    if isinstance(o, tuple):
      return {'t': 'tuple', 'r': id(o), 'rs': [self.dump(v) for v in o]}
    if isinstance(o, T.NullMap):
      return {'t': 'null', 'r': id(o)}
    if isinstance(o, np.ndarray):
      if o.ndim == 0 or o.dtype != np.int64 or not o.flags['C_CONTIGUOUS']:
        return {'t': 'leaf', 'v': {'?': f'ndarray{o.shape}{o.dtype}'}}
      own = owner(o)
      off = (o.__array_interface__['data'][0] - own.__array_interface__['data'][0]) // 8 if o.size else 0
      _KEEP.append((own, o))      # alive until the case ends: ids are never reused
      # the array OBJECT, the BUFFER it lives in (identity of the owning array), its window and its elements
      return {'t': 'nd', 'r': id(o), 'b': ('buf', id(own)), 'off': int(off) if o.size else None,
              'shape': [int(x) for x in o.shape], 'v': [int(x) for x in o.reshape(-1).tolist()]}
    if o is None:
      return {'t': 'leaf', 'v': 'none'}
    if isinstance(o, bool):
      return {'t': 'leaf', 'v': {'bool': o}}
    if isinstance(o, (int, np.integer)):
      return {'t': 'leaf', 'v': {'int': int(o)}}
    if isinstance(o, str):
      return {'t': 'leaf', 'v': {'str': o}}
    return {'t': 'leaf', 'v': {'?': type(o).__name__}}


def owner(a):
  """The array that owns the memory `a` shows (end of the `.base` chain)."""
  while isinstance(a.base, np.ndarray):
    a = a.base
  return a


class Labels:
  """Identity -> label; pre-populated with the input heap, extended in first-seen order."""

  def __init__(self, initial):
    self.tab = dict(initial)
    self.nfresh = 0

  def of(self, ident):
    if ident not in self.tab:
      self.tab[ident] = f'fresh#{self.nfresh}'
      self.nfresh += 1
    return self.tab[ident]

  def relabel(self, d):
    t = d['t']
    if t == 'dict':
      return {'t': t, 'id': self.of(d['r']), 'es': [[k, self.relabel(v)] for k, v in d['es']]}
    if t in ('list', 'tuple'):
      out = {'t': t, 'rs': [self.relabel(v) for v in d['rs']]}
      if not (t == 'tuple' and not d['rs']):    # `()` is a singleton in CPython: no identity
        out['id'] = self.of(d['r'])
      return out
    if t == 'null':
      return {'t': t, 'id': self.of(d['r'])}
    if t == 'nd':
      b = d['b']
      if isinstance(b, list):
        b = tuple(b)
      size = 1
      for x in d['shape']:
        size *= x
      return {'t': t, 'id': self.of(d['r']), 'buf': self.of(b), 'off': d['off'] if size else None,
              'shape': d['shape'], 'v': d['v']}
    if t == 'leaf':
      v = d['v']
      return {'t': t, 'v': v}                    # scalars: CPython interning makes identity meaningless
    return d

  def obs(self, o):
    """Relabel one op observation, visiting the dumps in a fixed order."""
    out = {k: v for k, v in o.items() if k not in ('one', 'many', 'items', 'res', 'orig', 'changed')}
    if 'one' in o:
      out['one'] = self.relabel(o['one'])
    if 'many' in o:
      out['many'] = [self.relabel(x) for x in o['many']]
    if 'items' in o:
      out['items'] = [[p, self.relabel(x)] for p, x in o['items']]
    if 'res' in o:
      out['res'] = self.relabel(o['res'])
    if 'orig' in o:
      out['orig'] = self.relabel(o['orig'])
    if 'changed' in o:
      out['changed'] = sorted(self.tab[c] for c in o['changed'] if c in self.tab)
    return out


# ----------------------------------------------------------------------------- independent helpers (oracle)

def is_container(o):
  return isinstance(o, (dict, list, tuple))


def deq(a, b):
  """Deep structural equality, exact on container types and dict key order."""
  if type(a) is not type(b):
    return False
  if isinstance(a, dict):
    ka, kb = list(a.keys()), list(b.keys())
    if len(ka) != len(kb):
      return False
    def keq(x, y):
      if x is y:
        return True
      if type(x) is not type(y):
        return False
      if type(x).__name__ == 'Literal':      # deep copies get new Literal objects
        return deq(x.value, y.value)
      return x == y
    return all(keq(x, y) for x, y in zip(ka, kb)) and all(deq(a[x], b[y]) for x, y in zip(ka, kb))
  if isinstance(a, (list, tuple)):
    return len(a) == len(b) and all(deq(x, y) for x, y in zip(a, b))
  if isinstance(a, np.ndarray):
    return a.dtype == b.dtype and a.shape == b.shape and bool(np.array_equal(a, b))
  if type(a).__name__ == 'NullMap':
    return True
  return a == b


def same(a, b):
  """Identity for objects, value for interned scalars."""
  if a is b:
    return True
  if isinstance(a, (int, str)) and type(a) is type(b):
    return a == b
  if isinstance(a, tuple) and isinstance(b, tuple) and not a and not b:
    return True
  if isinstance(a, (np.generic, int)) and isinstance(b, (np.generic, int)) and not isinstance(a, bool) \
      and not isinstance(b, bool) and (isinstance(a, np.generic) or isinstance(b, np.generic)):
    return bool(a == b)              # an element read from an ndarray is a new numpy scalar each time
  if isinstance(a, np.ndarray) and isinstance(b, np.ndarray):
    return a.shape == b.shape and bool(np.array_equal(a, b))   # a row read from a 2-D array is a new view object
  return False


def nodes(o, seen=None, _visited=None):
  """Every container / ndarray / NullMap object reachable from o (each once), added to `seen`.
  The walk has its own visited set: objects already in `seen` may have got new children since."""
  seen = {} if seen is None else seen
  _visited = set() if _visited is None else _visited
  if id(o) in _visited:
    return seen
  _visited.add(id(o))
  if is_container(o) or isinstance(o, np.ndarray) or type(o).__name__ == 'NullMap':
    seen[id(o)] = o
  if isinstance(o, dict):
    for v in o.values():
      nodes(v, seen, _visited)
  elif isinstance(o, (list, tuple)):
    for v in o:
      nodes(v, seen, _visited)
  return seen


def shallow(o):
  """Shallow content of an object: children by identity (scalars by value)."""
  def ch(x):
    if x is None or isinstance(x, (int, str)):
      return ('v', type(x).__name__, x)
    if isinstance(x, tuple) and not x:
      return ('v', 'tuple', ())
    return ('id', id(x))
  if isinstance(o, dict):
    return ('dict', tuple((id(k) if hasattr(k, 'value') else (type(k).__name__, k), ch(v)) for k, v in o.items()))
  if isinstance(o, list):
    return ('list', tuple(ch(v) for v in o))
  if isinstance(o, tuple):
    return ('tuple', tuple(ch(v) for v in o))
  if isinstance(o, np.ndarray):
    return ('arr', tuple(o.tolist()))
  return ('other',)


def leaf_paths(T, o):
  """Independent DFS enumeration of the leaves of a container root: (path keys, leaf object).
  A leaf is anything that is not a non-empty dict/list/tuple."""
  out = []

  def rec(x, pre):
    if isinstance(x, dict) and x:
      for k, v in x.items():
        rec(v, pre + (k,))
    elif isinstance(x, (list, tuple)) and x:
      for i, v in enumerate(x):
        rec(v, pre + (T.Index(i),))
    else:
      out.append((pre, x))
  if is_container(o) and o:
    rec(o, ())
  return out


def node_paths(T, o, limit=60):
  """Canonical paths of every node (containers and leaves) below a container root."""
  out = []

  def rec(x, pre):
    if len(out) >= limit:
      return
    if pre:
      out.append(pre)
    if isinstance(x, dict):
      for k, v in x.items():
        if norm_key(T, k) is not None:
          rec(v, pre + (k,))
    elif isinstance(x, (list, tuple)):
      for i, v in enumerate(x):
        rec(v, pre + (T.Index(i),))
    elif isinstance(x, np.ndarray) and x.ndim >= 1:
      for i in range(min(len(x), 4)):
        rec(x[i], pre + (T.Index(i),))
  if isinstance(o, np.ndarray):
    rec(o, ())
  else:
    rec(o, ())
  return out


def norm_key(T, k):
  if isinstance(k, T.Reserved) or isinstance(k, T.Literal):
    return None
  if isinstance(k, str):
    return ('s', str(k))
  if isinstance(k, int) and not isinstance(k, bool):
    return ('i', int(k))
  # any other hashable key object is ONE key, compared by `==` (a Key instance is a tuple); a tuple of ints stays outside:
  # below an ndarray it is a numpy multi-dimensional index (judged by `_array_set_law`)
  if isinstance(k, frozenset):
    return ('o', k)
  if isinstance(k, tuple) and not (type(k) is tuple and all(isinstance(x, int) for x in k)):
    return ('o', tuple(k))
  return None


def plain_prefix(T, keys, allow_neg=False):
  """(normalised plain keys up to the first SELF, has_special) — None if SKIP/Literal/negatives interfere."""
  out = []
  for k in keys:
    if isinstance(k, T.Reserved):
      if str(k) == 'SELF':
        return out
      return None
    n = norm_key(T, k)
    if n is None or (n[0] == 'i' and n[1] < 0 and not allow_neg):
      return None
    out.append(n)
  return out


def incomparable(p, q):
  n = min(len(p), len(q))
  return p[:n] != q[:n]


def read(view, key):
  try:
    return ('ok', view[key])
  except (KeyError, IndexError, TypeError) as e:
    return ('err', err_kind(e))


def ref_map(fn, o):
  """Independent recursive leaf map (root must be a container)."""
  def rec(x):
    if isinstance(x, dict) and x:
      return {k: rec(v) for k, v in x.items()}
    if isinstance(x, list) and x:
      return [rec(v) for v in x]
    if isinstance(x, tuple) and x:
      return tuple(rec(v) for v in x)
    return fn(x)
  if is_container(o) and o:
    return rec(o)
  return o


def touches_arr(w, root, p, for_set=False):
  """Same rule as Driver.Tree.touchesArr: does the path index inside an ndarray leaf?"""
  cur = root
  for k in p:
    if k == 'SELF' or (for_set and k == 'SKIP') or (not for_set and isinstance(k, dict) and 'l' in k):
      return False
    if isinstance(cur, np.ndarray):
      return True
    kk = w.pkey(k)
    try:
      if isinstance(cur, dict):
        cur = cur[kk]
      elif isinstance(cur, (list, tuple)):
        if not isinstance(kk, int) or isinstance(kk, str):
          return False
        cur = cur[kk]
      else:
        return False
    except (KeyError, IndexError):
      return False
  return False


def has_arr(o):
  return any(isinstance(x, np.ndarray) for x in nodes(o).values())


def keys_paths(keys):
  if keys == 'empty':
    return []
  return [keys['path']] if 'path' in keys else keys['multi']


def plain_dicts(o):
  """All dict keys below o are plain str/int (no Literal / Reserved key objects)."""
  for x in nodes(o).values():
    if isinstance(x, dict):
      for k in x:
        # a Key instance / tuple / frozenset held as a dict key is an ordinary hashable key: ONE path element (SC18c)
        if type(k) not in (str, int) and type(k).__name__ != 'Index' and not isinstance(k, (tuple, frozenset)):
          return False
  return True


def canon_items_path(T, w, root, key):
  """Path listed by items(): every element as the object it is (Index(i) and i apart — the model keeps the key
  objects a dict holds); the only canonicalisation left is by *where* an element was found: a Reserved met as a
  dict key is that string (Reserved('SKIP') -> 'SKIP'); SELF alone is the root."""
  if not isinstance(key, T.Key):
    return [w.pkey_json(key)]
  out, cur = [], root
  for k in key:
    j = w.pkey_json(k)
    if isinstance(cur, dict):
      j = w.dkey_json(k)
    out.append(j)
    # Walk the DATA (not the view: `view[Literal]` short-circuits to the literal's value).  A Literal object
    # stored as a dict key by an earlier set is an ordinary hashable key for `dict.__getitem__`, so the walk
    # goes through it (wp-C18F: `cur` used to be dropped at a Literal; with the Index -> int canonicalisation of
    # dict keys that was in force then, an Index held as a dict key BELOW a Literal key was reported as a
    # sequence index while the model reported the int: a thorough-tier false alarm).
    try:
      cur = cur[k] if isinstance(cur, (dict, list, tuple)) else None
    except Exception:  # pylint: disable=broad-except
      cur = None
  return out


LEAF_FNS = {
    'none': None,
    'id': lambda x: x,
    'inc': lambda x: x + 1 if type(x) is int else x,
    'wrap': lambda x: [x],
    'pair': lambda x: (x, x),
    'const': lambda x: 7,
}


# ----------------------------------------------------------------------------- running the real code

def run_impl(case):
  T = _tree()
  w = World(case)
  labels = Labels({id(w.objs[r]): f'cell#{r}' for r, c in enumerate(case['heap'])
                   if c['t'] in ('dict', 'list', 'tuple', 'arr', 'arr2', 'arr3', 'view', 'null') and not (c['t'] == 'tuple' and not c['rs'])})
  for r, b in buffer_cells(case['heap']).items():      # the buffer of an owning array = the model's appended cell
    labels.tab[('buf', id(w.objs[r]))] = f'cell#{b}'
  known = {}            # id -> object: every identity-carrying object seen so far (kept alive)
  for r, o in w.objs.items():
    if id(o) in labels.tab:
      known[id(o)] = o
  strict = case['strict']
  results = []          # result root object per op (or a marker)
  NOROOT = object()
  ops_obs, laws = [], []
  # The SAME view objects are used along the sequence: one view per input root, and the view object an
  # operation returned is the one later operations read (never a view re-wrapped from `.data`), so state a
  # view carries over into derived views is part of what is observed.
  views = {}

  def view_for(spec, root):
    key = ('root', spec) if isinstance(spec, int) else ('res', spec['res'])
    v = views.get(key)
    if v is None or v.data is not root:
      v = T.TreeMapView(root, strict=strict)
      views[key] = v
    return v

  def law(i, msg):
    laws.append(f'op {i} ({case["ops"][i]["op"]}): {msg}')

  def one_op(i, op):
      kind = op['op']
      if kind == 'normalize':
        keys = w.keys(op['keys'], op.get('bare', False), op.get('aslist', False))
        try:
          out = T.normalize_keys(keys)
          ops_obs.append({'err': None, 'paths': [w.path_json(k) for k in out]})
        except Exception as e:  # pylint: disable=broad-except
          ops_obs.append({'err': err_kind(e)})
        results.append(NOROOT)
        return
      root = w.objs[op['root']] if isinstance(op['root'], int) else results[op['root']['res']]
      if root is NOROOT:       # the op this one builds on raised: skipped on both sides
        ops_obs.append({'skipped': True})
        results.append(NOROOT)
        return
      value = w.objs[op['value']] if 'value' in op else None
      in_place = bool(op.get('in_place', False))
      # Tuple-of-ints keys (numpy multi-dimensional indices) are in the Lean model for reads and single-path sets
      # (wp-C18D).  What is still outside (`unmodelled`, `_tuple_stored`): the model skips the op / answers `.other`;
      # the real code still runs it — copying ops only — and the oracle below judges it (no mutation of the
      # original arrays, get-after-set, frame); the observation stays 'skipped'.
      skip = unmodelled(op)
      stored = False
      if not skip and kind == 'set' and has_tuple_key(op):
        stored = _tuple_stored(T, root, w.keys(op['keys']), strict)
        skip = stored
      oracle_only = skip
      if skip and (in_place or kind not in ('get', 'getd', 'set', 'update')):
        ops_obs.append({'skipped': True, 'unmodelled': True} if stored else {'skipped': True})
        results.append(NOROOT)
        return
      before_nodes = dict(known)
      nodes(root, before_nodes)
      if value is not None:
        nodes(value, before_nodes)
      snap_shallow = {k: shallow(o) for k, o in before_nodes.items()}
      snap_deep = dcopy(root)
      value_snap = dcopy(value) if in_place and isinstance(value, np.ndarray) else value   # a view of the written buffer
      view = view_for(op['root'], root)
      obs, res_root = {}, NOROOT
      new_view = None
      if kind in ('set', 'update') and not in_place:
        _items_laws(T, w, law, i, view, 'source view before the copying op')   # also: the view has been iterated
      try:
        if kind in ('get', 'getd'):
          keys = w.keys(op['keys'], op.get('bare', False), op.get('aslist', False))
          sent = object()
          r = view[keys] if kind == 'get' else view.get(keys, sent)
          if r is sent:
            obs = {'err': None, 'default': True}
          elif not isinstance(keys, T.Key) and isinstance(keys, (tuple, list)):
            obs = {'err': None, 'many': [w.dump(x) for x in r]}
            if type(r) is not tuple:
              law(i, f'multi-key read returned {type(r).__name__}, not a tuple')
            # multi-key reads are aligned with the keys
            for k, x in zip(keys, r, strict=True):
              single = read(view, k if isinstance(k, T.Key) else T.Key((k,)))
              if single[0] != 'ok' or not same(single[1], x):
                law(i, f'multi-key read of {k!r} is not the single-key read')
          else:
            obs = {'err': None, 'one': w.dump(r)}
        elif kind == 'set':
          keys = w.keys(op['keys'], op.get('bare', False), op.get('aslist', False))
          nv = view.set(keys, value) if in_place else view.copy_and_set(keys, value)
          res_root = nv.data
          new_view = nv
          obs = {'err': None, 'res': w.dump(res_root)}
          if not in_place:
            _set_laws(T, w, law, i, op, view, nv, keys, value)
            _items_laws(T, w, law, i, nv, 'view returned by copy_and_set')
          else:
            if nv is not view:
              law(i, 'in-place set returned another view')
            if isinstance(keys, T.Key):
              _array_set_law(T, law, i, keys, value_snap, snap_deep, root, True)
        elif kind == 'update':
          pairs = [(w.path(p, op.get('bare', False)), w.objs[v]) for p, v in op['pairs']]
          other = dict(pairs) if op.get('asdict', False) else pairs
          nv = view.copy_and_update(other)
          res_root = nv.data
          new_view = nv
          obs = {'err': None, 'res': w.dump(res_root)}
          _items_laws(T, w, law, i, nv, 'view returned by copy_and_update')
          # sequential-set reference: later pairs win, earlier incomparable pairs survive
          for j, (k, v) in enumerate(pairs):
            pk = plain_prefix(T, list(k) if isinstance(k, T.Key) else [k])
            if pk is None:
              continue
            later = [plain_prefix(T, list(k2) if isinstance(k2, T.Key) else [k2]) for k2, _ in pairs[j + 1:]]
            # the slot kind (array element vs row) is judged on the RESULT: an earlier pair (e.g. SELF) may have
            # replaced the container the path runs through, and assigning an int to a ROW broadcasts (numpy)
            # (when no EARLIER pair is comparable with this path the input's judgement is kept as well: the
            # result then has the input's structure along the path — same rule as in `_set_laws`)
            earlier = [plain_prefix(T, list(k2) if isinstance(k2, T.Key) else [k2]) for k2, _ in pairs[:j]]
            untouched = all(e is not None and incomparable(pk, e) for e in earlier)
            kk = k if isinstance(k, T.Key) else T.Key((k,))
            if all(l is not None and incomparable(pk, l) for l in later) and \
                (_elementwise(T, nv, kk, v) or (untouched and _elementwise(T, view, kk, v))):
              got = read(nv, k if isinstance(k, T.Key) else T.Key((k,)))
              if got[0] != 'ok' or not same(got[1], v):
                law(i, f'after copy_and_update, {k!r} does not read the updated value')
        elif kind == 'items':
          its = list(view.items())
          # a Reserved('SKIP') met as a *dict key* is the string 'SKIP' (only SELF alone denotes the root)
          obs = {'err': None, 'items': [[canon_items_path(T, w, root, k), w.dump(v)] for k, v in its]}
          _items_laws(T, w, law, i, view, 'view', its)
        elif kind == 'apply':
          fn = LEAF_FNS[op['fn']]
          mv = T.TreeMapView.as_view(view, map_fn=fn) if fn is not None else view
          res_root = mv.apply()
          obs = {'err': None, 'res': w.dump(res_root)}
          if fn is None:
            if res_root is not root:
              law(i, 'apply() without map_fn did not return the data itself')
          elif is_container(root) and plain_dicts(root):
            want = ref_map(fn, root)
            if not deq(res_root, want):
              law(i, f'apply({op["fn"]}) = {res_root!r}, leaf-wise map = {want!r}')
        else:
          raise ValueError(kind)
      except (KeyError, IndexError, TypeError, ValueError, AssertionError, RecursionError) as e:
        obs = {'err': err_kind(e)}
        res_root = NOROOT
      # --- no-mutation / footprint, evaluated on the live objects
      changed = [k for k, o in before_nodes.items() if shallow(o) != snap_shallow[k]]
      if kind != 'set' or not in_place:
        if changed:
          law(i, f'{len(changed)} pre-existing object(s) were mutated')
        if not deq(root, snap_deep):
          law(i, 'the viewed data differs from its deep copy taken before the operation')
      else:
        allowed = _path_objects(T, w, root, op, snap_deep)
        # an array that shares memory with an array on the key path shows the written element too: that is
        # what aliasing means, it is not a second write
        on_path_arrays = [before_nodes[k] for k in allowed if k in before_nodes and isinstance(before_nodes[k], np.ndarray)]
        bad = [k for k in changed if k not in allowed and not (
            isinstance(before_nodes[k], np.ndarray) and any(np.shares_memory(before_nodes[k], a) for a in on_path_arrays))]
        if bad:
          law(i, 'in-place set changed an object that is not on the key path')
      if oracle_only:          # judged by the laws above; not part of the correspondence
        ops_obs.append({'skipped': True, 'unmodelled': True} if stored else {'skipped': True})
        results.append(NOROOT)
        _KEEP.append((view, res_root, new_view))
        return
      if kind in ('set', 'update', 'apply'):
        obs['orig'] = w.dump(root)
        obs['changed'] = changed
      if res_root is not NOROOT:
        views[('res', i)] = new_view if new_view is not None else T.TreeMapView(res_root, strict=strict)
      ro = labels.obs(obs)
      # keep every newly labelled object alive so ids are never reused
      if res_root is not NOROOT:
        nodes(res_root, known)
      for x in (obs.get('many') or []):
        pass
      ops_obs.append(ro)
      results.append(res_root)
      _KEEP.append((view, res_root))

  cyclic = False
  for i, op in enumerate(case['ops']):
    if cyclic:
      ops_obs.append({'skipped': True})
      results.append(NOROOT)
      continue
    n_obs, n_res = len(ops_obs), len(results)
    try:
      one_op(i, op)
    except RecursionError:
      # only a broken implementation gets here (a copying operation that writes into the viewed data can
      # close a cycle); it is a violation of the no-mutation law, not a harness failure
      del ops_obs[n_obs:]
      del results[n_res:]
      law(i, 'the operation produced cyclic data (RecursionError while observing it)')
      ops_obs.append({'err': 'RecursionError(observer)'})
      results.append(NOROOT)
      cyclic = True
  out = {'ops': ops_obs, 'laws': laws}
  _KEEP.clear()
  return out


_KEEP = []


def _items_laws(T, w, law, i, vw, what, its=None):
  """Iterating THIS view object lists every leaf of its data exactly once, in DFS order, with a path that
  reads back that leaf; keys()/values()/len() agree.  (Container roots with plain dict keys.)"""
  root = vw.data
  if not (is_container(root) and plain_dicts(root)):
    return
  try:
    if its is None:
      its = list(vw.items())
    want = leaf_paths(T, root)
    got = [(tuple(k) if isinstance(k, T.Key) else (k,), v) for k, v in its]
    if len(got) != len(want):
      law(i, f'{what}: items lists {len(got)} leaves, the tree has {len(want)}')
    else:
      for (gp, gv), (wp, wv) in zip(got, want):
        if len(gp) != len(wp) or any(not (a is b or (norm_key(T, a) is not None and norm_key(T, a) == norm_key(T, b)
                                                    and isinstance(a, T.Index) == isinstance(b, T.Index)))
                                    for a, b in zip(gp, wp)):
          law(i, f'{what}: items path {gp!r} where DFS order has {wp!r}')
          break
        if not same(gv, wv):
          law(i, f'{what}: items value at {gp!r} is not the leaf')
          break
    for k, v in its:
      back = read(vw, k)
      if back[0] != 'ok' or not same(back[1], v):
        law(i, f'{what}: path {k!r} listed by items does not read back its leaf')
    if [k for k, _ in its] != list(vw.keys()) or not all(same(a, b) for (_, a), b in zip(its, vw.values())):
      law(i, f'{what}: keys()/values() disagree with items()')
    if len(vw) != len(its):
      law(i, f'{what}: len(view) = {len(vw)} but items() lists {len(its)}')
  except (KeyError, IndexError, TypeError, ValueError) as e:
    law(i, f'{what}: iterating the view raised {err_kind(e)}')


def _path_objects(T, w, root, op, snap):
  """ids of the objects an in-place set may touch: the nodes met walking the key path(s) from the root
  (walked on the *current* objects; the path nodes are never replaced by an in-place set)."""
  allowed = set()
  keys = op['keys']
  paths = [keys['path']] if isinstance(keys, dict) and 'path' in keys else (keys['multi'] if isinstance(keys, dict) else [])
  for p in paths:
    cur = root
    allowed.add(id(cur))
    for k in p:
      kk = w.pkey(k)
      if isinstance(kk, T.Reserved):       # SELF / SKIP end the walk; a Literal is an ordinary dict key for `set`
        break
      try:
        cur = cur[kk]
      except Exception:  # pylint: disable=broad-except
        break
      allowed.add(id(cur))
  return allowed


def _into_array(T, root, key):
  """Does walking `key` from `root` index INTO an ndarray (an array met with keys still to go)?"""
  cur = root
  for k in key:
    if isinstance(k, (T.Reserved, T.Literal)):
      return False
    if isinstance(cur, np.ndarray):
      return True
    try:
      cur = cur[k]
    except Exception:  # pylint: disable=broad-except
      return False
  return False


def _array_split(T, root, key):
  """(prefix keys up to the first ndarray met with keys still to go, the numpy multi-index the remaining keys spell)
  when ALL remaining keys are ints / Index / tuples of ints; None otherwise."""
  cur, ks = root, list(key)
  for i, k in enumerate(ks):
    if isinstance(k, (T.Reserved, T.Literal)):
      return None
    if isinstance(cur, np.ndarray):
      idx = []
      for x in ks[i:]:
        if isinstance(x, tuple) and all(isinstance(y, int) and not isinstance(y, bool) for y in x):
          idx.extend(int(y) for y in x)
        elif isinstance(x, int) and not isinstance(x, bool):
          idx.append(int(x))
        else:
          return None
      return ks[:i], tuple(idx)
    try:
      cur = cur[k]
    except Exception:  # pylint: disable=broad-except
      return None
  return None


def _numpy_value(T, value):
  """The value as numpy sees it in an assignment, or None when it is not a (nested list of) int / an int array."""
  if isinstance(value, bool) or isinstance(value, (str, dict, T.NullMap)) or value is None:
    return None
  if isinstance(value, (int, np.integer, np.ndarray)):
    return value
  if isinstance(value, (list, tuple)):
    try:
      a = np.asarray(value)
    except Exception:  # pylint: disable=broad-except
      return None
    return value if a.dtype == np.int64 else None
  return None


def _array_set_law(T, law, i, key, value, old_root, new_root, in_place):
  """A set through a path INTO an ndarray (any depth, ints and tuples of ints below the array) is numpy's item
  assignment on the addressed item — of a COPY of the array (copying set) or of the array itself (in place): the
  array read back at the array's own path equals `expected = old.copy(); expected[i, j, ...] = value`, i.e. the
  addressed window holds the value BROADCAST to its shape (get after set, by value) and every element outside the
  window is the old one (frame inside the array).  Written from numpy's assignment, not from tree.py or the model."""
  sp = _array_split(T, old_root, key)
  nval = _numpy_value(T, value)
  if sp is None or nval is None or not sp[1]:
    return
  prefix, idx = sp
  old = read(T.TreeMapView(old_root), T.Key(tuple(prefix)))
  new = read(T.TreeMapView(new_root), T.Key(tuple(prefix)))
  if old[0] != 'ok' or not isinstance(old[1], np.ndarray):
    return
  if new[0] != 'ok' or not isinstance(new[1], np.ndarray):
    law(i, f'after a set into the array at {prefix!r} that path does not read an array any more')
    return
  expected = old[1].copy()
  try:
    expected[idx] = nval
  except (ValueError, TypeError, IndexError) as e:
    law(i, f'set of {key!r} succeeded although numpy rejects the assignment ({err_kind(e)})')
    return
  if new[1].shape != expected.shape or new[1].dtype != expected.dtype or not np.array_equal(new[1], expected):
    law(i, f'after setting {key!r} the array reads {new[1].tolist()!r}, numpy item assignment gives {expected.tolist()!r}')
  if not in_place and np.shares_memory(new[1], old[1]):
    law(i, f'the array returned by a copying set of {key!r} shares memory with the original')


def _elementwise(T, view, key, value):
  """For a path into an ndarray the get/set law is claimed when one ELEMENT is assigned an int (assigning
  a row or a sequence broadcasts by numpy's rules, which is not a tree operation)."""
  if not _into_array(T, view.data, key):
    return True
  old = read(view, key)
  return old[0] == 'ok' and isinstance(old[1], np.generic) and isinstance(value, int) and not isinstance(value, bool)


def _set_laws(T, w, law, i, op, view, nv, keys, value):
  """get-after-set, frame, set-same, SKIP — on the real views (copying set that succeeded)."""
  root = view.data
  if isinstance(keys, T.Key) or not isinstance(keys, (tuple, list)):
    plist = [(keys if isinstance(keys, T.Key) else T.Key((keys,)), value)]
  elif len(keys) == 0:
    plist = []
  else:
    vals = value if type(value) is tuple else (value,)
    if len(keys) == 1 and len(vals) > 1:
      vals = (value,)
    plist = [(k if isinstance(k, T.Key) else T.Key((k,)), v) for k, v in zip(keys, vals, strict=True)]
  norm = []
  for k, v in plist:
    ks = list(k)
    if ks and isinstance(ks[0], T.Reserved) and str(ks[0]) == 'SKIP':
      norm.append(('skip', k, v, None))
    else:
      norm.append(('set', k, v, plain_prefix(T, ks)))
  if len(plist) == 1 and norm[0][0] == 'set':
    _array_set_law(T, law, i, plist[0][0], plist[0][1], root, nv.data, False)
  # SKIP ignores its value: with only SKIP keys the data reads exactly as before
  if plist and all(n[0] == 'skip' for n in norm):
    if not deq(nv.data, root):
      law(i, f'a SKIP key changed the data: {nv.data!r} vs {root!r}')
  sets = [n for n in norm if n[0] == 'set']
  # get-after-set holds for negative indices too (a single path; the same key object reads the same slot)
  single_into_arr = len(plist) == 1 and len(sets) == 1 and _into_array(T, root, sets[0][1]) and \
      not any(isinstance(x, (T.Reserved, T.Literal)) for x in sets[0][1])
  if len(plist) == 1 and len(sets) == 1 and sets[0][3] is None and \
      (plain_prefix(T, list(sets[0][1]), allow_neg=True) is not None or single_into_arr) and \
      _elementwise(T, view, sets[0][1], sets[0][2]):
    got = read(nv, sets[0][1])
    if got[0] != 'ok' or not same(got[1], sets[0][2]):
      law(i, f'get after copy_and_set({sets[0][1]!r}) returned {got!r}, not the value set')
  if any(n[3] is None or any(t == 'i' and x < 0 for t, x in n[3]) for n in sets):
    return      # Literal / inner SKIP / negative indices: outside the get/set laws
  for j, (_, k, v, pk) in enumerate(sets):
    later = [n[3] for n in sets[j + 1:]]
    # The slot kind (array ELEMENT vs ROW) is judged on the RESULT (wp-C18F, same flaw as f25add5 in the
    # copy_and_update clause): an EARLIER pair of the same multi-key set may have replaced or created the
    # container this path runs through (`SELF`, or a prefix of this path, set to a 2-D array), and assigning an
    # int to a ROW broadcasts — numpy's rule, not a tree operation.  When no earlier pair is comparable with this
    # path the result has the input's structure along it, and the input's judgement is kept as well, so the
    # law is claimed at least as often as before on every input the old clause judged correctly.
    untouched = all(incomparable(pk, n[3]) for n in sets[:j])
    if all(incomparable(pk, l) for l in later) and \
        (_elementwise(T, nv, k, v) or (untouched and _elementwise(T, view, k, v))):
      got = read(nv, k)
      if got[0] != 'ok' or not same(got[1], v):
        law(i, f'get after copy_and_set({k!r}) returned {got!r}, not the value set')
  # frame: every node path of the original (and some fresh ones) incomparable with all set paths
  if is_container(root) or isinstance(root, np.ndarray):
    cands = node_paths(T, root)
    extra = []
    for q in cands[:12]:
      extra.append(q + ('zz',))
      extra.append(q + (T.Index(7),))
    for q in cands + extra:
      qn = [norm_key(T, x) for x in q]
      if all(incomparable(qn, n[3]) for n in sets):
        a, b = read(view, T.Key(q)), read(nv, T.Key(q))
        if a[0] != b[0] or (a[0] == 'ok' and not same(a[1], b[1])):
          law(i, f'frame: path {q!r} read {a!r} before and {b!r} after setting {[n[1] for n in sets]!r}')
          break
  # set-same: setting a path to its current value gives a structurally equal tree
  if len(sets) == 1:
    cur = read(view, sets[0][1])
    if cur[0] == 'ok' and same(cur[1], sets[0][2]) and not deq(nv.data, root):
      law(i, f'setting {sets[0][1]!r} to its current value changed the tree: {nv.data!r} vs {root!r}')


# ----------------------------------------------------------------------------- model side

def buffer_cells(heap):
  """Model cell index of the buffer of every owning array cell: buffers are appended after the case's cells."""
  out, n = {}, len(heap)
  for r, c in enumerate(heap):
    if c['t'] in ('arr', 'arr2', 'arr3'):
      out[r] = n
      n += 1
  return out


def has_tuple_key(op):
  """Does the op use a tuple-of-ints key (numpy multi-dimensional index) somewhere?"""
  def tk(p):
    return any(isinstance(k, dict) and 't' in k for k in p)
  if op['op'] in ('get', 'getd', 'set', 'normalize') and op.get('keys') != 'empty':
    return any(tk(p) for p in keys_paths(op['keys']))
  if op['op'] == 'update':
    return any(tk(p) for p, _ in op['pairs'])
  return False


def unmodelled(op):
  """Tuple-of-ints keys are in the Lean model since wp-C18D (`XKey.tup`, `getVX` / `setPathX`): every read, and every
  SINGLE-path set (copying or in place).  Still outside the model, decided from the op alone: `normalize_keys` of a
  tuple, and multi-path sets / updates with a tuple key (oracle only, as before).  Decided on the live objects
  (`_tuple_stored`): a set that would STORE a tuple as a dict key."""
  if not has_tuple_key(op):
    return False
  if op['op'] in ('get', 'getd'):
    return False
  if op['op'] == 'set' and isinstance(op['keys'], dict) and 'path' in op['keys']:
    return False
  return True


def _tuple_stored(T, root, key, strict):
  """Would `_set_by_path(root, key, ...)` meet a TUPLE key at a dict, or any tuple key at / below a NullMap of a
  non-strict view (`_default_tree` builds `{(i, j): ...}`)?  The model has no tuple dict keys (`DKey`): it answers
  `.other` exactly there (Model/Tree.lean `setPathX`), and the op is judged by the oracle alone."""
  cur = root
  ks = list(key)
  for i, k in enumerate(ks):
    if isinstance(k, T.Reserved) and str(k) in ('SELF', 'SKIP') and type(k) is T.Reserved:
      return False
    if isinstance(cur, T.NullMap):
      return (not strict) and any(isinstance(x, tuple) for x in ks[i:])
    if isinstance(cur, dict):
      if isinstance(k, tuple):
        return True
      try:
        cur = cur.get(k, None) if k in cur else T.NullMap()
      except TypeError:
        return False
      continue
    if isinstance(cur, (list, tuple)):
      if isinstance(k, tuple) or not isinstance(k, int):
        return False
      if k == len(cur):
        cur = T.NullMap()
        continue
      try:
        cur = cur[k]
      except IndexError:
        return False
      continue
    if isinstance(cur, np.ndarray) and cur.ndim > 0:
      if isinstance(k, int) and not isinstance(k, tuple) and k == len(cur):
        return False
      try:
        cur = cur[k]
      except (IndexError, TypeError, ValueError):
        return False
      continue
    return False
  return False


def _model_heap(heap):
  bufs = buffer_cells(heap)
  cells, extra = [], []
  for r, c in enumerate(heap):
    if c['t'] == 'arr':
      cells.append({'t': 'nd', 'b': bufs[r], 'off': 0, 'shape': [len(c['v'])]})
      extra.append({'t': 'buf', 'v': list(c['v'])})
    elif c['t'] == 'arr2':
      cells.append({'t': 'nd', 'b': bufs[r], 'off': 0, 'shape': [len(c['v']), len(c['v'][0]) if c['v'] else 0]})
      extra.append({'t': 'buf', 'v': [e for row in c['v'] for e in row]})
    elif c['t'] == 'arr3':
      a = np.array(c['v'], dtype=np.int64)
      cells.append({'t': 'nd', 'b': bufs[r], 'off': 0, 'shape': [int(x) for x in a.shape]})
      extra.append({'t': 'buf', 'v': [int(x) for x in a.reshape(-1).tolist()]})
    elif c['t'] == 'view':
      cells.append({'t': 'nd', 'b': bufs[c['of']], 'off': c['off'], 'shape': list(c['shape'])})
    else:
      cells.append(c)
  return cells + extra


def _model_op(op):
  if unmodelled(op):
    return {'op': op['op'], 'skip': True, 'root': op.get('root', 0)}
  return op


def model_requests(case):
  return [dict(model='tree', strict=case['strict'], heap=_model_heap(case['heap']), ops=[_model_op(o) for o in case['ops']])]


def model_obs(case, resps):
  n0 = len(case['heap']) + len(buffer_cells(case['heap']))
  labels = Labels({r: f'cell#{r}' for r in range(n0)})
  out = []
  for o in resps[0]['ops']:
    out.append(labels.obs(o))
  return {'ops': out}


def compare(impl, model):
  d = _compare(impl, model)
  if d is not None:
    _stat('verdict', 'disagreement')       # see `extra`: a coverage guard never masks a verdict
  return d


def _compare(impl, model):
  a, b = impl['ops'], model['ops']
  if len(a) != len(b):
    return f'{len(a)} vs {len(b)} observations'
  for i, (x, y) in enumerate(zip(a, b)):
    if x.get('unmodelled'):
      # the real code would store a TUPLE as a dict key: the model answers `.other` exactly there (and nowhere else)
      if y.get('err') != 'Exception':
        return f'op {i}: a tuple key stored in a dict is outside the model, but the model answered {y.get("err")!r}'
      continue
    if x != y:
      ks = sorted(set(x) | set(y))
      diff = [k for k in ks if x.get(k) != y.get(k)]
      return f'op {i}: fields {diff} differ'
  return None


def oracle(case, obs):
  return obs['laws'][0] if obs['laws'] else None


_STATS = {}


def _stat(key, sub, n=1):
  d = _STATS.setdefault(key, {})
  d[str(sub)] = d.get(str(sub), 0) + n


def extra(ctx):
  """Publishes what the run covered (collected while the runner walked the observations)."""
  for k, d in _STATS.items():
    for sub, n in d.items():
      ctx.count(k, sub, n)
  need = {'outcome': ['set:ok', 'set:KeyError', 'set:TypeError', 'set:ValueError', 'get:ok', 'get:KeyError',
                      'get:IndexError', 'get:TypeError', 'items:ok', 'apply:ok', 'update:ok', 'inplace:ok'],
          'sharing': ['result shares cells with input', 'result has fresh cells'],
          'ndarray': ['set into an array: ok', 'set into an array: KeyError', 'set into an array: AssertionError',
                      'inplace into an array: ok', 'get into an array: ok', 'get into an array: IndexError',
                      'read returned a new view of an input buffer', 'copying set returned a new array on a new buffer',
                      'in-place set kept the array object', 'in-place write seen through >= 2 array objects (aliases)',
                      'multi-key set into an array: ok'],
          'keyobj': ['set: a dict of the result holds an Index key object', 'items listed an Index held as a dict key'],
          'ndarray-deep': [f'{k}: {d} axes below the array, ok' for k in ('set', 'inplace', 'get') for d in ('1', '2', '3+')] +
                          [f'{k} with a tuple key: {e}' for k in ('set', 'inplace', 'get') for e in ('ok', 'KeyError' if k != 'get' else 'IndexError')] +
                          [f'{k} value {v}: ok' for k in ('set', 'inplace') for v in ('int', 'array', 'array (view)', 'list/tuple')]}
  missing = [f'{k}/{x}' for k, xs in need.items() for x in xs if not _STATS.get(k, {}).get(x)]
  if missing:
    ctx.notes.append('coverage holes: ' + ', '.join(missing))
  # ENFORCED (infrastructure failure, not a verdict): every operation kind succeeded on a path through a plain str key
  # spelled 'SELF' and one spelled 'SKIP', at depth 0, 1 and >= 2 (seeded change C18-m3 lives exactly there)
  holes = [x for x in RESERVED_NEED if not _STATS.get('reserved-spelling', {}).get(x)]
  # ENFORCED likewise (SC18c; seeded change C18-m5): every operation kind succeeded through a Key-object key and through a
  # tuple key at depth 0, 1 and >= 2; items / apply on a Key-object key lying next to the nested path it spells
  holes2 = [x for x in KEYOBJ_NEED if not _STATS.get('key-object', {}).get(x)]
  if holes or holes2:
    msg = 'C18 generator missed promised classes' + \
        (f' (keys spelled like reserved keys): {holes}' if holes else '') + \
        (f' (mapping keys that are path-like objects): {holes2}' if holes2 else '')
    # The classes count operations that SUCCEEDED: an implementation that is broken exactly there makes them fail, and
    # the run then HAS its verdict (disagreements / oracle failures).  A coverage guard must never mask a verdict: the
    # infrastructure failure is raised only for a run without any violation.
    if _STATS.get('verdict'):
      ctx.notes.append('coverage guard not enforced, the run has violations: ' + msg)
    else:
      from harness.core import InfraError
      raise InfraError(msg)


def _walk_ids(d, acc):
  if isinstance(d, dict):
    if 'id' in d:
      acc.append(d['id'])
    for v in d.get('rs', []):
      _walk_ids(v, acc)
    for _, v in d.get('es', []):
      _walk_ids(v, acc)


def _walk_nd(d, acc):
  if isinstance(d, dict):
    if d.get('t') == 'nd':
      acc.append(d)
    for v in d.get('rs', []):
      _walk_nd(v, acc)
    for _, v in d.get('es', []):
      _walk_nd(v, acc)


def _nd_stats(case, op, o, kind):
  """Which ndarray situations the correspondence covered (a path that indexes into an array)."""
  def into_arr(p):
    cur, heap = op.get('root'), case['heap']
    if not isinstance(cur, int):
      return None
    for k in p:
      c = heap[cur]
      if c['t'] in ('arr', 'arr2', 'arr3', 'view'):
        return True
      nxt = None
      if c['t'] == 'dict' and isinstance(k, dict):
        for dk, v in c['es']:
          if dk == k or (('i' in dk or 'x' in dk) and dk.get('i', dk.get('x')) == k.get('x', k.get('i', object()))):
            nxt = v
      elif c['t'] in ('list', 'tuple') and isinstance(k, dict) and ('x' in k or 'i' in k):
        i = k.get('x', k.get('i'))
        if -len(c['rs']) <= i < len(c['rs']):
          nxt = c['rs'][i]
      if nxt is None:
        return False
      cur = nxt
    return False
  if kind in ('set', 'inplace', 'get', 'getd') and op.get('keys') != 'empty':
    ps = keys_paths(op['keys'])
  elif kind == 'update':
    ps = [p for p, _ in op['pairs']]
  else:
    return
  if not any(into_arr(p) for p in ps):
    return
  _stat('ndarray', f"{kind} into an array: {o.get('err') or 'ok'}")
  # wp-C18D: depth below the array (axes resolved), tuple keys, kind of the value assigned
  def depth_in(p):
    cur, heap = op.get('root'), case['heap']
    for n, k in enumerate(p):
      c = heap[cur]
      if c['t'] in ('arr', 'arr2', 'arr3', 'view'):
        return sum(len(x['t']) if isinstance(x, dict) and 't' in x else 1 for x in p[n:])
      nxt = None
      if c['t'] == 'dict' and isinstance(k, dict):
        for dk, v in c['es']:
          if dk == k or (('i' in dk or 'x' in dk) and dk.get('i', dk.get('x')) == k.get('x', k.get('i', object()))):
            nxt = v
      elif c['t'] in ('list', 'tuple') and isinstance(k, dict) and ('x' in k or 'i' in k):
        i = k.get('x', k.get('i'))
        if -len(c['rs']) <= i < len(c['rs']):
          nxt = c['rs'][i]
      if nxt is None:
        return None
      cur = nxt
    return None
  ok = o.get('err') is None
  for p in ps:
    if into_arr(p):
      d = depth_in(p)
      tk = any(isinstance(k, dict) and 't' in k for k in p)
      if d is not None and ok:
        _stat('ndarray-deep', f"{kind}: {min(d, 3)}{'+' if d >= 3 else ''} axes below the array, ok")
      if tk:
        _stat('ndarray-deep', f"{kind} with a tuple key: {o.get('err') or 'ok'}")
  if kind in ('set', 'inplace') and 'value' in op and len(ps) == 1:
    vt = case['heap'][op['value']]['t']
    vt = {'arr': 'array', 'arr2': 'array', 'arr3': 'array', 'view': 'array (view)', 'list': 'list/tuple', 'tuple': 'list/tuple'}.get(vt, vt)
    _stat('ndarray-deep', f"{kind} value {vt}: {o.get('err') or 'ok'}")
  if kind == 'set' and isinstance(op.get('keys'), dict) and 'multi' in op['keys'] and len(ps) > 1:
    _stat('ndarray', f"multi-key set into an array: {o.get('err') or 'ok'}")
  acc = []
  for f in ('res', 'one'):
    if f in o:
      _walk_nd(o[f], acc)
  for x in o.get('many', []):
    _walk_nd(x, acc)
  for d in acc:
    fresh_obj, fresh_buf = d['id'].startswith('fresh#'), d['buf'].startswith('fresh#')
    if kind in ('get', 'getd') and fresh_obj and not fresh_buf:
      _stat('ndarray', 'read returned a new view of an input buffer')
    if kind in ('set', 'update') and fresh_obj and fresh_buf:
      _stat('ndarray', 'copying set returned a new array on a new buffer')
    if kind == 'inplace' and not fresh_obj:
      _stat('ndarray', 'in-place set kept the array object')
  if kind == 'inplace' and len(o.get('changed') or []) >= 2:
    _stat('ndarray', 'in-place write seen through >= 2 array objects (aliases)')


def _walk_dkeys(d, acc):
  if isinstance(d, dict):
    for k, v in d.get('es', []):
      acc.append(k)
      _walk_dkeys(v, acc)
    for v in d.get('rs', []):
      _walk_dkeys(v, acc)


def _keyobj_stats(case, op, o, kind):
  """Which dict-key OBJECT situations the correspondence covered (Index held as a dict key)."""
  for f in ('res', 'one'):
    if f in o:
      ks = []
      _walk_dkeys(o[f], ks)
      if any(isinstance(k, dict) and 'x' in k for k in ks):
        _stat('keyobj', f'{kind}: a dict of the result holds an Index key object')
  if kind == 'items' and o.get('err') is None:
    for p, _ in o.get('items', []):
      # an Index element followed by ... is a dict key iff the listed object sits in a dict; cheap proxy: the
      # same path read on the input heap meets a dict cell there (input roots only)
      cur, heap = op.get('root'), case['heap']
      if not isinstance(cur, int):
        break
      for k in p:
        c = heap[cur]
        if c['t'] == 'dict' and isinstance(k, dict):
          if 'x' in k:
            _stat('keyobj', 'items listed an Index held as a dict key')
          nxt = [v for dk, v in c['es'] if dk == k]
        elif c['t'] in ('list', 'tuple') and isinstance(k, dict) and 'x' in k and 0 <= k['x'] < len(c['rs']):
          nxt = [c['rs'][k['x']]]
        else:
          nxt = []
        if not nxt:
          break
        cur = nxt[0]


def nontrivial(case, obs):
  if obs.get('laws'):
    _stat('verdict', 'oracle failure')
  for op, o in zip(case['ops'], obs['ops']):
    kind = 'inplace' if op.get('in_place') else op['op']
    if not o.get('skipped'):
      _keyobj_stats(case, op, o, kind)
    if not o.get('skipped'):
      _nd_stats(case, op, o, kind)
      _reserved_stats(case, op, o, kind)
      _atom_stats(case, op, o, kind)
    if o.get('skipped'):
      _stat('outcome', kind + ':skipped')
      continue
    _stat('outcome', f"{kind}:{o.get('err') or 'ok'}")
    if 'res' in o and not op.get('in_place'):
      ids = []
      _walk_ids(o['res'], ids)
      if any(i.startswith('cell#') for i in ids):
        _stat('sharing', 'result shares cells with input')
      if any(i.startswith('fresh#') for i in ids):
        _stat('sharing', 'result has fresh cells')
    if o.get('changed'):
      _stat('sharing', 'in-place op changed %d cell(s)' % len(o['changed']))
  return _nontrivial(case, obs)


def _nontrivial(case, obs):
  root = case['heap'][case['root']] if case.get('root') is not None else None
  if root is None or root['t'] not in ('dict', 'list', 'tuple'):
    return False
  kids = root.get('rs') or [v for _, v in root.get('es', [])]
  deep = any(case['heap'][k]['t'] in ('dict', 'list', 'tuple') for k in kids)
  ok = any(op['op'] in ('set', 'update', 'apply') and not op.get('in_place') and o.get('err') is None
           for op, o in zip(case['ops'], obs['ops']))
  return deep and ok


def finding(case, what):
  return None


# ----------------------------------------------------------------------------- generation

# User data whose KEYS collide by value with the reserved / special keys of tree.py (work package SC18; the seeded
# change C18-m3 — `_is_key` comparing reserved keys by str VALUE — was invisible to a generator whose dict keys were
# 'a' 'b' 'c' 0 1).  `Key.SELF` / `Key.SKIP` are `Reserved` (a str subclass) instances: Reserved('SELF') == 'SELF',
# same hash.  A mapping with the ORDINARY str key 'SELF' or 'SKIP' is a legal tree and the key an ordinary key.  On
# the wire (case JSON, driver JSON) the reserved key is the bare string "SELF" / "SKIP" and the plain str key is
# {"s": "SELF"}; in the Lean model `PKey.self` / `PKey.skip` vs `PKey.str "SELF"`.
RESERVED_SPELLINGS = ['SELF', 'SKIP']
# further spellings that look like a special key's repr / value but are ordinary strings
LOOKALIKES = ['', 'Index(0)', 'Literal(1)', "Reserved('SELF')", 'DEFAULT_FILTER', '0', 'self', 'Key.SKIP']


def collide_pool(rng):
  """Three distinct plain str dict keys; 'SELF' / 'SKIP' are in it with probability ~0.75 each."""
  ks = [s for s in RESERVED_SPELLINGS if rng.random() < 0.75]
  rest = LOOKALIKES + ['a', 'b']
  while len(ks) < 3:
    c = rng.choice(rest)
    if c not in ks:
      ks.append(c)
  return [{'s': x} for x in ks]


def is_spelling(k):
  """the wire form of a PLAIN str key spelled like a reserved key"""
  return isinstance(k, dict) and k.get('s') in RESERVED_SPELLINGS


def swap_reserved(rng, p):
  """The same path with ONE element changed from the plain str key 'SELF'/'SKIP' to the reserved key of that spelling,
  or from a reserved key to the plain str: both directions of 'the implementation tells them apart'."""
  at = [i for i, k in enumerate(p) if is_spelling(k) or k in RESERVED_SPELLINGS]
  if not at:
    return None
  i = rng.choice(at)
  q = copy.deepcopy(p)
  q[i] = p[i]['s'] if isinstance(p[i], dict) else {'s': p[i]}
  return q


class Gen:
  """Builds a heap (cells only refer to earlier cells => acyclic), value pool and ops."""

  SKEYS = ['a', 'b', 'c', 'SKIP']
  IKEYS = [0, 1, 5]

  def __init__(self, rng, collide=0.0, atoms=0.0):
    self.rng = rng
    self.cells = []
    # probability that a dict holds OTHER hashable key objects (wire {'o': n}: Key instances, tuples, a frozenset; SC18c).
    # 0.0 = the generator of the earlier rounds, bit for bit (no extra draw).  With atoms: no ndarray leaves (`arr[()]`
    # / `arr[Key()]` is numpy's empty multi-index, not a tree key).
    self.atoms = atoms
    # probability that a dict draws its keys from COLLIDE_POOL (plain str keys that collide BY VALUE with the
    # reserved / special keys of tree.py).  0.0 = the generator of the earlier rounds, bit for bit (no extra draw).
    self.collide = collide

  def add(self, cell):
    self.cells.append(cell)
    return len(self.cells) - 1

  def leaf(self):
    r = self.rng.random()
    if r < 0.55:
      return self.add({'t': 'int', 'v': self.rng.choice([0, 1, 2, 3, 7, 1000, -4])})
    if r < 0.70:
      return self.add({'t': 'str', 'v': self.rng.choice(['', 'x', 'yz'])})
    if r < 0.88 and not self.atoms:
      return self.add({'t': 'arr', 'v': self.rng.choice([[1, 2], [], [0], [5], [3, 4, 5]])})
    return self.add({'t': 'none'})

  def node(self, depth, alias=0.15):
    rng = self.rng
    if depth <= 0 or rng.random() < 0.25:
      return self.leaf()
    if self.cells and rng.random() < alias:
      return rng.randrange(len(self.cells))
    kind = rng.choice(['dict', 'dict', 'list', 'tuple'])
    n = rng.choice([0, 1, 2, 2, 3])
    kids = [self.node(depth - 1, alias) for _ in range(n)]
    if kind == 'dict':
      ks = []
      pool = [{'s': s} for s in self.SKEYS[:3]] + [{'i': i} for i in self.IKEYS[:2]]
      if rng.random() < 0.12:          # an Index OBJECT as a key of an input dict (never next to the equal int)
        j = 3 + rng.randrange(2)
        pool[j] = {'x': pool[j]['i']}
      if self.collide and rng.random() < self.collide:
        pool = collide_pool(rng) + pool[3:]
      if self.atoms and rng.random() < self.atoms:
        ids = rng.sample(range(len(ATOM_CLASS)), rng.choice([1, 2, 2, 3]))
        for j, a in zip(rng.sample(range(len(pool)), len(ids)), ids):
          pool[j] = {'o': a}
      rng.shuffle(pool)
      es = [[pool[j], kids[j]] for j in range(n)]
      return self.add({'t': 'dict', 'es': es})
    return self.add({'t': kind, 'rs': kids})

  def children(self, r):
    c = self.cells[r]
    if c['t'] == 'dict':
      return [(k, v) for k, v in c['es']]
    if c['t'] in ('list', 'tuple'):
      return [({'x': i}, v) for i, v in enumerate(c['rs'])]
    return []

  def reach(self, r, acc=None):
    acc = set() if acc is None else acc
    if r in acc:
      return acc
    acc.add(r)
    for _, v in self.children(r):
      self.reach(v, acc)
    return acc

  def dkey_to_pkey(self, k, on_seq):
    rng = self.rng
    if 's' in k:
      return {'s': k['s']}
    if 'l' in k or 'o' in k:
      return dict(k)
    i = k.get('i', k.get('x'))
    if on_seq:
      return {'x': i} if rng.random() < 0.8 else {'i': i}
    return {'i': i} if rng.random() < 0.7 else {'x': i}

  def existing_path(self, root, maxlen=4):
    """Random walk from root; returns (path, ref reached)."""
    rng = self.rng
    p, cur = [], root
    L = rng.randrange(0, maxlen + 1)
    for _ in range(L):
      ch = self.children(cur)
      if not ch:
        break
      k, v = rng.choice(ch)
      on_seq = self.cells[cur]['t'] in ('list', 'tuple')
      pk = self.dkey_to_pkey(k, on_seq)
      if on_seq and rng.random() < 0.15:       # negative alias of the same slot
        n = len(self.cells[cur]['rs'])
        pk = {'x': (pk.get('x', pk.get('i')) - n)}
      p.append(pk)
      cur = v
    return p, cur

  def fresh_tail(self):
    rng = self.rng
    tails = [
        [{'s': 'n'}], [{'s': 'n'}, {'s': 'm'}], [{'x': 0}], [{'x': 0}, {'s': 'k'}], [{'i': 0}], [{'s': 'n'}, {'x': 0}],
        [{'x': 1}], [{'s': 'n'}, {'x': 2}], [{'s': 'n'}, 'SELF'], [{'s': 'n'}, 'SELF', {'s': 'z'}], [{'s': 'n'}, 'SKIP'],
        [{'s': 'n'}, 'SKIP', {'s': 'b'}], ['SELF'], ['SKIP'], ['SELF', {'s': 'q'}], ['SKIP', {'s': 'q'}],
    ]
    if self.collide and rng.random() < 0.5:      # fresh paths THROUGH plain str keys spelled like reserved keys
      tails = [
          [{'s': 'SELF'}], [{'s': 'SKIP'}], [{'s': 'n'}, {'s': 'SELF'}], [{'s': 'n'}, {'s': 'SKIP'}, {'s': 'x'}],
          [{'s': 'SELF'}, {'s': 'x'}], [{'s': 'SKIP'}, {'x': 0}], [{'s': 'SELF'}, 'SELF'], [{'s': 'SKIP'}, 'SKIP'],
          [{'s': 'n'}, {'s': 'SELF'}, {'s': 'SKIP'}], [{'x': 0}, {'s': 'SKIP'}], [{'s': 'SELF'}, 'SKIP', {'s': 'x'}],
          [{'s': ''}], [{'s': 'Index(0)'}, {'s': 'Literal(1)'}],
      ]
    return copy.deepcopy(rng.choice(tails))

  def path(self, root, nlits, pool):
    """A key path of a random flavour; returns (path, flavour, ref reached by the existing part).  With `collide`:
    now and then ONE plain 'SELF'/'SKIP' element is swapped for the reserved key of that spelling or vice versa."""
    p, fl, cur = self._path0(root, nlits, pool)
    if self.collide and self.rng.random() < 0.12:
      q = swap_reserved(self.rng, p)
      if q is not None:
        return q, 'swapped', cur
    return p, fl, cur

  def _path0(self, root, nlits, pool):
    rng = self.rng
    p, cur = self.existing_path(root)
    f = rng.random()
    c = self.cells[cur]
    if f < 0.30:
      return p, 'existing', cur
    if f < 0.50:
      return p + self.fresh_tail(), 'fresh', cur
    if f < 0.62 and c['t'] in ('list', 'tuple'):
      n = len(c['rs'])
      t = rng.choice([[{'x': n}], [{'x': n}, {'s': 'k'}], [{'x': n}, {'x': 0}], [{'x': n}, {'x': 1}], [{'i': n}],
                      [{'x': n + 1}], [{'x': -n - 1}], [{'s': 'a'}], [{'x': n}, 'SELF'], [{'x': n}, 'SKIP', {'s': 'u'}]])
      return p + copy.deepcopy(t), 'append/range', cur
    if f < 0.70:
      return p + ['SELF'] + ([{'s': 'a'}] if rng.random() < 0.4 else []), 'self', cur
    if f < 0.78:
      if rng.random() < 0.6:
        return ['SKIP'] + p, 'skip-head', cur
      return p + ['SKIP'] + ([{'s': 'a'}] if rng.random() < 0.4 else []), 'skip-inner', cur
    if f < 0.86 and nlits:
      lid = rng.randrange(nlits)
      at = rng.randrange(len(p) + 1)
      return p[:at] + [{'l': lid, 'v': pool['lits'][lid]}] + p[at:], 'literal', cur
    if f < 0.93:
      return p + [rng.choice([{'s': 'zz'}, {'x': 9}, {'i': 9}, {'x': -9}])] + (self.fresh_tail() if rng.random() < 0.5 else []), 'missing', cur
    return p, 'existing', cur


def make_case(rng, malformed=False, depth=None, collide=0.0, atoms=0.0):
  g = Gen(rng, collide, atoms)
  depth = rng.choice([1, 2, 3, 3, 4]) if depth is None else depth
  r = rng.random()
  if r < 0.05:
    root = g.add({'t': 'null'})
  elif r < 0.09:
    root = g.leaf()
  else:
    root = g.node(depth)
    tries = 0
    while g.cells[root]['t'] not in ('dict', 'list', 'tuple') and tries < 5:
      root = g.node(depth)
      tries += 1
  input_reach = g.reach(root)
  # value pool: scalars, small trees (may alias the input), tuples of values
  scal = [g.leaf() for _ in range(3)]
  trees = [g.node(2, alias=0.25) for _ in range(2)]
  g2_start = len(g.cells)
  clean = [g.add({'t': 'list', 'rs': [g.add({'t': 'int', 'v': 42})]}),
           g.add({'t': 'dict', 'es': [[{'s': 'v'}, g.add({'t': 'int', 'v': 43})]]})]
  tup2 = g.add({'t': 'tuple', 'rs': [rng.choice(scal), rng.choice(trees)]})
  tup3 = g.add({'t': 'tuple', 'rs': [rng.choice(scal), rng.choice(scal), rng.choice(trees)]})
  tup0 = g.add({'t': 'tuple', 'rs': []})
  tup1 = g.add({'t': 'tuple', 'rs': [rng.choice(scal)]})
  nlits = 2
  pool = {'lits': [rng.choice(scal), rng.choice(scal)]}   # scalar Literal values only (a Literal key holding a tree could close a cycle)
  values = scal + trees + clean + [tup2, tup1]
  strict = malformed and rng.random() < 0.3 or rng.random() < 0.05
  ops = []
  feats = []
  nops = rng.randrange(1, 6)
  roots_avail = [root]
  chain = {}      # op index -> True if it returns a root (we do not know yet whether it succeeds)
  for i in range(nops):
    # choose the tree this op works on: the input, or the result of an earlier root-producing op
    prev = [j for j in range(i) if ops[j]['op'] in ('set', 'update', 'apply')]
    tgt = root
    tgt_spec = root
    if prev and rng.random() < 0.6:
      j = prev[-1] if rng.random() < 0.7 else rng.choice(prev)
      tgt_spec = {'res': j}
      # paths are drawn from the input tree's shape (the result is usually similar); good enough
    k = rng.random()
    if k < 0.42:
      p, fl, cur = g.path(tgt, nlits, pool)
      op = {'op': 'set', 'root': tgt_spec, 'keys': {'path': p}, 'value': rng.choice(values), 'in_place': False}
      if fl == 'existing' and rng.random() < 0.35 and isinstance(tgt_spec, int) and not any(isinstance(x, dict) and 'l' in x for x in p):
        op['value'] = cur
        op['same'] = True
        fl = 'same'
      if len(p) == 1 and rng.random() < 0.5:
        op['bare'] = True
      feats.append('set:' + fl)
    elif k < 0.52:
      n = rng.choice([1, 2, 2, 3])
      ks = [g.path(tgt, nlits, pool)[0] for _ in range(n)]
      ks = [q for q in ks if q] or [[{'s': 'a'}]]
      n = len(ks)
      if malformed and rng.random() < 0.6:
        v = rng.choice([tup2, tup3, tup0, rng.choice(scal)])
      else:
        v = {1: rng.choice([tup1, rng.choice(scal), tup2]), 2: tup2, 3: tup3}[n]
      op = {'op': 'set', 'root': tgt_spec, 'keys': {'multi': ks}, 'value': v, 'in_place': False,
            'bare': rng.random() < 0.5, 'aslist': rng.random() < 0.2}
      feats.append('set:multi')
    elif k < 0.56:
      op = {'op': 'set', 'root': tgt_spec, 'keys': 'empty', 'value': rng.choice([tup0, tup1, rng.choice(scal)]),
            'in_place': False}
      feats.append('set:empty')
    elif k < 0.64:
      # in place: values that cannot create a cycle (fresh clean objects or scalars), input root only when
      # it was not shared with a value
      p, fl, cur = g.path(tgt, nlits, pool)
      # a value object used nowhere else (so no cycle can arise), or a scalar
      uniq_val = g.add({'t': 'list', 'rs': [g.add({'t': 'int', 'v': 50 + i})]})
      op = {'op': 'set', 'root': tgt_spec, 'keys': {'path': p}, 'value': rng.choice(scal + [uniq_val]), 'in_place': True}
      feats.append('inplace:' + fl)
    elif k < 0.72:
      n = rng.choice([0, 1, 2, 3])
      pairs = []
      for _ in range(n):
        q = g.path(tgt, nlits, pool)[0]
        if q:
          pairs.append([q, rng.choice(values)])
      # `asdict` builds a Python dict keyed by the Key tuples: paths that are EQUAL as tuples would collapse into one
      # entry — Index(1) == 1, and Reserved('SELF') == 'SELF' (the reserved key and the plain str of that spelling)
      uniq = len({repr([({'s': k} if isinstance(k, str) else k) for k in q]).replace("'x'", "'i'") for q, _ in pairs}) == len(pairs)
      nolit = not any(isinstance(x, dict) and 'l' in x for q, _ in pairs for x in q)
      op = {'op': 'update', 'root': tgt_spec, 'pairs': pairs, 'asdict': uniq and nolit and rng.random() < 0.6}
      feats.append('update')
    elif k < 0.80:
      p, fl, _ = g.path(tgt, nlits, pool)
      op = {'op': rng.choice(['get', 'get', 'getd']), 'root': tgt_spec, 'keys': {'path': p}}
      if len(p) == 1 and rng.random() < 0.5:
        op['bare'] = True
      feats.append('get:' + fl)
    elif k < 0.86:
      n = rng.choice([1, 2, 3])
      ks = [g.path(tgt, nlits, pool)[0] for _ in range(n)]
      if rng.random() < 0.1:
        op = {'op': 'get', 'root': tgt_spec, 'keys': 'empty'}
      else:
        op = {'op': rng.choice(['get', 'get', 'getd']), 'root': tgt_spec, 'keys': {'multi': ks},
              'bare': rng.random() < 0.5, 'aslist': rng.random() < 0.2}
      feats.append('get:multi')
    elif k < 0.92:
      op = {'op': 'items', 'root': tgt_spec}
      feats.append('items')
    elif k < 0.98:
      op = {'op': 'apply', 'root': tgt_spec, 'fn': rng.choice(['inc', 'wrap', 'pair', 'const', 'id', 'none'])}
      feats.append('apply')
    else:
      ks = [g.path(tgt, nlits, pool)[0] for _ in range(rng.choice([1, 2]))]
      op = {'op': 'normalize', 'keys': rng.choice([{'path': ks[0]}, {'multi': ks}, 'empty']),
            'bare': rng.random() < 0.5, 'aslist': rng.random() < 0.3}
      feats.append('normalize')
    ops.append(op)
  case = {'strict': bool(strict), 'heap': g.cells, 'root': root, 'ops': ops}
  return case, feats


FIXED_TREES = [
    # (cells, root)
    ([{'t': 'int', 'v': 1}, {'t': 'int', 'v': 2}, {'t': 'dict', 'es': [[{'s': 'a'}, 0], [{'s': 'b'}, 1]]}], 2),
    ([{'t': 'int', 'v': 1}, {'t': 'int', 'v': 2}, {'t': 'list', 'rs': [0, 1]}], 2),
    ([{'t': 'int', 'v': 1}, {'t': 'int', 'v': 2}, {'t': 'tuple', 'rs': [0, 1]}], 2),
    ([{'t': 'int', 'v': 1}, {'t': 'tuple', 'rs': [0]}, {'t': 'list', 'rs': [1]}, {'t': 'dict', 'es': [[{'s': 'a'}, 2], [{'i': 0}, 1]]}], 3),
    ([{'t': 'null'}], 0),
    ([{'t': 'dict', 'es': []}, {'t': 'list', 'rs': []}, {'t': 'dict', 'es': [[{'s': 'a'}, 0], [{'s': 'b'}, 1]]}], 2),
    # Index OBJECTS held as dict keys (Index(0) in the root, Index(1) one level down)
    ([{'t': 'int', 'v': 1}, {'t': 'dict', 'es': [[{'x': 1}, 0]]}, {'t': 'dict', 'es': [[{'x': 0}, 1], [{'s': 'a'}, 0]]}], 2),
]
ALPHABET = [{'s': 'a'}, {'s': 'n'}, {'x': 0}, {'x': 1}, {'x': 2}, {'x': -1}, {'i': 0}, 'SELF', 'SKIP']


def exhaustive_cases():
  for cells, root in FIXED_TREES:
    n = len(cells)
    base = copy.deepcopy(cells) + [{'t': 'int', 'v': 99}, {'t': 'int', 'v': 98}]
    v = n
    base.append({'t': 'tuple', 'rs': [n, n + 1]})
    paths = [[]] + [[a] for a in ALPHABET] + [[a, b] for a in ALPHABET for b in ALPHABET]
    for p in paths:
      yield {'strict': False, 'heap': copy.deepcopy(base), 'root': root, 'ops': [
          {'op': 'set', 'root': root, 'keys': {'path': p}, 'value': v, 'in_place': False},
          {'op': 'get', 'root': {'res': 0}, 'keys': {'path': p}},
          {'op': 'items', 'root': {'res': 0}},
      ]}
      yield {'strict': False, 'heap': copy.deepcopy(base), 'root': root, 'ops': [
          {'op': 'get', 'root': root, 'keys': {'path': p}},
          {'op': 'set', 'root': root, 'keys': {'path': p}, 'value': v, 'in_place': True},
          {'op': 'items', 'root': root},
      ]}
    for a in ALPHABET:
      for b in ALPHABET:
        yield {'strict': False, 'heap': copy.deepcopy(base), 'root': root, 'ops': [
            {'op': 'set', 'root': root, 'keys': {'multi': [[a], [b]]}, 'value': n + 2, 'in_place': False, 'bare': True},
            {'op': 'get', 'root': {'res': 0}, 'keys': {'multi': [[a], [b]]}, 'bare': True},
        ]}


def make_arr_case(rng):
  """Trees with ndarray nodes (1-D, 2-D, views sharing a buffer with another array of the case) and operations
  whose paths index into the arrays — copying AND in-place sets, updates, reads: existing, negative and
  out-of-range indices, `key == len(arr)` (AssertionError), str keys, SELF/SKIP below an array, too deep
  paths, the array as view root; values: ints, other arrays (same shape, broadcastable, not broadcastable,
  a view of the SAME buffer), flat / nested int lists and tuples, str, None, dict, NullMap.  Both sides
  report object identity, buffer identity, window and elements of every array.  A tuple-of-ints key on a 2-D
  array is outside the model: oracle only."""
  g = Gen(rng)
  a1 = g.add({'t': 'arr', 'v': rng.choice([[1, 2, 3], [10, 20], [7], [0]])})
  a2 = g.add({'t': 'arr2', 'v': rng.choice([[[0, 1, 2], [3, 4, 5]], [[1, 2], [3, 4], [5, 6]], [[8], [9]]])})
  a3 = g.add({'t': 'arr', 'v': [4, 5, 6, 7]})
  n2, m2 = len(g.cells[a2]['v']), len(g.cells[a2]['v'][0])
  # views: a row of a2 (shares a2's buffer), a window of a3, a 2-D reshaped window of a3
  v_row = g.add({'t': 'view', 'of': a2, 'off': m2 * rng.randrange(n2), 'shape': [m2]})
  v_win = g.add({'t': 'view', 'of': a3, 'off': rng.choice([0, 1, 2]), 'shape': [2]})
  v_22 = g.add({'t': 'view', 'of': a3, 'off': 0, 'shape': [2, 2]})
  leaf = g.add({'t': 'int', 'v': 3})
  shape = rng.randrange(7)
  if shape == 0:      # {'model': {'scores': a1}, 'rows': [a2], 'b': 3}
    inner = g.add({'t': 'dict', 'es': [[{'s': 'scores'}, a1]]})
    rows = g.add({'t': 'list', 'rs': [a2]})
    root = g.add({'t': 'dict', 'es': [[{'s': 'model'}, inner], [{'s': 'rows'}, rows], [{'s': 'b'}, leaf]]})
    arrs = [([{'s': 'model'}, {'s': 'scores'}], a1), ([{'s': 'rows'}, {'x': 0}], a2)]
  elif shape == 1:    # [a1, (a2, 3), a3]
    tup = g.add({'t': 'tuple', 'rs': [a2, leaf]})
    root = g.add({'t': 'list', 'rs': [a1, tup, a3]})
    arrs = [([{'x': 0}], a1), ([{'x': 1}, {'x': 0}], a2), ([{'x': 2}], a3)]
  elif shape == 2:    # the array is the root of the view
    root = rng.choice([a1, a2, v_22, v_row])
    arrs = [([], root)]
  elif shape == 3:    # the same array object at two places
    root = g.add({'t': 'dict', 'es': [[{'s': 'a'}, a1], [{'s': 'b'}, a1], [{'i': 0}, a2]]})
    arrs = [([{'s': 'a'}], a1), ([{'s': 'b'}], a1), ([{'i': 0}], a2)]
  elif shape == 4:    # an array and a view of its buffer in the same tree
    root = g.add({'t': 'dict', 'es': [[{'s': 'a'}, a2], [{'s': 'row'}, v_row], [{'s': 'n'}, leaf]]})
    arrs = [([{'s': 'a'}], a2), ([{'s': 'row'}], v_row)]
  elif shape == 5:    # two overlapping views of a3 (a3 itself outside the tree)
    root = g.add({'t': 'list', 'rs': [v_win, v_22, a1]})
    arrs = [([{'x': 0}], v_win), ([{'x': 1}], v_22), ([{'x': 2}], a1)]
  else:               # ({'a': a3},)
    d = g.add({'t': 'dict', 'es': [[{'s': 'a'}, a3], [{'s': 'n'}, leaf]]})
    root = g.add({'t': 'tuple', 'rs': [d]})
    arrs = [([{'x': 0}, {'s': 'a'}], a3)]
  ints = [g.add({'t': 'int', 'v': v}) for v in (99, -7, 0)]
  i7, i8 = g.add({'t': 'int', 'v': 7}), g.add({'t': 'int', 'v': 8})
  avals = [g.add({'t': 'arr', 'v': [7, 8, 9]}), g.add({'t': 'arr', 'v': [7, 8]}), g.add({'t': 'arr', 'v': [5]}),
           g.add({'t': 'arr2', 'v': [[7, 8, 9]]}), g.add({'t': 'arr2', 'v': [[7], [8]]}), g.add({'t': 'arr2', 'v': [[1, 2], [3, 4]]}),
           v_row, v_win, a1]
  lvals = [g.add({'t': 'list', 'rs': [i7, i8]}), g.add({'t': 'tuple', 'rs': [i7, i8, i7]}), g.add({'t': 'list', 'rs': [i7]}),
           g.add({'t': 'list', 'rs': []})]
  lvals.append(g.add({'t': 'list', 'rs': [lvals[0], lvals[0]]}))          # nested, rectangular
  lvals.append(g.add({'t': 'list', 'rs': [i7, lvals[2]]}))               # ragged
  other = [g.add({'t': 'str', 'v': 'x'}), g.add({'t': 'none'}), g.add({'t': 'dict', 'es': [[{'s': 'k'}, i7]]}),
           g.add({'t': 'null'}), g.add({'t': 'list', 'rs': [g.add({'t': 'str', 'v': 'x'})]})]

  def shape_of(cell):
    c = g.cells[cell]
    if c['t'] == 'arr':
      return [len(c['v'])]
    if c['t'] == 'arr2':
      return [len(c['v']), len(c['v'][0])]
    return list(c['shape'])

  def into(pre, cell):
    sh = shape_of(cell)
    n = sh[0]
    if len(sh) == 1:
      ok = [[{'x': rng.randrange(n)}], [{'x': -1}], [{'i': rng.randrange(n)}]]
      odd = [[{'x': n}], [{'x': -n - 1}], [{'x': n + 1}], [{'x': 0}, {'x': 0}], [{'s': 'a'}], [{'x': 0}, 'SELF'],
             [{'x': 0}, 'SKIP'], ['SELF'], [{'x': 0}, 'SELF', {'s': 'q'}]]
    else:
      m = sh[1]
      i, j = rng.randrange(n), rng.randrange(m)
      ok = [[{'x': i}, {'x': j}], [{'x': i}, {'x': -1}], [{'x': -1}, {'x': j}], [{'x': i}], [{'i': i}, {'i': j}]]
      odd = [[{'t': [i, j]}], [{'x': n}, {'x': 0}], [{'x': n}], [{'x': i}, {'x': m}], [{'x': i}, {'x': m + 1}], [{'x': i}, {'s': 'a'}],
             [{'x': i}, {'x': j}, {'x': 0}], [{'x': i}, 'SELF'], [{'x': i}, 'SKIP'], [{'x': i}, {'x': j}, 'SELF'], [{'x': -n - 1}],
             [{'x': i}, 'SKIP', {'x': 0}]]
    tail = rng.choice(odd) if rng.random() < 0.3 else rng.choice(ok)
    return pre + copy.deepcopy(tail)

  def value():
    r = rng.random()
    if r < 0.45:
      return rng.choice(ints)
    if r < 0.70:
      return rng.choice(avals)
    if r < 0.85:
      return rng.choice(lvals)
    return rng.choice(other)

  ops = []
  cur = root
  for _ in range(rng.randrange(1, 5)):
    pre, cell = rng.choice(arrs)
    p = into(pre, cell)
    k = rng.random()
    v = value()
    tgt = cur if rng.random() < 0.5 else root
    if k < 0.40:
      ops.append({'op': 'set', 'root': tgt, 'keys': {'path': p}, 'value': v, 'in_place': False})
      cur = {'res': len(ops) - 1}
    elif k < 0.55:
      # in place, on the input tree: values that cannot create a cycle (ints, arrays, flat lists of ints)
      ops.append({'op': 'set', 'root': root, 'keys': {'path': p}, 'value': rng.choice(ints + avals + lvals[:4]), 'in_place': True})
    elif k < 0.65:
      pre2, cell2 = rng.choice(arrs)
      ops.append({'op': 'update', 'root': tgt, 'pairs': [[p, v], [into(pre2, cell2), rng.choice(ints)]], 'asdict': False})
      cur = {'res': len(ops) - 1}
    elif k < 0.72:
      # multi-key copying set whose FIRST pair replaces (SELF, the array's own path, a prefix of it) or creates the
      # container the SECOND path runs through — by an array of another rank now and then — or is unrelated; the
      # second pair then assigns into an element or a ROW of whatever is there in the result (wp-C18F)
      first = rng.choice([['SELF'], list(pre), list(pre[:-1]) or ['SELF'], into(*rng.choice(arrs)), [{'s': 'fresh'}]])
      v1 = rng.choice(avals + avals + ints + lvals[:2])
      second = p if rng.random() < 0.8 else first + copy.deepcopy(rng.choice([[{'x': 0}], [{'x': 0}, {'x': 1}], [{'x': -1}]]))
      pair = [[first or ['SELF'], v1], [second, rng.choice(ints) if rng.random() < 0.8 else v]]
      if rng.random() < 0.25:
        pair.reverse()
      tup = g.add({'t': 'tuple', 'rs': [pair[0][1], pair[1][1]]})
      ops.append({'op': 'set', 'root': tgt, 'keys': {'multi': [pair[0][0], pair[1][0]]}, 'value': tup, 'in_place': False,
                  'bare': False, 'aslist': rng.random() < 0.2})
      cur = {'res': len(ops) - 1}
    elif k < 0.8:
      ops.append({'op': rng.choice(['get', 'getd']), 'root': tgt, 'keys': {'path': p}})
    elif k < 0.88:
      pre2, cell2 = rng.choice(arrs)
      ops.append({'op': 'get', 'root': tgt, 'keys': {'multi': [p, into(pre2, cell2)]}})
    elif k < 0.94:
      ops.append({'op': 'items', 'root': tgt})
    else:
      ops.append({'op': 'apply', 'root': tgt, 'fn': rng.choice(['inc', 'wrap', 'id', 'const'])})
  return {'strict': False, 'heap': g.cells, 'root': root, 'ops': ops}


def make_deep_arr_case(rng):
  """wp-C18D: 2-D and 3-D arrays (owning, and views of a 3-D array: a 2-D block, a 1-D row), paths of depth 1..3 INTO them
  spelled with ints, Index objects, TUPLES of ints (full, partial, empty, mixed with ints, negative, out of range, too long)
  — copying and in-place sets, reads, multi-key reads; values: ints, arrays broadcast to the addressed block (equal shape,
  fewer dimensions, size-1 axes, surplus leading 1-axes, incompatible), nested int lists / tuples, views of the SAME
  buffer, non-numeric values.  The model predicts all of them (tuple keys through `XKey.tup`)."""
  g = Gen(rng)
  v3 = rng.choice([
      [[[0, 1], [2, 3], [4, 5]], [[6, 7], [8, 9], [10, 11]]],                       # 2 x 3 x 2
      [[[1, 2, 3]], [[4, 5, 6]], [[7, 8, 9]]],                                      # 3 x 1 x 3
      [[[1], [2]], [[3], [4]]],                                                     # 2 x 2 x 1
  ])
  a3 = g.add({'t': 'arr3', 'v': v3})
  sh3 = [len(v3), len(v3[0]), len(v3[0][0])]
  a2 = g.add({'t': 'arr2', 'v': rng.choice([[[0, 1, 2], [3, 4, 5]], [[1, 2], [3, 4], [5, 6]]])})
  sh2 = [len(g.cells[a2]['v']), len(g.cells[a2]['v'][0])]
  blk = rng.randrange(sh3[0])
  v_blk = g.add({'t': 'view', 'of': a3, 'off': blk * sh3[1] * sh3[2], 'shape': [sh3[1], sh3[2]]})     # a3[blk]
  v_row = g.add({'t': 'view', 'of': a3, 'off': blk * sh3[1] * sh3[2], 'shape': [sh3[2]]})             # a3[blk][0]
  leaf = g.add({'t': 'int', 'v': 3})
  lay = rng.randrange(5)
  if lay == 0:
    inner = g.add({'t': 'dict', 'es': [[{'s': 'w'}, a3]]})
    root = g.add({'t': 'dict', 'es': [[{'s': 'm'}, inner], [{'s': 'q'}, a2], [{'s': 'b'}, leaf]]})
    arrs = [([{'s': 'm'}, {'s': 'w'}], a3, sh3), ([{'s': 'q'}], a2, sh2)]
  elif lay == 1:
    root = g.add({'t': 'list', 'rs': [a3, a2, leaf]})
    arrs = [([{'x': 0}], a3, sh3), ([{'x': 1}], a2, sh2)]
  elif lay == 2:
    root = a3
    arrs = [([], a3, sh3)]
  elif lay == 3:      # the array and two views of its buffer in one tree
    root = g.add({'t': 'dict', 'es': [[{'s': 'a'}, a3], [{'s': 'blk'}, v_blk], [{'s': 'row'}, v_row]]})
    arrs = [([{'s': 'a'}], a3, sh3), ([{'s': 'blk'}], v_blk, [sh3[1], sh3[2]])]
  else:
    tup = g.add({'t': 'tuple', 'rs': [a3, leaf]})
    root = g.add({'t': 'dict', 'es': [[{'s': 't'}, tup], [{'i': 0}, a2]]})
    arrs = [([{'s': 't'}, {'x': 0}], a3, sh3), ([{'i': 0}], a2, sh2)]
  ints = [g.add({'t': 'int', 'v': v}) for v in (99, -7, 0)]
  i7, i8 = g.add({'t': 'int', 'v': 7}), g.add({'t': 'int', 'v': 8})

  def nested(shape, base=20):
    """cells of a nested int list of the given shape"""
    if not shape:
      return g.add({'t': 'int', 'v': base})
    return g.add({'t': rng.choice(['list', 'list', 'tuple']), 'rs': [nested(shape[1:], base + 10 * k) for k in range(shape[0])]})

  def arr_of(shape, base=50):
    n = 1
    for x in shape:
      n *= x
    flat = list(range(base, base + n))
    a = np.array(flat).reshape(shape).tolist()
    return g.add({'t': {1: 'arr', 2: 'arr2', 3: 'arr3'}[len(shape)], 'v': a})

  def value_for(s):
    """a value for a window of shape `s`: mostly one numpy can broadcast to it"""
    r = rng.random()
    if r < 0.25 or not s:
      return rng.choice(ints) if rng.random() < 0.9 or s else nested([2])
    if r < 0.40:
      return arr_of(list(s))                                          # equal shape
    if r < 0.52:
      return arr_of(list(s[1:])) if len(s) > 1 else arr_of([1])       # fewer dimensions / size-1 axis
    if r < 0.62:
      t = [1 if rng.random() < 0.5 else x for x in s]
      return arr_of(t)                                                # size-1 axes
    if r < 0.68 and len(s) < 3:
      return arr_of([1] * (3 - len(s)) + list(s))                     # surplus leading 1-axes
    if r < 0.80:
      return nested(list(s) if rng.random() < 0.6 else list(s[1:]) or [1])
    if r < 0.88:
      return rng.choice([v_blk, v_row, a2])                           # a view of the same buffer / another array
    if r < 0.94:
      return arr_of([x + 1 for x in s])                               # not broadcastable
    return rng.choice([g.add({'t': 'str', 'v': 'x'}), g.add({'t': 'none'}), g.add({'t': 'list', 'rs': [i7, g.add({'t': 'list', 'rs': [i8]})]})])

  def chain(sh):
    """(keys below the array, shape of the addressed item or None when the path is odd)"""
    depth = rng.randrange(1, len(sh) + 1)
    idx = [rng.randrange(-n, n) if rng.random() < 0.3 else rng.randrange(n) for n in sh[:depth]]
    s = list(sh[depth:])
    r = rng.random()
    if r < 0.30:
      keys = [{'x': i} if rng.random() < 0.7 else {'i': i} for i in idx]
    elif r < 0.55:
      keys = [{'t': idx}]                                              # one tuple for the whole chain
    elif r < 0.75 and depth >= 2:
      cut = rng.randrange(1, depth)
      keys = [{'t': idx[:cut]}] + ([{'t': idx[cut:]}] if rng.random() < 0.5 else [{'x': i} for i in idx[cut:]])
      if rng.random() < 0.5:
        keys = [{'x': i} for i in idx[:cut]] + [{'t': idx[cut:]}]
    elif r < 0.80:
      keys = [{'t': []}] + [{'x': i} for i in idx]                     # a[()] is a view of a
    else:
      bad = rng.randrange(depth)
      odd = list(idx)
      odd[bad] = rng.choice([sh[bad], sh[bad] + 1, -sh[bad] - 1])
      keys = rng.choice([[{'t': odd}], [{'x': i} for i in odd], [{'t': idx + [0] * (len(sh) - depth + 1)}],
                         [{'t': idx}, {'s': 'a'}], [{'t': idx}, 'SELF'], [{'t': idx}, 'SKIP'], [{'s': 'zz'}, {'t': idx}]])
      s = None
    return keys, s

  ops = []
  cur = root
  for _ in range(rng.randrange(1, 5)):
    pre, cell, sh = rng.choice(arrs)
    keys, s = chain(sh)
    p = copy.deepcopy(pre) + keys
    v = value_for(s if s is not None else sh[1:])
    tgt = cur if rng.random() < 0.4 else root
    k = rng.random()
    if k < 0.45:
      ops.append({'op': 'set', 'root': tgt, 'keys': {'path': p}, 'value': v, 'in_place': False})
      cur = {'res': len(ops) - 1}
    elif k < 0.65:
      ops.append({'op': 'set', 'root': root, 'keys': {'path': p}, 'value': v, 'in_place': True})
    elif k < 0.85:
      ops.append({'op': rng.choice(['get', 'getd']), 'root': tgt, 'keys': {'path': p}})
    elif k < 0.93:
      pre2, _, sh2_ = rng.choice(arrs)
      ops.append({'op': 'get', 'root': tgt, 'keys': {'multi': [p, copy.deepcopy(pre2) + chain(sh2_)[0]]}})
    else:
      ops.append({'op': 'items', 'root': tgt})
  return {'strict': rng.random() < 0.1, 'heap': g.cells, 'root': root, 'ops': ops}


def make_memo_case(rng):
  """Iterate a view, derive a view by a copying set/update that CHANGES the set of leaf paths (fresh key,
  index append, leaf -> subtree, subtree -> leaf), iterate the derived view object itself; chains of these."""
  g = Gen(rng)
  root = g.node(rng.choice([2, 3]), alias=0.0)
  tries = 0
  while (g.cells[root]['t'] not in ('dict', 'list') or not g.children(root)) and tries < 8:
    root = g.node(rng.choice([2, 3]), alias=0.0)
    tries += 1
  if g.cells[root]['t'] not in ('dict', 'list') or not g.children(root):
    l1, l2 = g.add({'t': 'int', 'v': 1}), g.add({'t': 'int', 'v': 2})
    root = g.add({'t': 'dict', 'es': [[{'s': 'a'}, g.add({'t': 'list', 'rs': [l1, l2]})], [{'s': 'b'}, l2]]})
  scal = [g.add({'t': 'int', 'v': v}) for v in (5, 6)]
  sub = g.add({'t': 'dict', 'es': [[{'s': 'p'}, scal[0]], [{'s': 'q'}, g.add({'t': 'list', 'rs': [scal[1], scal[0]]})]]})
  ops = [{'op': 'items', 'root': root}]
  cur = root
  for step in range(rng.randrange(1, 4)):
    p, cell = g.existing_path(root, maxlen=3)
    p = [k for k in p if not (isinstance(k, dict) and k.get('x', 0) < 0)]
    c = g.cells[cell] if p else g.cells[root]
    how = rng.random()
    if how < 0.35 or not p:                        # fresh key / append next to existing leaves
      cont, ccell = g.existing_path(root, maxlen=2)
      cc = g.cells[ccell]
      if cc['t'] == 'dict':
        q = cont + [{'s': 'new%d' % step}]
      elif cc['t'] == 'list':
        q = cont + [{'x': len(cc['rs'])}]
      else:
        q = [{'s': 'new%d' % step}] if g.cells[root]['t'] == 'dict' else [{'x': len(g.cells[root]['rs'])}]
      val = rng.choice(scal + [sub])
    elif how < 0.7:                                # whatever is at p becomes a subtree (leaf -> subtree)
      q, val = p, sub
    else:                                          # whatever is at p becomes a leaf (subtree -> leaf)
      q, val = p, rng.choice(scal)
    if rng.random() < 0.75:
      ops.append({'op': 'set', 'root': cur, 'keys': {'path': q}, 'value': val, 'in_place': False})
    else:
      ops.append({'op': 'update', 'root': cur, 'pairs': [[q, val]], 'asdict': rng.random() < 0.5})
    cur = {'res': len(ops) - 1}
    ops.append({'op': 'items', 'root': cur})
    if rng.random() < 0.3:
      ops.append({'op': 'items', 'root': root})   # the source view again
  return {'strict': False, 'heap': g.cells, 'root': root, 'ops': ops[:6]}


RESERVED_KINDS = ['get', 'multiget', 'set', 'multiset', 'update', 'inplace', 'items', 'apply']


def make_reserved_case(rng, i):
  """Directed arm (SC18): a tree with a dict that holds the PLAIN str key 'SELF' or 'SKIP' at a chosen depth (0..3 keys
  above it: dict / list / tuple levels, their keys from the colliding pool too), siblings next to it (frame), a random
  subtree below it — and a first operation of a chosen kind (get / multi-key get / copying set / multi-key set /
  copy_and_update / in-place set / items / apply) whose path goes THROUGH that key on the input root; then reads /
  items of the result, the same path with the reserved key swapped in, fresh paths through the plain spellings.
  `i` cycles kind x spelling x depth so every combination is hit whatever the seed."""
  kind = RESERVED_KINDS[i % len(RESERVED_KINDS)]
  spelling = RESERVED_SPELLINGS[(i // len(RESERVED_KINDS)) % 2]
  depth = (i // (2 * len(RESERVED_KINDS))) % 4
  g = Gen(rng, collide=0.5)
  under = g.node(rng.choice([0, 1, 1, 2]), alias=0.0)
  sib_keys = [{'s': x} for x in RESERVED_SPELLINGS if x != spelling and rng.random() < 0.6]
  for c in rng.sample(LOOKALIKES + ['a', 'b'], 2) + [rng.choice([{'i': 0}, {'i': 1}, {'x': 1}])]:
    if rng.random() < 0.6:
      sib_keys.append(c if isinstance(c, dict) else {'s': c})
  es = [[{'s': spelling}, under]] + [[k, g.node(rng.choice([0, 1]), alias=0.0)] for k in sib_keys]
  rng.shuffle(es)
  cur = g.add({'t': 'dict', 'es': es})
  pre = []
  for _ in range(depth):
    how = rng.choice(['dict', 'dict', 'list', 'tuple'])
    if how == 'dict':
      k = rng.choice(collide_pool(rng) + [{'s': 'a'}, {'i': 0}, {'x': 1}])
      others = [kk for kk in collide_pool(rng) if kk != k][:rng.randrange(0, 3)]
      es2 = [[k, cur]] + [[kk, g.leaf()] for kk in others]
      rng.shuffle(es2)
      cur = g.add({'t': 'dict', 'es': es2})
      pre.insert(0, g.dkey_to_pkey(k, False))
    else:
      n_before = rng.randrange(0, 3)
      rs = [g.leaf() for _ in range(n_before)] + [cur] + [g.leaf() for _ in range(rng.randrange(0, 2))]
      cur = g.add({'t': how, 'rs': rs})
      pre.insert(0, {'x': n_before} if rng.random() < 0.8 else {'i': n_before})
  root = cur
  through = pre + [{'s': spelling}]
  below, reached = [], under
  for _ in range(5):                 # frame / get-set laws: no negative index
    b, rr = g.existing_path(under, maxlen=2)
    if not any(isinstance(k, dict) and k.get('x', 0) < 0 for k in b):
      below, reached = b, rr
      break
  P = through + (below if rng.random() < 0.6 else [])
  sibs = [pre + [g.dkey_to_pkey(k, False)] for k in sib_keys] or [pre + [{'s': 'fresh'}]]
  Q = rng.choice(sibs)
  scal = [g.add({'t': 'int', 'v': v}) for v in (61, 62)] + [g.add({'t': 'str', 'v': 'NEW'}), g.add({'t': 'none'})]
  sub = g.add({'t': 'dict', 'es': [[{'s': rng.choice(RESERVED_SPELLINGS)}, scal[0]], [{'s': 'p'}, scal[1]]]})
  val = rng.choice(scal + [sub])
  tup = g.add({'t': 'tuple', 'rs': [val, scal[1]]})
  uniq = g.add({'t': 'list', 'rs': [g.add({'t': 'int', 'v': 77})]})
  bare = lambda p: len(p) == 1 and rng.random() < 0.5
  ops = []
  if kind == 'get':
    ops.append({'op': rng.choice(['get', 'getd']), 'root': root, 'keys': {'path': P}, 'bare': bare(P)})
  elif kind == 'multiget':
    ops.append({'op': rng.choice(['get', 'get', 'getd']), 'root': root, 'keys': {'multi': [P, Q] if rng.random() < 0.5 else [Q, P, through]},
                'bare': False, 'aslist': rng.random() < 0.2})
  elif kind == 'set':
    op = {'op': 'set', 'root': root, 'keys': {'path': P}, 'value': val, 'in_place': False, 'bare': bare(P)}
    if rng.random() < 0.3:      # set-same: the value is the object the path reads now
      op['value'] = reached if P != through else under
      op['same'] = True
    ops.append(op)
  elif kind == 'multiset':
    ops.append({'op': 'set', 'root': root, 'keys': {'multi': [P, Q]}, 'value': tup, 'in_place': False, 'bare': False,
                'aslist': rng.random() < 0.2})
  elif kind == 'update':
    ops.append({'op': 'update', 'root': root, 'pairs': [[P, val], [Q, scal[1]]] if rng.random() < 0.6 else [[P, val]],
                'asdict': rng.random() < 0.5})
  elif kind == 'inplace':
    ops.append({'op': 'set', 'root': root, 'keys': {'path': P}, 'value': rng.choice(scal[:3] + [uniq]), 'in_place': True})
  elif kind == 'items':
    ops.append({'op': 'items', 'root': root})
  else:
    ops.append({'op': 'apply', 'root': root, 'fn': rng.choice(['inc', 'wrap', 'pair', 'const', 'id'])})
  res = {'res': 0} if kind in ('set', 'multiset', 'update', 'apply') else root
  # follow-ups: read the path back on the result, iterate the result, the reserved key at the same place, a fresh path
  for _ in range(rng.randrange(1, 4)):
    r = rng.random()
    if r < 0.3:
      ops.append({'op': 'get', 'root': res, 'keys': {'path': P}})
    elif r < 0.45:
      ops.append({'op': 'items', 'root': res})
    elif r < 0.6:
      q = swap_reserved(rng, P)
      if rng.random() < 0.5:
        ops.append({'op': 'get', 'root': root, 'keys': {'path': q}})
      else:
        ops.append({'op': 'set', 'root': root, 'keys': {'path': q}, 'value': scal[0], 'in_place': False})
    elif r < 0.75:
      q = through[:rng.randrange(len(through))] + [{'s': 'nn'}] + [{'s': x} for x in rng.sample(RESERVED_SPELLINGS, rng.randrange(1, 3))] + \
          ([{'s': 'x'}] if rng.random() < 0.5 else [])
      ops.append({'op': 'set', 'root': root, 'keys': {'path': q}, 'value': scal[1], 'in_place': False})
      ops.append({'op': 'get', 'root': {'res': len(ops) - 1}, 'keys': {'path': q}})
    elif r < 0.85:
      ops.append({'op': 'get', 'root': res, 'keys': {'multi': [Q, P]}, 'bare': False})
    else:
      ops.append({'op': 'apply', 'root': res, 'fn': rng.choice(['inc', 'wrap', 'const'])})
  return {'strict': False, 'heap': g.cells, 'root': root, 'ops': ops[:6]}


def fresh_reserved_cases():
  """Fresh paths through the plain spellings on an EMPTY view and on `{}` / `[]` (tree.py `_default_tree`)."""
  S = lambda x: {'s': x}
  tails = [[S('SELF')], [S('SKIP')], [S('SELF'), S('x')], [S('SKIP'), S('x')], [S('x'), S('SELF')], [S('x'), S('SKIP')],
           [S('SELF'), S('SKIP')], [S('SKIP'), S('SELF')], [S('SELF'), 'SELF'], [S('SKIP'), 'SKIP', S('x')],
           [S('SELF'), {'x': 0}], [{'x': 0}, S('SKIP')], [S('x'), S('SELF'), S('y')], [S('')], [S('Index(0)')]]
  for root_cell in ({'t': 'null'}, {'t': 'dict', 'es': []}, {'t': 'list', 'rs': []}):
    for p in tails:
      heap = [dict(root_cell), {'t': 'int', 'v': 1}]
      yield {'strict': False, 'heap': heap, 'root': 0, 'ops': [
          {'op': 'set', 'root': 0, 'keys': {'path': p}, 'value': 1, 'in_place': False, 'bare': len(p) == 1},
          {'op': 'get', 'root': {'res': 0}, 'keys': {'path': p}},
          {'op': 'items', 'root': {'res': 0}},
          {'op': 'apply', 'root': {'res': 0}, 'fn': 'inc'}]}


FIXED_TREES_R = [
    # {'SELF': {'w': 1}, 'SKIP': [1, 2], 'a': 2}
    ([{'t': 'int', 'v': 1}, {'t': 'int', 'v': 2}, {'t': 'dict', 'es': [[{'s': 'w'}, 0]]}, {'t': 'list', 'rs': [0, 1]},
      {'t': 'dict', 'es': [[{'s': 'SELF'}, 2], [{'s': 'SKIP'}, 3], [{'s': 'a'}, 1]]}], 4),
    # {'a': {'SELF': 1, 'SKIP': 2}, 'SKIP': ({'SELF': 1},)}
    ([{'t': 'int', 'v': 1}, {'t': 'int', 'v': 2}, {'t': 'dict', 'es': [[{'s': 'SELF'}, 0], [{'s': 'SKIP'}, 1]]},
      {'t': 'dict', 'es': [[{'s': 'SELF'}, 0]]}, {'t': 'tuple', 'rs': [3]},
      {'t': 'dict', 'es': [[{'s': 'a'}, 2], [{'s': 'SKIP'}, 4]]}], 5),
]
ALPHABET_R = [{'s': 'SELF'}, {'s': 'SKIP'}, {'s': 'w'}, {'s': 'a'}, {'x': 0}, 'SELF', 'SKIP']
# {'a': {'SELF': {'SKIP': 1}}, 'SELF': 2}: every path of length <= 3 over the plain and the reserved spellings
DEEP_TREE_R = ([{'t': 'int', 'v': 1}, {'t': 'int', 'v': 2}, {'t': 'dict', 'es': [[{'s': 'SKIP'}, 0]]}, {'t': 'dict', 'es': [[{'s': 'SELF'}, 2]]},
                {'t': 'dict', 'es': [[{'s': 'a'}, 3], [{'s': 'SELF'}, 1]]}], 4)
ALPHABET_DEEP = [{'s': 'a'}, {'s': 'SELF'}, {'s': 'SKIP'}, 'SELF', 'SKIP']


def exhaustive_reserved_cases():
  """Small-exhaustive part of the class: every path of length <= 2 (<= 3 on the deep tree) over an alphabet that holds
  the plain str keys 'SELF' / 'SKIP' AND the reserved keys, on trees that have such dict keys: copying set + read back +
  items of the result; read + in-place set + items; multi-key set + multi-key read."""
  def triple(base, root, p, v):
    yield {'strict': False, 'heap': copy.deepcopy(base), 'root': root, 'ops': [
        {'op': 'set', 'root': root, 'keys': {'path': p}, 'value': v, 'in_place': False},
        {'op': 'get', 'root': {'res': 0}, 'keys': {'path': p}},
        {'op': 'items', 'root': {'res': 0}},
        {'op': 'apply', 'root': {'res': 0}, 'fn': 'inc'}]}
    yield {'strict': False, 'heap': copy.deepcopy(base), 'root': root, 'ops': [
        {'op': 'get', 'root': root, 'keys': {'path': p}},
        {'op': 'set', 'root': root, 'keys': {'path': p}, 'value': v, 'in_place': True},
        {'op': 'items', 'root': root}]}
  for cells, root in FIXED_TREES_R:
    n = len(cells)
    base = copy.deepcopy(cells) + [{'t': 'int', 'v': 99}, {'t': 'int', 'v': 98}, {'t': 'tuple', 'rs': [n, n + 1]}]
    for p in [[]] + [[a] for a in ALPHABET_R] + [[a, b] for a in ALPHABET_R for b in ALPHABET_R]:
      yield from triple(base, root, p, n)
    for a in ALPHABET_R:
      for b in ALPHABET_R:
        yield {'strict': False, 'heap': copy.deepcopy(base), 'root': root, 'ops': [
            {'op': 'set', 'root': root, 'keys': {'multi': [[a], [b]]}, 'value': n + 2, 'in_place': False, 'bare': True},
            {'op': 'get', 'root': {'res': 0}, 'keys': {'multi': [[a], [b]]}, 'bare': True}]}
  cells, root = DEEP_TREE_R
  n = len(cells)
  base = copy.deepcopy(cells) + [{'t': 'int', 'v': 99}]
  A = ALPHABET_DEEP
  for p in [[a] for a in A] + [[a, b] for a in A for b in A] + [[a, b, c] for a in A for b in A for c in A]:
    yield from triple(base, root, p, n)


def _reserved_depths(heap, r, acc, d=0, seen=None):
  """(spelling, depth) of every plain 'SELF'/'SKIP' dict key below cell r (depth = number of keys above it)."""
  seen = set() if seen is None else seen
  if (r, d) in seen or d > 8:
    return acc
  seen.add((r, d))
  c = heap[r]
  if c['t'] == 'dict':
    for k, v in c['es']:
      if is_spelling(k):
        acc.add((k['s'], min(d, 2)))
      _reserved_depths(heap, v, acc, d + 1, seen)
  elif c['t'] in ('list', 'tuple'):
    for v in c['rs']:
      _reserved_depths(heap, v, acc, d + 1, seen)
  return acc


def _through_reserved(heap, r, p):
  """[(spelling, depth)] of the plain 'SELF'/'SKIP' dict keys that the path `p`, walked on the input heap from cell r,
  goes through (the key must be an entry of the dict it meets: an EXISTING ordinary key)."""
  out = []
  for d, k in enumerate(p):
    c = heap[r]
    nxt = None
    if not isinstance(k, dict):
      break                       # a reserved key ends the walk
    if c['t'] == 'dict':
      for dk, v in c['es']:
        if dk == k or (('i' in dk or 'x' in dk) and ('i' in k or 'x' in k) and dk.get('i', dk.get('x')) == k.get('x', k.get('i'))):
          nxt = v
      if nxt is not None and is_spelling(k):
        out.append((k['s'], min(d, 2)))
    elif c['t'] in ('list', 'tuple') and ('x' in k or 'i' in k):
      j = k.get('x', k.get('i'))
      if -len(c['rs']) <= j < len(c['rs']):
        nxt = c['rs'][j]
    if nxt is None:
      break
    r = nxt
  return out


def _reserved_stats(case, op, o, kind):
  """Coverage of the class 'user keys spelled like reserved keys': which operation kinds SUCCEEDED on an input root
  with a path through a plain 'SELF'/'SKIP' dict key, per spelling and depth (items / apply: the tree holds one)."""
  if not isinstance(op.get('root'), int) or o.get('err') is not None or o.get('skipped'):
    return
  heap, r = case['heap'], op['root']
  if kind in ('items', 'apply'):
    if kind == 'apply' and op.get('fn') == 'none':
      return
    hits = _reserved_depths(heap, r, set())
    name = kind
  else:
    if kind == 'update':
      ps, name = [p for p, _ in op['pairs']], 'update'
    elif op.get('keys') == 'empty' or 'keys' not in op:
      return
    else:
      ps = keys_paths(op['keys'])
      multi = 'multi' in op['keys']
      name = {'get': 'multiget' if multi else 'get', 'getd': 'multiget' if multi else 'get',
              'set': 'multiset' if multi else 'set', 'inplace': 'inplace'}.get(kind)
      if name is None:
        return
      if o.get('default'):
        return
    hits = set()
    for p in ps:
      hits.update(_through_reserved(heap, r, p))
  for sp, d in hits:
    _stat('reserved-spelling', f'{name}: through plain {sp!r} at depth {d if d < 2 else "2+"}')


RESERVED_NEED = [f'{name}: through plain {sp!r} at depth {d}' for name in RESERVED_KINDS for sp in RESERVED_SPELLINGS
                 for d in ('0', '1', '2+')]


# ----------------------------------------------------------------------------- SC18c: key OBJECTS that are path-like
# A mapping KEY that is itself a path-like object — a `Key` instance (the library produces such dicts: `dict(view.items())`
# is a flattened tree), a tuple, a frozenset — is ONE path element whatever its type (seeded change C18-m5: `Key.at()`
# joining paths; `_dfs_iter_tree` builds every leaf path with `parent.at(k)`).  Wire form {'o': n} (`keyobjs`).

KEYOBJ_KINDS = ['get', 'multiget', 'set', 'multiset', 'update', 'inplace', 'items', 'apply']
KEYOBJ_CLASSES = ['Key', 'tuple']


def _flat_sibling(g, rng, a):
  """Entries that make the FLATTENED spelling of the Key-object key `a` a real nested path next to it (the two leaves are
  distinct and must be listed / read / mapped separately): {Key().a.b: 1, 'a': {'b': 2}}."""
  flat = ATOM_FLAT.get(a)
  if not flat:
    return []
  cur = g.add({'t': 'int', 'v': rng.choice([201, 202, 203])})
  for k in reversed(flat[1:]):
    cur = g.add({'t': 'dict', 'es': [[dict(k), cur]]})
  return [[dict(flat[0]), cur]]


def make_keyobj_case(rng, i):
  """Directed arm (SC18c): a tree with a dict that holds a Key-object / tuple KEY at a chosen depth (0..3 keys above it:
  dict / list / tuple levels, dict levels keyed by such objects too), siblings next to it — with probability 0.7 a sibling
  sub-tree that spells the FLATTENED path of the key —, a random subtree below it, and a first operation of a chosen kind
  (get / multi-key get / copying set / multi-key set / copy_and_update / in-place set / items / apply) whose path goes
  THROUGH that key on the input root; then reads / items / apply of the result, the flattened spelling of the same path,
  fresh paths through key objects.  `i` cycles kind x class x depth."""
  kind = KEYOBJ_KINDS[i % len(KEYOBJ_KINDS)]
  cls = KEYOBJ_CLASSES[(i // len(KEYOBJ_KINDS)) % 2]
  depth = (i // (2 * len(KEYOBJ_KINDS))) % 4
  g = Gen(rng, atoms=0.5)
  a = rng.choice([n for n, c in enumerate(ATOM_CLASS) if c == cls])
  under = g.node(rng.choice([0, 1, 1, 2]), alias=0.0)
  es = [[{'o': a}, under]]
  used = [{'o': a}]
  if rng.random() < 0.7:
    for k, v in _flat_sibling(g, rng, a):
      es.append([k, v])
      used.append(k)
  for c in [{'o': n} for n in rng.sample(range(len(ATOM_CLASS)), 2)] + [{'s': 'a'}, {'s': 'b'}, {'i': 0}]:
    if rng.random() < 0.45 and c not in used and not (c == {'i': 0} and {'x': 0} in used):
      es.append([c, g.node(rng.choice([0, 1]), alias=0.0)])
      used.append(c)
  sib_keys = used[1:]
  rng.shuffle(es)
  cur = g.add({'t': 'dict', 'es': es})
  pre = []
  for _ in range(depth):
    how = rng.choice(['dict', 'dict', 'list', 'tuple'])
    if how == 'dict':
      cands = [{'o': n} for n in rng.sample(range(len(ATOM_CLASS)), 3)] + [{'s': 'a'}, {'s': 'm'}, {'i': 1}]
      k = rng.choice(cands)
      others = [kk for kk in cands if kk != k][:rng.randrange(0, 3)]
      es2 = [[k, cur]] + [[kk, g.leaf()] for kk in others]
      rng.shuffle(es2)
      cur = g.add({'t': 'dict', 'es': es2})
      pre.insert(0, g.dkey_to_pkey(k, False))
    else:
      n_before = rng.randrange(0, 3)
      rs = [g.leaf() for _ in range(n_before)] + [cur] + [g.leaf() for _ in range(rng.randrange(0, 2))]
      cur = g.add({'t': how, 'rs': rs})
      pre.insert(0, {'x': n_before} if rng.random() < 0.8 else {'i': n_before})
  root = cur
  through = pre + [{'o': a}]
  below, reached = [], under
  for _ in range(5):                 # frame / get-set laws: no negative index
    b, rr = g.existing_path(under, maxlen=2)
    if not any(isinstance(k, dict) and k.get('x', 0) < 0 for k in b):
      below, reached = b, rr
      break
  P = through + (below if rng.random() < 0.6 else [])
  flatP = pre + copy.deepcopy(ATOM_FLAT.get(a, [{'o': a}, {'o': a}]))     # the flattened spelling: ANOTHER path
  sibs = [pre + [g.dkey_to_pkey(k, False)] for k in sib_keys] or [pre + [{'s': 'fresh'}]]
  Q = rng.choice(sibs)
  scal = [g.add({'t': 'int', 'v': v}) for v in (61, 62)] + [g.add({'t': 'str', 'v': 'NEW'}), g.add({'t': 'none'})]
  sub = g.add({'t': 'dict', 'es': [[{'o': rng.randrange(len(ATOM_CLASS))}, scal[0]], [{'s': 'p'}, scal[1]]]})
  val = rng.choice(scal + [sub])
  tup = g.add({'t': 'tuple', 'rs': [val, scal[1]]})
  uniq = g.add({'t': 'list', 'rs': [g.add({'t': 'int', 'v': 77})]})
  ops = []
  if kind == 'get':
    ops.append({'op': rng.choice(['get', 'getd']), 'root': root, 'keys': {'path': P}})
  elif kind == 'multiget':
    ops.append({'op': rng.choice(['get', 'get', 'getd']), 'root': root, 'keys': {'multi': [P, Q] if rng.random() < 0.5 else [Q, P, through]},
                'bare': False, 'aslist': rng.random() < 0.2})
  elif kind == 'set':
    op = {'op': 'set', 'root': root, 'keys': {'path': P}, 'value': val, 'in_place': False}
    if rng.random() < 0.3:      # set-same: the value is the object the path reads now
      op['value'] = reached if P != through else under
      op['same'] = True
    ops.append(op)
  elif kind == 'multiset':
    ops.append({'op': 'set', 'root': root, 'keys': {'multi': [P, Q]}, 'value': tup, 'in_place': False, 'bare': False,
                'aslist': rng.random() < 0.2})
  elif kind == 'update':
    ops.append({'op': 'update', 'root': root, 'pairs': [[P, val], [Q, scal[1]]] if rng.random() < 0.6 and Q != P else [[P, val]],
                'asdict': rng.random() < 0.5})
  elif kind == 'inplace':
    ops.append({'op': 'set', 'root': root, 'keys': {'path': P}, 'value': rng.choice(scal[:3] + [uniq]), 'in_place': True})
  elif kind == 'items':
    ops.append({'op': 'items', 'root': root})
  else:
    ops.append({'op': 'apply', 'root': root, 'fn': rng.choice(['inc', 'wrap', 'pair', 'const', 'id'])})
  res = {'res': 0} if kind in ('set', 'multiset', 'update', 'apply') else root
  for _ in range(rng.randrange(1, 4)):
    r = rng.random()
    if r < 0.25:
      ops.append({'op': 'get', 'root': res, 'keys': {'path': P}})
    elif r < 0.45:
      ops.append({'op': 'items', 'root': res})
    elif r < 0.6:       # the flattened spelling is another path: read it / set it, then iterate
      if rng.random() < 0.5:
        ops.append({'op': 'get', 'root': root, 'keys': {'path': flatP}})
      else:
        ops.append({'op': 'set', 'root': root, 'keys': {'path': flatP}, 'value': scal[0], 'in_place': False})
        ops.append({'op': 'items', 'root': {'res': len(ops) - 1}})
    elif r < 0.75:      # a fresh path through key objects (`_default_tree` stores them as they are)
      q = through[:rng.randrange(len(through))] + [{'s': 'nn'}] + [{'o': n} for n in rng.sample(range(len(ATOM_CLASS)), rng.randrange(1, 3))] + \
          ([{'s': 'x'}] if rng.random() < 0.5 else [])
      ops.append({'op': 'set', 'root': root, 'keys': {'path': q}, 'value': scal[1], 'in_place': False})
      ops.append({'op': 'get', 'root': {'res': len(ops) - 1}, 'keys': {'path': q}})
    elif r < 0.85:
      ops.append({'op': 'get', 'root': res, 'keys': {'multi': [Q, P]}, 'bare': False})
    else:
      ops.append({'op': 'apply', 'root': res, 'fn': rng.choice(['inc', 'wrap', 'const'])})
  return {'strict': False, 'heap': g.cells, 'root': root, 'ops': ops[:6]}


def flattened_tree_cases():
  """The library's own flattened trees: `dict(view.items())` of fixed nested trees is a dict keyed by Key objects
  (here the keys Key().a.b, Key.new('a'), Key().a.b.c, Key.new(Index(0)), Key() of the pool), alone and next to the nested
  tree they spell; every path of length <= 2 over key objects and their flattened elements."""
  I = lambda v: {'t': 'int', 'v': v}
  trees = [
      # {Key().a.b: 1, 'a': {'b': 2}}
      ([I(1), I(2), {'t': 'dict', 'es': [[{'s': 'b'}, 1]]}, {'t': 'dict', 'es': [[{'o': 0}, 0], [{'s': 'a'}, 2]]}], 3),
      # {'a': {'b': 2}, Key().a.b: 1}   (the other order)
      ([I(1), I(2), {'t': 'dict', 'es': [[{'s': 'b'}, 1]]}, {'t': 'dict', 'es': [[{'s': 'a'}, 2], [{'o': 0}, 0]]}], 3),
      # flat = dict(TreeMapView({'a': {'b': 1, 'c': 2}}).items()) shape: {Key().a.b: 1, Key().a.b.c: 2, Key.new('a'): 3}
      ([I(1), I(2), I(3), {'t': 'dict', 'es': [[{'o': 0}, 0], [{'o': 4}, 1], [{'o': 2}, 2]]}], 3),
      # {'m': {Key().a.b: 10, 'z': [20, {Key.new('a'): 30}]}}
      ([I(10), I(20), I(30), {'t': 'dict', 'es': [[{'o': 2}, 2]]}, {'t': 'list', 'rs': [1, 3]},
        {'t': 'dict', 'es': [[{'o': 0}, 0], [{'s': 'z'}, 4]]}, {'t': 'dict', 'es': [[{'s': 'm'}, 5]]}], 6),
      # {Key(): 1, 'a': 2}, [{Key.new(Index(0)): 1, Index-keyed sibling}], tuple keys
      ([I(1), I(2), {'t': 'dict', 'es': [[{'o': 1}, 0], [{'s': 'a'}, 1]]}], 2),
      ([I(1), I(2), {'t': 'dict', 'es': [[{'o': 3}, 0], [{'i': 0}, 1]]}, {'t': 'list', 'rs': [2]}], 3),
      ([I(1), I(2), I(3), {'t': 'dict', 'es': [[{'o': 5}, 0], [{'o': 6}, 1], [{'o': 9}, 2]]}, {'t': 'tuple', 'rs': [3]},
        {'t': 'dict', 'es': [[{'o': 7}, 4], [{'o': 10}, 0]]}], 5),
  ]
  alphabet = [{'o': 0}, {'o': 1}, {'o': 2}, {'o': 5}, {'s': 'a'}, {'s': 'b'}, {'x': 0}]
  for cells, root in trees:
    n = len(cells)
    base = copy.deepcopy(cells) + [{'t': 'int', 'v': 99}]
    yield {'strict': False, 'heap': copy.deepcopy(base), 'root': root, 'ops': [
        {'op': 'items', 'root': root}, {'op': 'apply', 'root': root, 'fn': 'inc'}, {'op': 'items', 'root': {'res': 1}},
        {'op': 'apply', 'root': root, 'fn': 'wrap'}, {'op': 'apply', 'root': root, 'fn': 'id'}]}
    for p in [[a] for a in alphabet] + [[a, b] for a in alphabet for b in alphabet]:
      yield {'strict': False, 'heap': copy.deepcopy(base), 'root': root, 'ops': [
          {'op': 'set', 'root': root, 'keys': {'path': p}, 'value': n, 'in_place': False},
          {'op': 'get', 'root': {'res': 0}, 'keys': {'path': p}},
          {'op': 'items', 'root': {'res': 0}},
          {'op': 'apply', 'root': {'res': 0}, 'fn': 'inc'}]}
      yield {'strict': False, 'heap': copy.deepcopy(base), 'root': root, 'ops': [
          {'op': 'get', 'root': root, 'keys': {'path': p}},
          {'op': 'set', 'root': root, 'keys': {'path': p}, 'value': n, 'in_place': True},
          {'op': 'items', 'root': root}]}


def _atom_depths(heap, r, acc, d=0, seen=None):
  """(class, depth, collides) of every key-object dict key below cell r (depth = number of keys above it); `collides`:
  the dict also holds the first element of the key's flattened spelling (the flattened path may exist)."""
  seen = set() if seen is None else seen
  if (r, d) in seen or d > 8:
    return acc
  seen.add((r, d))
  c = heap[r]
  if c['t'] == 'dict':
    for k, v in c['es']:
      if 'o' in k:
        flat = ATOM_FLAT.get(k['o']) or [None]
        acc.add((ATOM_CLASS[k['o']], min(d, 2), any(dk == flat[0] for dk, _ in c['es'])))
      _atom_depths(heap, v, acc, d + 1, seen)
  elif c['t'] in ('list', 'tuple'):
    for v in c['rs']:
      _atom_depths(heap, v, acc, d + 1, seen)
  return acc


def _through_atoms(heap, r, p):
  """[(class, depth)] of the key-object dict keys that the path `p`, walked on the input heap from cell r, goes through
  (the key must be an entry of the dict it meets)."""
  out = []
  for d, k in enumerate(p):
    c = heap[r]
    nxt = None
    if not isinstance(k, dict):
      break
    if c['t'] == 'dict':
      for dk, v in c['es']:
        if dk == k or (('i' in dk or 'x' in dk) and ('i' in k or 'x' in k) and dk.get('i', dk.get('x')) == k.get('x', k.get('i'))):
          nxt = v
      if nxt is not None and 'o' in k:
        out.append((ATOM_CLASS[k['o']], min(d, 2)))
    elif c['t'] in ('list', 'tuple') and ('x' in k or 'i' in k):
      j = k.get('x', k.get('i'))
      if -len(c['rs']) <= j < len(c['rs']):
        nxt = c['rs'][j]
    if nxt is None:
      break
    r = nxt
  return out


def _atom_stats(case, op, o, kind):
  """Coverage of the class 'mapping keys that are path-like objects': which operation kinds SUCCEEDED on an input root
  with a path through such a key (items / apply: the tree holds one), per class and depth."""
  if not isinstance(op.get('root'), int) or o.get('err') is not None or o.get('skipped'):
    return
  heap, r = case['heap'], op['root']
  if kind in ('items', 'apply'):
    if kind == 'apply' and op.get('fn') in ('none', 'id'):
      return
    for cls, d, coll in _atom_depths(heap, r, set()):
      _stat('key-object', f'{kind}: {cls} key at depth {d if d < 2 else "2+"}')
      if coll and cls == 'Key':
        _stat('key-object', f'{kind}: Key key next to the nested path it spells')
    return
  if kind == 'update':
    ps, name = [p for p, _ in op['pairs']], 'update'
  elif op.get('keys') == 'empty' or 'keys' not in op:
    return
  else:
    ps = keys_paths(op['keys'])
    multi = 'multi' in op['keys']
    name = {'get': 'multiget' if multi else 'get', 'getd': 'multiget' if multi else 'get',
            'set': 'multiset' if multi else 'set', 'inplace': 'inplace'}.get(kind)
    if name is None or o.get('default'):
      return
  for p in ps:
    for cls, d in _through_atoms(heap, r, p):
      _stat('key-object', f'{name}: {cls} key at depth {d if d < 2 else "2+"}')


KEYOBJ_NEED = [f'{name}: {cls} key at depth {d}' for name in KEYOBJ_KINDS for cls in KEYOBJ_CLASSES for d in ('0', '1', '2+')] + \
              [f'{name}: Key key next to the nested path it spells' for name in ('items', 'apply')]


def gen_cases(ctx):
  for c in ctx.corpus():
    yield c
  n = 0
  for c in exhaustive_cases():
    n += 1
    yield c
  ctx.count('stage', 'exhaustive', n)
  rng = ctx.rng
  for _ in range(1200 if ctx.quick else 20000):
    ctx.count('stage', 'ndarray-paths')
    yield make_arr_case(rng)
  for _ in range(1200 if ctx.quick else 20000):
    ctx.count('stage', 'iterate-derive-iterate')
    yield make_memo_case(rng)
  total = 8000 if ctx.quick else 150000
  for i in range(total):
    case, feats = make_case(rng, malformed=(i % 8 == 0))
    for f in feats:
      ctx.count('op', f)
    ctx.count('nops', len(case['ops']))
    ctx.count('root', case['heap'][case['root']]['t'])
    yield case
  # --- SC18: user keys that collide by value with reserved / special keys.  These stages come LAST so that the
  # stages above draw exactly what they drew in the earlier rounds for the same seed.
  n = 0
  for c in fresh_reserved_cases():
    n += 1
    yield c
  ctx.count('stage', 'reserved-spelling fresh paths (fixed)', n)
  n = 0
  for c in exhaustive_reserved_cases():
    n += 1
    yield c
  ctx.count('stage', 'reserved-spelling exhaustive', n)
  for i in range(1440 if ctx.quick else 24000):
    ctx.count('stage', 'reserved-spelling directed')
    yield make_reserved_case(rng, i)
  for i in range(1500 if ctx.quick else 25000):
    case, feats = make_case(rng, malformed=(i % 10 == 0), collide=0.6)
    for f in feats:
      ctx.count('op(colliding keys)', f)
    ctx.count('stage', 'reserved-spelling random (dict keys from the colliding pool)')
    yield case
  # --- wp-C18D: deep paths / tuple keys / 3-D arrays / array and list values (after everything else: see above)
  for _ in range(1500 if ctx.quick else 25000):
    ctx.count('stage', 'ndarray deep paths + tuple keys')
    yield make_deep_arr_case(rng)
  # --- SC18c: mapping keys that are path-like OBJECTS (Key instances, tuples, a frozenset) — ONE path element each
  n = 0
  for c in flattened_tree_cases():
    n += 1
    yield c
  ctx.count('stage', 'key-object flattened trees (fixed + exhaustive paths)', n)
  for i in range(1440 if ctx.quick else 24000):
    ctx.count('stage', 'key-object directed')
    yield make_keyobj_case(rng, i)
  for i in range(1200 if ctx.quick else 20000):
    case, feats = make_case(rng, malformed=(i % 10 == 0), atoms=0.6)
    for f in feats:
      ctx.count('op(key-object keys)', f)
    ctx.count('stage', 'key-object random (dicts holding Key / tuple / frozenset keys)')
    yield case


def neighbours(case, rng):
  """Cases near `case`: every single op of it alone, then the same heap with fresh random ops."""
  for op in case['ops']:
    if isinstance(op.get('root', 0), int):
      c = copy.deepcopy(case)
      c['ops'] = [copy.deepcopy(op)]
      yield c
  for _ in range(300):
    yield make_case(rng)[0]


def shrink(case, fails):
  cur = case
  changed = True
  while changed:
    changed = False
    for i in reversed(range(len(cur['ops']))):
      c = copy.deepcopy(cur)
      del c['ops'][i]
      # ops referring to later results must be renumbered / dropped
      ok = True
      for op in c['ops']:
        r = op.get('root')
        if isinstance(r, dict):
          if r['res'] == i:
            ok = False
          elif r['res'] > i:
            r['res'] -= 1
      if ok and c['ops'] and fails(c):
        cur, changed = c, True
        break
  return cur
