"""C13 — parallel iteration yields the sequential multiset and releases its threads.

Real code: iter_utils.pmap / piter_fn / piter / piter_multiplex / MultiplexIterator(parallism=…) with
_ThreadSafeIterator, DequeueIterator(num_steps) and the executor, entered through the public entry points;
stage 1 drives them through chosen schedules with the deterministic scheduler (harness/sched/shim.py) and
compares every executed operation, every enabled set and all outcomes with the Lean LTS
lean/MlModel/Model/Piter.lean (on top of Model/Queue.lean); stage 2 (`extra`) runs them on the real
ThreadPoolExecutor and inspects threading.enumerate().  Theorems: lean/MlModel/Properties/C13.lean.
"""
import copy

from harness import lib_piter as lp
from harness import lib_piter2 as lp2
from harness import lib_piter_real as lr

PID = 'C13'
TITLE = 'Parallel iteration yields the sequential multiset and releases its threads'
LEAN_MODULES = ['MlModel.Properties.C13', 'MlModel.Properties.C13Two', 'MlModel.Properties.C13Interrupt', 'MlModel.Witness.C13']
TRUSTED = [
    'scheduler shim (harness/sched/shim.py): CPython Lock/RLock/Condition/queue semantics and a thread pool that starts a '
    'submitted task when fewer than max_workers tasks run and whose shutdown() joins; one atomic step = one synchronisation '
    'operation (thread-local code, incl. the row function and GIL-atomic attribute accesses, fused into the preceding step)',
    'iter_fn is modelled as a row-wise function Nat -> Option (List Nat) applied to each pulled element (map / filter / '
    'flat-map, may raise) plus a generator return value; the real ThreadPoolExecutor worker life-cycle is observed '
    '(stage 2), not modelled',
    'the two-level composition piter(iterator_fn, several input_iterators) has its own LTS (Model/Piter2.lean: two Queue LTS '
    'instances in one pool, every thread stepped by Queue.stepThread on the queue it is operating on); the scheduler shim lets '
    'a pool start its submitted tasks in ANY order (a superset of CPython\'s FIFO work queue; the LTS has both gates)',
]
ASSUMPTIONS = ['ignore_error and timeout are not set (piter_multiplex never sets them)',
               'deadlock freedom of the one-queue LTS is a THEOREM (C13_no_deadlock / C13_threads_end: a reachable configuration '
               'without enabled step is final, for every capacity, batch size, max_workers >= 1 or unbounded, num_steps, '
               'stop-on-end flag, inputs, row function and every non-empty list of producers; the queue invariant J1/J2/K1/K2 is '
               'transferred through the embedding, C13_no_lost_wakeup); it is additionally checked on the real code by the '
               'scheduler (deadlock = no enabled thread) and by enabled-set agreement with the LTS on every run',
               'termination of the one-queue LTS is a THEOREM too (C13_variant: an explicit measure strictly decreases on every step; '
               'C13_bounded_executions, C13_terminates: every execution is finite and ends with all helper threads finished and '
               'the pool shut down), for positive batch sizes',
               'two-level composition: proved for every schedule — each queue\'s shared state changes only by Queue.stepThread steps '
               '(C13_two_shared_steps), failures / stop requests / exhaustion of either queue are sticky (C13_two_sticky), one pool gate '
               'for both levels (C13_two_pool_gate), with a worker per task (piter\'s own pool, fix b40a851) no submitted task ever waits '
               '(C13_two_no_task_waits / C13_two_own_pool_never_waits); Lean WITNESSES of F-C13-pool-small (Witness/C13.lean)',
               'NOT proved for the two-queue LTS: deadlock-freedom under the pool side condition and conservation across both levels — '
               'checked by the oracle on every run, by step-by-step replay (enabled sets included) and by EXHAUSTIVE exploration of all '
               'schedules of small two-level configurations (stuck configurations exactly where max_workers <= #inputs, or for '
               'any-order pools <= #iterator_fn tasks)']
RULE = ('entry points pmap / piter_fn / piter / piter_multiplex / MultiplexIterator x 1-3 inputs of 0-3 (quick) / 0-4 (thorough) '
        'elements x parallelism 1-3 x buffer sizes {0,1,2,3} (3*P for MultiplexIterator) x pool max_workers {default,1,2,3} x '
        'row function in {ident, inc, keep_even, dup, dup_odd} x failure of the input or of the function at any position x '
        'early stop after 0-4 elements; input iterators ending with StopIteration(a) or StopIteration(a, b) (forwarded by map / bare inputs: every value must be kept); two-level piter with a generator iterator_fn or a pass-through map (which forwards the input queue\'s StopIteration(*returned)): replayed step by step against the TWO-queue LTS Model/Piter2.lean (labels of both queues, lock1, pool gate, enabled sets, blocked sets at a deadlock, both returned lists), plus 1/12 directed two-level cases (pools of size 1, 2, #inputs, #inputs+1, #tasks, own; early stop / failure at either level), every promised program point of the LTS has to be exercised (exit 2 otherwise); chained queues q2.enqueue_from_iterator(q1) (oracle only); 10% directed '
        'cases with 3-4 producers parked on a full buffer of 1-2 when an input / the function fails or the consumer stops; schedules: seeded uniform-random and PCT priority schedules chosen on the REAL code, '
        'replayed choice by choice on the Lean LTS (labels, enabled sets, per-thread pulled/received/outcome, queue.returned); '
        'non-trivial = at least 2 threads took turns at least 10 times; stage 2: the same case shapes on the real '
        'ThreadPoolExecutor, results + no surviving helper thread (join timeout = oracle failure)')


def gen_cases(ctx):
  yield from ctx.corpus()
  rng = ctx.rng
  n = 6000 if ctx.quick else 40000
  for i in range(n):
    api = 'piter2' if i % 12 in (5, 11) else ('chain' if i % 24 == 7 else None)
    case = lp.gen_case(rng, quick=ctx.quick, api=api)
    if i % 10 == 6:
      case = lp.blocked_case(rng, quick=ctx.quick)
      ctx.count('directed', 'blocked-producers')
    if i % 12 == 2 and i % 10 != 6:
      case = lp2.directed_case(rng, quick=ctx.quick)
      ctx.count('directed', 'two-level')
    if i % 10 == 3:
      # directed at the hazards: more tasks than workers, full queue (more outputs than the buffer), then an
      # early stop or a late failure -- tasks that start late, producers parked in put during maybe_stop/shutdown
      case = lp.gen_case(rng, quick=ctx.quick, api=rng.choice(['multiplex', 'piter_multiplex', 'piter_fn']))
      case['fn'] = rng.choice(['dup', 'ident'])
      case['cap'] = rng.choice([1, 2])
      case['workers'] = 1 if case['api'] != 'multiplex' else case['workers']
      if case['api'] != 'piter_fn':
        case['inputs'] = [[100 * j + k + 1 for k in range(rng.randrange(2, 5))] for j in range(rng.randrange(2, 4))]
        case['par'] = rng.randrange(1, 3)
      else:
        case['inputs'] = [[k + 1 for k in range(rng.randrange(2, 5))]]
      allv = [v for it in case['inputs'] for v in it]
      if rng.random() < 0.5:
        case['num_steps'], case['fail_on'] = rng.randrange(0, 4), None
      else:
        case['num_steps'], case['fail_on'] = None, rng.choice(allv[-3:])
      ctx.count('directed', 'late-task/full-queue')
    case = round8(rng, case, i, ctx)
    ctx.count('api', case['api'])
    ctx.count('par', case['par'])
    ctx.count('cap', case['cap'])
    ctx.count('inputs', len(case['inputs']))
    ctx.count('event', 'early' if case['num_steps'] is not None else
              ('fail' if (case['fail_on'] is not None or any('fail' in it for it in case['inputs'])) else 'exhaust'))
    yield case


BASE_FAULTS = [k for k in lp.lq.FAULTS if k != 'fail']


def round8(rng, case, i, ctx):
  """Round 8: (1) faults that are BaseExceptions but not Exceptions, raised by an input or by the row function;
  (2) observers after the fact: two more next() calls on the same iterator when the run has ended;
  (3) every 8th case: a MultiplexIterator whose consumer is interrupted (KeyboardInterrupt) at a scheduler-chosen yield
  point inside next(), over inputs that do not fit into the bounded buffer (3 * parallelism)."""
  if case['api'] in ('piter2', 'chain'):
    return case
  if i % 8 == 1:
    P = rng.randrange(1, 3)
    n = rng.choice([1, 2, 2, 3])
    case = dict(api='multiplex', par=P, cap=0, workers=0,
                inputs=[[100 * j + k + 1 for k in range(rng.randrange(3, 7))] for j in range(n)],
                fn=rng.choice(['ident', 'dup', 'ident', 'inc']), fail_on=None, num_steps=None, max_batch=0, multi_ret=False,
                intr=dict(at=rng.randrange(0, 70)),
                sched=dict(kind=rng.choice(['random', 'pct']), seed=rng.randrange(10**9), changes=rng.randrange(1, 6),
                           horizon=rng.choice([50, 150, 400])))
    if rng.random() < 0.2:
      case['inputs'][rng.randrange(n)].insert(rng.randrange(1, 4), rng.choice(['fail'] + BASE_FAULTS))
    ctx.count('directed', 'interrupt')
    return case
  case['post'] = 2
  for it in case['inputs']:
    for k, v in enumerate(it):
      if v == 'fail' and rng.random() < 0.5:
        it[k] = rng.choice(BASE_FAULTS)
      if lp.lq.is_fail(it[k]):
        ctx.count('fault_class', 'input:' + it[k])
  if case.get('fail_on') is not None:
    if rng.random() < 0.5:
      case['fail_cls'] = rng.choice(BASE_FAULTS)
    ctx.count('fault_class', 'fn:' + (case.get('fail_cls') or 'fail'))
  return case


def run_impl(case):
  if case.get('stage') == 'real_threads':
    return lr.run_cases([case], deadline=30.0)[0]
  return lp.run_real(case)


def model_requests_obs(case, obs):
  if case.get('stage') == 'real_threads':
    return []
  if case['api'] == 'piter2':
    return [lp2.model_request(case, obs['choices'])]
  return lp.model_requests_obs(case, obs)


def oracle(case, obs):
  if case.get('stage') == 'real_threads':
    return lr.oracle(case, obs)
  return lp.sched_oracle(case, obs)


def shrink(case, fails):
  if case.get('stage') == 'real_threads':
    return case
  return lp.shrink(case, fails)


model_requests = None
POINTS2 = {}          # program points of the two-queue LTS exercised by the replayed schedules (main process)
STATS2 = dict(replayed=0, deadlock=0, done=0, disagree=0)


def model_obs(case, resps):
  if resps and case.get('api') == 'piter2':
    m = lp2.model_obs(case, resps)
    for p in m['points']:
      POINTS2[p] = POINTS2.get(p, 0) + 1
    STATS2['replayed'] += 1
    if m['outcome'] in STATS2:
      STATS2[m['outcome']] += 1
    return m
  return lp.model_obs(case, resps)


def compare(obs, m):
  if m is not None and m.get('two_level'):
    w = lp2.compare(obs, m)
    if w is not None:
      STATS2['disagree'] += 1
    return w
  return lp.compare(obs, m)


INTR = {}           # where the interrupts landed (label of the consumer's pending operation), main process
OBS8 = {}           # what the after-the-fact next() calls followed


def nontrivial(case, obs):
  if case.get('stage') != 'real_threads':
    it = obs.get('intr')
    if it is not None:
      k = it['fired'][0] if it['fired'] else 'not delivered (the run ended first)'
      INTR[k] = INTR.get(k, 0) + 1
    if obs.get('post') and obs['outcome'] == 'done':
      end = (obs['threads'][0]['outcome'] or {}).get('raise')
      k = ('early-stop' if obs['threads'][0].get('early') else
           'failure' if end == 'ValueError' else 'clean-end' if end == 'StopIteration' else str(end))
      for c in obs.get('fault_classes') or []:
        if c != 'ValueError' and end == 'ValueError':
          OBS8['base-fault'] = OBS8.get('base-fault', 0) + 1
      OBS8[k + ':' + case['api']] = OBS8.get(k + ':' + case['api'], 0) + 1
      OBS8[k] = OBS8.get(k, 0) + 1
  ch = [c[0] for c in obs['choices']]
  return sum(1 for a, b in zip(ch, ch[1:]) if a != b) >= 10


def pool_too_small(case):
  """two-level piter on a pool given by the caller in which the tasks of one level can occupy every worker:
  max_workers <= #inputs (the enqueuers block on the full input queue, no iterator_fn task runs), or — pools that may start
  tasks in any order, as the scheduler shim does — max_workers <= parallelism (the iterator_fn tasks wait for enqueuers
  that cannot start).  Exhaustive exploration of the two-queue LTS finds stuck configurations exactly in this class."""
  return bool(case.get('api') == 'piter2' and case.get('workers') and
              case['workers'] <= max(len(case['inputs']), case['par']))


def finding(case, what):
  if pool_too_small(case):
    return 'F-C13-pool-small'
  return None


def neighbours(case, rng):
  # first the classic hang shape: several producers parked on a small full buffer when something fails / stops
  for k in range(400):
    yield lp.blocked_case(rng)
  for k in range(300):
    c = copy.deepcopy(case)
    c['sched'] = dict(kind=rng.choice(['random', 'pct']), seed=rng.randrange(10**9), changes=rng.randrange(1, 6),
                      horizon=rng.choice([50, 150, 400]))
    if k % 3 == 0:
      c['cap'] = rng.choice([0, 1, 2])
    if k % 5 == 0:
      c['num_steps'] = rng.choice([None, 0, 1, 2])
    yield c


EXPLORE_QUICK = [
    # (inputs, P, buffer_size, workers, fifo, expect_stuck)   small enough for the quick tier (<= 5 s each)
    ([[1, 2], []], 1, 1, 1, True, True),        # F-C13-pool-small (Witness/C13.lean): FIFO pool, the enqueuer blocks on the full input queue
    ([[1, 2], []], 1, 1, 1, False, True),       # any-order pool: additionally the iterator_fn task first, no enqueuer ever starts
    ([[1], []], 1, 1, None, False, False),      # piter's own pool (fix b40a851): every schedule ends
]
EXPLORE_THOROUGH = EXPLORE_QUICK + [
    ([[1, 2], []], 1, 1, 2, False, False),      # one more worker: every schedule ends
    ([[1], [2]], 1, 1, None, False, False),
    ([[1, 2], [3]], 1, 1, 2, False, True),      # workers = #inputs
    ([[1, 2], [3]], 1, 1, 2, True, True),
    ([[1, 2], [3]], 1, 1, 3, False, False),     # caller's pool with #inputs + 1 workers
    ([[1, 2], [3]], 2, 1, 2, False, True),      # any-order pool: both iterator_fn tasks first
    ([[1, 2], [3]], 2, 1, 2, True, True),
]


def lts2_stage(ctx):
  """two-queue LTS: (1) the replayed schedules have to exercise every promised program point; (2) exhaustive
  exploration of ALL schedules of small configurations: a quiescent non-final configuration exists exactly where the
  pool-size side condition of C13_two_* fails."""
  from harness.core import InfraError
  ctx.hist['lts2_points'] = dict(sorted(POINTS2.items()))
  ctx.hist['lts2_replays'] = dict(STATS2)
  missing = [p for p in lp2.PROMISED if p not in POINTS2]
  ctx.notes.append(f'two-queue LTS: {STATS2["replayed"]} real two-level runs replayed step by step, '
                   f'{len(POINTS2)} program points exercised ({len(lp2.PROMISED)} promised, missing {missing})')
  # a disagreeing replay is reported by the runner (VIOLATION); coverage is only promised for the agreeing tree
  if missing and not STATS2['disagree']:
    raise InfraError(f'two-level replays missed promised program points of Model/Piter2.lean: {missing}')
  confs = EXPLORE_QUICK if ctx.quick else EXPLORE_THOROUGH
  reqs = []
  for inputs, P, cap, workers, fifo, _ in confs:
    case = dict(par=P, cap=cap, workers=workers or 0, inputs=inputs, fn='ident', fail_on=None, num_steps=None)
    r = lp2.explore_request(case, 3000000)
    r['workers'] = workers
    r['fifo'] = fifo
    reqs.append(r)
  resps = ctx.lean.ask_many(reqs)
  for (inputs, P, cap, workers, fifo, expect), r in zip(confs, resps):
    ctx.extra_evals += 1
    desc = dict(inputs=inputs, par=P, buffer_size=cap, workers=workers, fifo=fifo, states=r['states'],
                transitions=r['transitions'], complete=r['complete'], stuck=r['n_stuck'], final=r['n_final'])
    ctx.hist.setdefault('lts2_explore', {})[str((inputs, P, cap, workers, fifo))] = desc
    if not r['complete']:
      ctx.notes.append(f'exploration incomplete: {desc}')
      continue
    if bool(r['n_stuck']) != expect:
      ctx.extra_disagreements.append(('lts2_explore', dict(api='piter2', explore=desc),
                                      f'exhaustive exploration of the two-queue LTS: stuck configurations {r["n_stuck"]} '
                                      f'(expected {"some" if expect else "none"}): {r["stuck"][:1]}'))


INTR_PROMISED = ['wake cond1', 'acquire cond1', 'acquire rlock1', 'get_nowait q1', 'empty q1', 'wait cond1',
                 'notify cond2', 'acquire cond2']
OBS8_PROMISED = ['failure', 'clean-end', 'early-stop', 'base-fault', 'failure:multiplex', 'failure:piter_fn', 'failure:pmap']


def round8_stage(ctx):
  from harness.core import InfraError
  ctx.hist['interrupt_at'] = dict(sorted(INTR.items()))
  ctx.hist['observers_after'] = dict(sorted(OBS8.items()))
  m1 = [k for k in INTR_PROMISED if not INTR.get(k)]
  m2 = [k for k in OBS8_PROMISED if not OBS8.get(k)]
  ctx.notes.append(f'round 8: {sum(v for k, v in INTR.items() if not k.startswith("not"))} runs with the consumer interrupted inside next() '
                   f'at {len([k for k in INTR if not k.startswith("not")])} kinds of yield point (promised {INTR_PROMISED}, missing {m1}); '
                   f'{sum(OBS8.get(k, 0) for k in ("failure", "clean-end", "early-stop"))} runs followed by later next() calls (missing {m2})')
  if m1 or m2:
    raise InfraError(f'C13 round 8: promised interrupt points / observer classes not exercised: {m1} {m2}')


def extra(ctx):
  """Stage 2: real ThreadPoolExecutor, no shim (in a child process with a deadline)."""
  round8_stage(ctx)
  lts2_stage(ctx)
  n = 500 if ctx.quick else 4000
  cases = []
  for i in range(n):
    case = lp.gen_case(ctx.rng, quick=ctx.quick, api='piter2' if i % 10 in (4, 9) else ('chain' if i % 20 == 7 else None))
    if i % 10 == 6:
      case = lp.blocked_case(ctx.rng, quick=ctx.quick)
    if pool_too_small(case):       # known open finding, reproduced in stage 1 (it costs a join timeout here)
      case['workers'] = 0
    case['sched'] = None
    case['stage'] = 'real_threads'
    case['jitter'] = ctx.rng.randrange(10**9)
    ctx.count('real_threads_api', case['api'])
    cases.append(case)
  # directed: more input iterators than the default pool has workers (finding F-C13-starve, repaired)
  cases.append(dict(api='piter2', par=2, cap=0, workers=0, inputs=[[10 * i + 1, 10 * i + 2] for i in range(40)],
                    fn='inc', fail_on=None, num_steps=None, max_batch=0, sched=None, stage='real_threads', jitter=1))
  cases.append(dict(api='piter2', par=2, cap=0, workers=0, inputs=[[10 * i + 1, 10 * i + 2] for i in range(40)],
                    fn='inc', fail_on=None, num_steps=3, max_batch=0, sched=None, stage='real_threads', jitter=2))
  n = len(cases)
  obs = lr.run_cases(cases, deadline=45.0 if ctx.quick else 700.0)
  infra = sum(1 for o in obs if o.get('infra'))
  if infra:
    ctx.notes.append(f'stage 2: {infra} of {n} real-thread cases not run (child deadline / crash): {obs[-1].get("err")}')
  ctx.extra_evals += n - infra
  for c, o in zip(cases, obs):
    w = lr.oracle(c, o)
    if w is not None:
      ctx.extra_oracle_failures.append((c, w))
  for w in lr.hazard_probes():
    ctx.extra_oracle_failures.append((dict(stage='hazard_probe'), w))
