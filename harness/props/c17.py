"""C17 — lazy expressions evaluate to what the eager expression would.

Real code: ml_metrics._src.chainables.lazy_fns (trace / LazyObject / LazyFn / maybe_make / pickler /
clear_cache / clear_object / cache_info / object_info) and ml_metrics._src.utils.func_utils
(LruCache, lru_cache).
Models: lean/MlModel/Model/Lazy.lean, lean/MlModel/Model/Lru.lean; theorems: lean/MlModel/Properties/C17.lean.

Three kinds of case (case['kind']):
  'lazy'  a sequence of make / clear_cache / clear_object operations over traced expression trees
          built from the callable library of harness/lib_c17.py, with both caches shrunk to
          case['fn_max'] / case['obj_max'] through the public `maxsize` attribute of the LruCache
          behind `cache_info` (thorough tier also runs with the sizes found in the source);
  'lru'   raw histories on func_utils.LruCache(maxsize);
  'wrap'  call histories on a function decorated with func_utils.lru_cache(maxsize=..).
"""
import copy
import json

from harness import lib_c17 as lib
from harness import lib_c14_hist as hist
from harness import lib_c17_copies as copies
from harness.core import err_kind, jdump

PID = 'C17'
TITLE = 'Lazy expressions evaluate to what the eager expression would'
LEAN_MODULES = ['MlModel.Properties.C17', 'MlModel.Properties.C17State', 'MlModel.Properties.C17Eq']
TRUSTED = [
    'modelled, not verified: collections.OrderedDict (association list, oldest first), cloudpickle '
    '(structural copy; library functions and classes travel by reference), CPython hashing of ints/str/tuples '
    '(only consistency of hash with == is used)',
    'the callable library harness/lib_c17.py is written twice (Python, Lean applyLib); its agreement is part of the '
    'differential tie',
]
ASSUMPTIONS = [
    'leaf values are hashable (ints, str, None, tuples, frozen records, module-level callables); an unhashable leaf '
    'makes LazyFn hash by id and is outside the model',
    'attribute names are drawn from {x,y,z,f} (no clash with LazyObject\'s own attributes); keyword names never '
    'cache_result_/lazy_result_',
    'a handle whose stored value is again a handle is never used as a function or getattr/getitem target '
    '(the model answers OutOfModel; the generator does not build it)',
    'library callables never return an un-made LazyFn (results made again are handles or plain values)',
]
RULE = ('lazy: random typed expression trees (call depth<=5, +1 for an attribute/item node) over add/mul/pair/len/ident/mkrec/'
        'counter/failneg/getattr/getitem with every cache_result_/lazy_result_ combination, ~10% ill-typed or '
        'ill-bound calls, pickle round trips through lazy_fns.pickler, op sequences (make/clear_cache/clear_object, '
        'results of earlier ops re-used as leaves) longer than the shrunk cache bounds 0..3; three oracle levels: '
        'A no lazy_result (full reference interpreter), B lazy_result at op roots (reference interpreter with a '
        'textbook LRU object store), C nested lazy_result (correspondence only). lru/wrap: random histories over '
        '<=6 keys, maxsize 0..4. non-trivial = a lazy case with >=2 makes of which at least one call node is '
        'cached or lazy, or an lru/wrap history that evicts; distinct = distinct canonical case JSON')

NAMES = ['x', 'y', 'z', 'f']


# ----------------------------------------------------------------------------- generation

def V_int(n): return {'i': n}
def V_str(s): return {'s': s}
def V_tup(xs): return {'t': xs}
def V_rec(fs): return {'r': [[k, v] for k, v in fs]}
def V_fn(n): return {'f': n}


def const(v): return {'t': 'const', 'v': v}
def traced(v, lazy=False): return {'t': 'traced', 'v': v, 'lazy': lazy}


def call(name_or_f, args=(), kw=(), cache=False, lazy=False, raw=False):
  f = name_or_f
  if isinstance(f, str):
    f = const(V_fn(f)) if raw else traced(V_fn(f))
  return {'t': 'call', 'f': f, 'args': list(args), 'kw': [[k, e] for k, e in kw], 'cache': cache, 'lazy': lazy}


def getattr_(o, name): return {'t': 'getattr', 'o': o, 'name': name}
def getitem_(o, key): return {'t': 'getitem', 'o': o, 'key': key}


class Gen:
  """Typed random expressions; `lazy_p` is the probability of lazy_result_ on an inner call node."""

  def __init__(self, rng, cache_p=0.3, lazy_p=0.0, bad_p=0.1, counter_p=0.15):
    self.rng, self.cache_p, self.lazy_p, self.bad_p, self.counter_p = rng, cache_p, lazy_p, bad_p, counter_p

  def flags(self):
    r = self.rng
    c = r.random() < self.cache_p
    l = r.random() < self.lazy_p
    if c and l and r.random() < 0.8:
      l = False
    return c, l

  def leaf_int(self):
    n = self.rng.choice([-2, -1, 0, 1, 2, 3, 5])
    return const(V_int(n)) if self.rng.random() < 0.7 else traced(V_int(n))

  def val_tup(self, d=0):
    r = self.rng
    return V_tup([V_int(r.randrange(0, 4)) if d > 0 or r.random() < 0.8 else self.val_tup(d + 1)
                  for _ in range(r.randrange(0, 4))])

  def val_rec(self):
    r = self.rng
    names = r.sample(NAMES[:3], r.randrange(1, 4))
    fs = [(n, r.choice([V_int(r.randrange(0, 5)), V_str('ab'), self.val_tup(1)])) for n in names]
    if r.random() < 0.4:
      fs.append(('f', V_fn(r.choice(['add', 'pair', 'mul', 'ident']))))
    return V_rec(fs)

  def wrap_leaf(self, v):
    return const(v) if self.rng.random() < 0.5 else traced(v)

  def int_(self, d):
    r = self.rng
    if d <= 0 or r.random() < 0.25:
      return self.leaf_int()
    c, l = self.flags()
    k = r.random()
    if r.random() < self.bad_p:
      return self.bad(d)
    if k < 0.30:
      return self.binop('add', d, c, l)
    if k < 0.45:
      if r.random() < 0.5:
        return call('mul', [self.int_(d - 1)], [], c, l)
      return call('mul', [self.int_(d - 1)], [('b', self.int_(d - 1))], c, l)
    if k < 0.55:
      return call('len', [self.tup(d - 1)], [], c, l)
    if k < 0.55 + self.counter_p:
      return call('counter', [], [] if r.random() < 0.6 else [('x', self.int_(d - 1))], c, l)
    if k < 0.78:
      return call('failneg', [self.int_(d - 1)], [], c, l)
    if k < 0.86:
      if r.random() < 0.7:
        return call('ident', [self.int_(d - 1)], [], c, l)
      return call('ident', [], [('x', self.int_(d - 1))], c, l)
    if k < 0.93:
      # item of a tuple expression
      return getitem_(self.lazy_obj(self.tup(d - 1)), V_int(r.choice([0, 1, -1, 2])))
    # attribute / item of a record
    rec = self.rec(d - 1)
    if r.random() < 0.5:
      return getattr_(self.lazy_obj(rec), r.choice(NAMES[:3]))
    return getitem_(self.lazy_obj(rec), V_str(r.choice(NAMES[:3])))

  def binop(self, name, d, c, l):
    r = self.rng
    a, b = self.int_(d - 1), self.int_(d - 1)
    form = r.random()
    if form < 0.6:
      return call(name, [a, b], [], c, l)
    if form < 0.85:
      return call(name, [a], [('b', b)], c, l)
    if form < 0.95:
      return call(name, [], [('b', b), ('a', a)], c, l)
    # function position is itself an expression: attribute of a record holding the callable
    rec = traced(V_rec([('f', V_fn(name)), ('x', V_int(1))]))
    return call(getattr_(rec, 'f'), [a, b], [], c, l)

  def lazy_obj(self, e):
    """getattr/getitem nodes need a LazyObject on the left; a raw constant is traced."""
    if e['t'] == 'const':
      return traced(e['v'])
    return e

  def tup(self, d):
    r = self.rng
    if d <= 0 or r.random() < 0.3:
      return self.wrap_leaf(self.val_tup())
    c, l = self.flags()
    k = r.random()
    if k < 0.7:
      a = self.any_(d - 1)
      b = self.any_(d - 1)
      if r.random() < 0.7:
        return call('pair', [a, b], [], c, l)
      return call('pair', [a], [('b', b)], c, l)
    return call('ident', [self.tup(d - 1)], [], c, l)

  def rec(self, d):
    r = self.rng
    if d <= 0 or r.random() < 0.4:
      return self.wrap_leaf(self.val_rec())
    c, l = self.flags()
    names = r.sample(NAMES[:3], r.randrange(1, 4))
    return call('mkrec', [], [(n, self.any_(d - 1)) for n in names], c, l)

  def any_(self, d):
    k = self.rng.random()
    if k < 0.6:
      return self.int_(d)
    if k < 0.85:
      return self.tup(d)
    return self.rec(d)

  def bad(self, d):
    """Ill-typed / ill-bound / non-callable constructions (the ~10% malformed stream)."""
    r = self.rng
    c, l = self.flags()
    how = r.randrange(9)
    a = self.int_(d - 1)
    if how == 0:
      return call('add', [a], [], c, l)                          # missing argument
    if how == 1:
      return call('add', [a, a, a], [], c, l)                    # too many
    if how == 2:
      return call('add', [a, a], [('b', a)], c, l)               # multiple values
    if how == 3:
      return call('mul', [a], [('q', a)], c, l)                  # unexpected keyword
    if how == 4:
      return call('add', [a, self.tup(d - 1)], [], c, l)         # wrong type
    if how == 5:
      return call(traced(V_int(3)), [a], [], c, l)               # not callable
    if how == 6:
      return call('len', [a], [], c, l)                          # len of an int
    if how == 7:
      return getattr_(self.lazy_obj(self.any_(d - 1)), r.choice(NAMES))   # maybe missing attribute
    return getitem_(self.lazy_obj(self.any_(d - 1)), r.choice([V_int(7), V_str('q'), V_int(0), None]))

  def root(self, d, lazy_root=False):
    e = self.any_(d)
    if e['t'] == 'call' and lazy_root:
      e['lazy'] = True
      if e['cache'] and self.rng.random() < 0.8:
        e['cache'] = False
    elif e['t'] in ('const', 'traced') and lazy_root:
      e = traced(e['v'], lazy=True)
    if e['t'] == 'call' and self.rng.random() < 0.1:
      # the LazyFn.new route (raw callable in function position)
      if e['f']['t'] == 'traced' and not e['f']['lazy']:
        e['f'] = const(e['f']['v'])
    return e


def expr_depth(e):
  if e['t'] in ('const', 'traced'):
    return 0
  if e['t'] in ('getattr', 'getitem'):
    return 1 + expr_depth(e['o'])
  return 1 + max([expr_depth(e['f'])] + [expr_depth(a) for a in e['args']] + [expr_depth(a) for _, a in e['kw']])


def gen_lazy_case(rng, level, fn_max, obj_max, n_ops, depth):
  g = Gen(rng, cache_p=rng.choice([0.0, 0.3, 0.6]), lazy_p=0.2 if level == 'C' else 0.0,
          counter_p=rng.choice([0.0, 0.15, 0.3]))
  pool = []
  for _ in range(rng.randrange(1, 5)):
    pool.append(g.root(rng.randrange(1, depth + 1), lazy_root=(level != 'A' and rng.random() < 0.5)))
  for e in list(pool):
    if e['t'] == 'call' and e['kw'] and rng.random() < 0.5:
      e2 = copy.deepcopy(e)
      e2['kw'][rng.randrange(len(e2['kw']))][1] = g.leaf_int()
      pool.append(e2)
  ops = []
  for i in range(n_ops):
    k = rng.random()
    if k < 0.08:
      ops.append({'op': 'clear_cache'})
    elif k < 0.14 and level != 'A':
      ops.append({'op': 'clear_object'})
    elif k < 0.40 and level != 'A' and any(o['op'] == 'make' for o in ops):
      # use the object returned by an earlier op
      j = rng.choice([j for j, o in enumerate(ops) if o['op'] == 'make'])
      leaf = const({'res': j})
      form = rng.random()
      if form < 0.45:
        e = leaf                                                  # plain dereference
      elif form < 0.6:
        e = call('ident', [leaf])
      elif form < 0.7:
        e = call('pair', [leaf, const(V_int(1))], cache=rng.random() < 0.3)
      elif form < 0.8:
        e = call('add', [leaf, const(V_int(1))], cache=rng.random() < 0.3)
      elif form < 0.9:
        e = getitem_(leaf, rng.choice([V_int(0), V_str('x')]))
      else:
        e = call(leaf, [const(V_int(2)), const(V_int(3))])        # handle in function position
      if level == 'C' and rng.random() < 0.3:
        e = call('pair', [traced({'res': j}), g.int_(1)])         # the handle itself travels on
      ops.append({'op': 'make', 'e': e, 'pickle': rng.random() < 0.25})
    else:
      e = copy.deepcopy(rng.choice(pool))
      ops.append({'op': 'make', 'e': e, 'pickle': rng.random() < 0.3})
  return {'kind': 'lazy', 'level': level, 'fn_max': fn_max, 'obj_max': obj_max, 'ops': ops}


def fixed_lazy_cases():
  """Hand-written small cases: every flag combination on one call node, each callable, the documented corners."""
  out = []
  one = const(V_int(1))
  two = const(V_int(2))
  for cache in (False, True):
    for lazy in (False, True):
      for raw in (False, True):
        for pk in (False, True):
          e = call('pair', [one, call('counter', [])], [], cache, lazy, raw=raw)
          ops = [{'op': 'make', 'e': e, 'pickle': pk}, {'op': 'make', 'e': e, 'pickle': False},
                 {'op': 'make', 'e': const({'res': 0}), 'pickle': False},
                 {'op': 'clear_cache'}, {'op': 'make', 'e': e, 'pickle': pk},
                 {'op': 'clear_object'}, {'op': 'make', 'e': const({'res': 0}), 'pickle': False}]
          out.append({'kind': 'lazy', 'level': 'B' if lazy else 'A', 'fn_max': 2, 'obj_max': 2, 'ops': ops})
  # traced constant vs raw constant in the same argument position of a cached call (finding C17-F1)
  e1 = call('pair', [traced(V_int(1)), two], cache=True)
  e2 = call('pair', [one, two], cache=True)
  out.append({'kind': 'lazy', 'level': 'A', 'fn_max': 4, 'obj_max': 4,
              'ops': [{'op': 'make', 'e': e1, 'pickle': False}, {'op': 'make', 'e': e2, 'pickle': False},
                      {'op': 'make', 'e': e1, 'pickle': False}]})
  # same callable and positional arguments, different keyword arguments / keyword order: different cached calls
  k1 = call('mul', [const(V_int(3))], [('b', two)], cache=True)
  k2 = call('mul', [const(V_int(3))], [('b', const(V_int(5)))], cache=True)
  k3 = call('mul', [const(V_int(3))], [], cache=True)
  r1 = call('mkrec', [], [('x', one), ('y', two)], cache=True)
  r2 = call('mkrec', [], [('y', two), ('x', one)], cache=True)
  r3 = call('mkrec', [], [('x', two), ('y', one)], cache=True)
  for seq in ([k1, k2, k3, k1, k2, k3], [r1, r2, r3, r1, r2, r3]):
    for pk in (False, True):
      out.append({'kind': 'lazy', 'level': 'A', 'fn_max': 3, 'obj_max': 1,
                  'ops': [{'op': 'make', 'e': e, 'pickle': pk} for e in seq]})
  # LRU order: a, b, a, c with capacity 2 must evict b, not a
  ea, eb, ec = (call('pair', [const(V_int(i)), call('counter', [])], cache=True) for i in (1, 2, 3))
  seq = [ea, eb, ea, ec, ea, eb]
  out.append({'kind': 'lazy', 'level': 'A', 'fn_max': 2, 'obj_max': 2,
              'ops': [{'op': 'make', 'e': e, 'pickle': False} for e in seq]})
  # object store: three handles, capacity 2, dereference in an order that tells LRU from FIFO
  h = [call('pair', [const(V_int(i)), one], lazy=True) for i in range(3)]
  out.append({'kind': 'lazy', 'level': 'B', 'fn_max': 2, 'obj_max': 2,
              'ops': [{'op': 'make', 'e': h[0], 'pickle': False}, {'op': 'make', 'e': h[1], 'pickle': False},
                      {'op': 'make', 'e': const({'res': 0}), 'pickle': False},
                      {'op': 'make', 'e': h[2], 'pickle': True},
                      {'op': 'make', 'e': const({'res': 0}), 'pickle': False},
                      {'op': 'make', 'e': const({'res': 1}), 'pickle': False},
                      {'op': 'make', 'e': const({'res': 3}), 'pickle': False}]})
  # handle as function / getattr / getitem target, and a lazy argument handed to ident / pair / add
  hf = traced(V_fn('pair'), lazy=True)
  hr = call('mkrec', [], [('x', one), ('y', two)], lazy=True)
  out.append({'kind': 'lazy', 'level': 'B', 'fn_max': 2, 'obj_max': 3,
              'ops': [{'op': 'make', 'e': hf, 'pickle': False}, {'op': 'make', 'e': hr, 'pickle': False},
                      {'op': 'make', 'e': call(const({'res': 0}), [one, two]), 'pickle': False},
                      {'op': 'make', 'e': getattr_(const({'res': 1}), 'y'), 'pickle': True},
                      {'op': 'make', 'e': getitem_(const({'res': 1}), V_str('x')), 'pickle': False},
                      {'op': 'make', 'e': getattr_(const({'res': 1}), 'z'), 'pickle': False}]})
  # a cached / held value that IS None is a value like any other, not a miss (seeded change C17-m7): the cached call is
  # evaluated once (the counter inside it does not advance again), a handle holding None dereferences to None
  none = const(None)
  gn = call('getitem', [call('pair', [none, call('counter', [])]), const(V_int(0))], cache=True)
  for pk in (False, True):
    out.append({'kind': 'lazy', 'level': 'A', 'fn_max': 2, 'obj_max': 2,
                'ops': [{'op': 'make', 'e': gn, 'pickle': pk}, {'op': 'make', 'e': gn, 'pickle': False},
                        {'op': 'make', 'e': gn, 'pickle': pk}, {'op': 'make', 'e': call('counter', []), 'pickle': False},
                        {'op': 'make', 'e': call('ident', [none], cache=True), 'pickle': pk},
                        {'op': 'make', 'e': call('ident', [none], cache=True), 'pickle': False}]})
  hn = call('ident', [none], lazy=True)
  out.append({'kind': 'lazy', 'level': 'B', 'fn_max': 2, 'obj_max': 2,
              'ops': [{'op': 'make', 'e': hn, 'pickle': False}, {'op': 'make', 'e': const({'res': 0}), 'pickle': False},
                      {'op': 'make', 'e': call('pair', [const({'res': 0}), one]), 'pickle': False},
                      {'op': 'make', 'e': const({'res': 0}), 'pickle': True}]})
  lz = call('pair', [one, two], lazy=True)
  out.append({'kind': 'lazy', 'level': 'C', 'fn_max': 2, 'obj_max': 3,
              'ops': [{'op': 'make', 'e': call('ident', [lz]), 'pickle': False},
                      {'op': 'make', 'e': call('pair', [lz, one]), 'pickle': False},
                      {'op': 'make', 'e': call('add', [lz, one]), 'pickle': False},
                      {'op': 'make', 'e': call('len', [lz]), 'pickle': False},
                      {'op': 'make', 'e': getitem_(lz, V_int(0)), 'pickle': False},
                      {'op': 'make', 'e': call(call('ident', [traced(V_fn('add'))], lazy=True), [one, two]),
                       'pickle': False}]})
  return out


def gen_lru_case(rng, kind, maxsize, n):
  keys = list(range(rng.randrange(1, 7)))
  ops = []
  v = 0
  for _ in range(n):
    v += 1
    k = rng.choice(keys)
    r = rng.random()
    if kind == 'lru':
      if r < 0.4:
        ops.append(['get', k])
      elif r < 0.85:
        ops.append(['set', k, v])
      elif r < 0.93:
        ops.append(['has', k])
      else:
        ops.append(['clear'])
    else:
      if r < 0.93:
        ops.append(['wrapped', k, rng.random() < 0.15, v])
      else:
        ops.append(['clear'])
  return {'kind': kind, 'maxsize': maxsize, 'ops': ops}


def real_sizes():
  from ml_metrics._src.chainables import lazy_fns as lf
  return lf.cache_info().maxsize, lf.object_info().maxsize


def gen_cases(ctx):
  rng = ctx.rng
  quick = ctx.quick
  yield from ctx.corpus()
  yield from fixed_lazy_cases()
  n_lazy = 2400 if quick else 30000
  for i in range(n_lazy):
    level = 'ABC'[i % 3] if i % 4 else 'A'
    yield gen_lazy_case(rng, level, rng.randrange(0, 4), rng.randrange(0, 4), rng.randrange(2, 14),
                        depth=5 if i % 5 == 0 else 3)
  if not quick:
    fn_real, obj_real = real_sizes()
    # the real bounds: more distinct cached calls / handles than the caches hold, then revisit
    for rep in range(3):
      ops = []
      n = fn_real + 5 + rep
      for i in range(n):
        ops.append({'op': 'make', 'e': call('pair', [const(V_int(i)), call('counter', [])], cache=True),
                    'pickle': i % 17 == 0})
      for i in (0, 1, 5 + rep, n - 1, n - fn_real, n - fn_real - 1):
        ops.append({'op': 'make', 'e': call('pair', [const(V_int(i)), call('counter', [])], cache=True),
                    'pickle': False})
      yield {'kind': 'lazy', 'level': 'A', 'fn_max': fn_real, 'obj_max': obj_real, 'ops': ops}
      ops = []
      n = obj_real + 3 + rep
      for i in range(n):
        ops.append({'op': 'make', 'e': call('pair', [const(V_int(i)), const(V_int(rep))], lazy=True),
                    'pickle': i % 97 == 0})
        if i == 2:
          ops.append({'op': 'make', 'e': const({'res': 0}), 'pickle': False})
      for j in (0, 1, 2, 3 + rep, 5, len(ops) - 1):
        ops.append({'op': 'make', 'e': const({'res': j}), 'pickle': False})
      yield {'kind': 'lazy', 'level': 'B', 'fn_max': fn_real, 'obj_max': obj_real, 'ops': ops}
  for i in range(800 if quick else 10000):
    yield gen_lru_case(rng, 'lru' if i % 2 else 'wrap', rng.randrange(0, 5), rng.randrange(1, 25))
  # cached calls with unhashable / ambiguous-== arguments through distinct copies with the same id
  # (harness/lib_c17_copies.py; model: Model/LazyEq.lean)
  yield from copies.fixed_copies_cases()
  for i in range(400 if quick else 6000):
    yield copies.gen_copies_case(rng)
  # lazy expressions over MUTABLE objects (harness/lib_c14_hist.py; model: Model/RemoteState.lean)
  for name, ops, flags in hist.fixed_hist_ops():
    for fn_max in (128, 0, 1, 2):
      yield {'kind': 'hist', 'fn_max': fn_max, 'pickle': fn_max == 2, 'ops': ops}
  for i in range(900 if quick else 12000):
    yield {'kind': 'hist', 'fn_max': rng.choice([128, 0, 1, 2, 3]), 'pickle': rng.random() < 0.3,
           'ops': hist.gen_hist_ops(rng, rng.randrange(4, 17), flags=i % 4 != 0)}


# ----------------------------------------------------------------------------- real code

class _Obj:
  """Per-case decoding / encoding of values against the real library."""

  def __init__(self, results):
    self.results = results

  def dec(self, v):
    if v is None:
      return None
    if 'i' in v:
      return v['i']
    if 's' in v:
      return v['s']
    if 'f' in v:
      return lib.LIB[v['f']]
    if 't' in v:
      return tuple(self.dec(x) for x in v['t'])
    if 'r' in v:
      return lib.Rec(**{k: self.dec(x) for k, x in v['r']})
    if 'res' in v:
      k = v['res']
      return self.results[k] if k < len(self.results) else None
    raise ValueError(v)


def enc(x, is_handle, handle_id):
  if x is None:
    return None
  if isinstance(x, bool):
    return {'x': 'bool'}
  if isinstance(x, int):
    return {'i': x}
  if isinstance(x, str):
    return {'s': x}
  if isinstance(x, tuple):
    return {'t': [enc(y, is_handle, handle_id) for y in x]}
  if isinstance(x, lib.Rec):
    return {'r': [[k, enc(v, is_handle, handle_id)] for k, v in x._f]}
  if is_handle(x):
    return {'h': handle_id(x)}
  n = lib.NAME_OF.get(id(x))
  if n is not None:
    return {'f': n}
  return {'x': type(x).__name__}


def build(e, o):
  """AST -> traced expression through the public tracing API."""
  from ml_metrics._src.chainables import lazy_fns as lf
  t = e['t']
  if t == 'const':
    return o.dec(e['v'])
  if t == 'traced':
    return lf.trace(o.dec(e['v']), lazy_result=e['lazy'])
  if t == 'getattr':
    return getattr(build(e['o'], o), e['name'])
  if t == 'getitem':
    return build(e['o'], o)[o.dec(e['key'])]
  f = build(e['f'], o)
  args = [build(a, o) for a in e['args']]
  kw = {k: build(a, o) for k, a in e['kw']}
  if isinstance(f, lf.LazyObject):
    return f(*args, cache_result_=e['cache'], lazy_result_=e['lazy'], **kw)
  return lf.LazyFn.new(f, args=args, kwargs=kw, cache_result=e['cache'], lazy_result=e['lazy'])


def c17_err(ex):
  from ml_metrics._src.chainables import lazy_fns as lf
  if isinstance(ex, lf.LazyObjectMissingError):
    return 'LazyObjectMissingError'
  if isinstance(ex, RecursionError):
    return 'RecursionError'
  return err_kind(ex)


def ident_class(results, i, tracked):
  r = results[i]
  if not tracked(r):
    return None
  for j in range(i + 1):
    if results[j] is r:
      return j
  return None


def run_lazy(case):
  from ml_metrics._src.chainables import lazy_fns as lf
  fn_cache = lf.LazyFn.result_.cache_info.__self__       # the LruCache instances behind the public info functions
  obj_cache = lf.LazyObject.result_.cache_info.__self__
  saved = fn_cache.maxsize, obj_cache.maxsize
  lf.clear_cache()
  lf.clear_object()
  fn_cache.maxsize, obj_cache.maxsize = case['fn_max'], case['obj_max']
  lib.reset()
  results, obs = [], []
  o = _Obj(results)
  is_handle = lambda x: isinstance(x, lf.LazyObject) and not isinstance(x, lf.LazyFn) and x.cache_result
  tracked = lambda x: isinstance(x, (tuple, lib.Rec)) and x != () or is_handle(x)
  try:
    for op in case['ops']:
      n0 = len(lib.LOG)
      val, err, res = None, None, None
      ok = False
      if op['op'] == 'make':
        try:
          expr = build(op['e'], o)
          payload = lf.pickler.dumps(expr) if op.get('pickle') else expr
          res = lf.maybe_make(payload)
          ok = True
        except Exception as ex:  # pylint: disable=broad-except
          err = c17_err(ex)
      elif op['op'] == 'clear_cache':
        lf.clear_cache()
      elif op['op'] == 'clear_object':
        lf.clear_object()
      results.append(res)
      if ok:
        val = enc(res, is_handle, lambda h: h.id)
      fi, oi = lf.cache_info(), lf.object_info()
      obs.append({'val': val, 'ident': ident_class(results, len(results) - 1, tracked) if ok else None,
                  'err': err, 'calls': lib.LOG[n0:],
                  'fn': [fi.hits, fi.misses, fi.currsize], 'obj': [oi.hits, oi.misses, oi.currsize]})
  finally:
    fn_cache.maxsize, obj_cache.maxsize = saved
    lf.clear_cache()
    lf.clear_object()
  return {'ops': renumber(obs)}


def renumber(obs):
  """Handle ids -> index of first appearance in the observation stream."""
  seen = {}

  def go(v):
    if isinstance(v, dict):
      if 'h' in v:
        return {'h': seen.setdefault(v['h'], len(seen))}
      if 't' in v:
        return {'t': [go(x) for x in v['t']]}
      if 'r' in v:
        return {'r': [[k, go(x)] for k, x in v['r']]}
    return v
  for ob in obs:
    ob['val'] = go(ob['val'])
  return obs


def run_lru(case):
  from ml_metrics._src.utils import func_utils
  c = func_utils.LruCache(maxsize=case['maxsize'])
  out = []
  for op in case['ops']:
    ret = None
    if op[0] == 'get':
      try:
        ret = c[op[1]]
      except KeyError:
        ret = 'KeyError'
    elif op[0] == 'set':
      c[op[1]] = op[2]
    elif op[0] == 'has':
      ret = op[1] in c
    elif op[0] == 'clear':
      c.cache_clear()
    info = c.cache_info()
    out.append({'ret': ret, 'keys': list(c), 'len': len(c), 'info': [info.hits, info.misses, info.currsize]})
  return {'ops': out}


def run_wrap(case):
  from ml_metrics._src.utils import func_utils
  box = {'v': None, 'calls': 0}

  def fn(k):
    box['calls'] += 1
    return box['v']
  w = func_utils.lru_cache(maxsize=case['maxsize'])(fn)
  out = []
  for op in case['ops']:
    ret, n0 = None, box['calls']
    if op[0] == 'wrapped':
      box['v'] = op[3]
      ret = w(op[1], cache_insert_=True) if op[2] else w(op[1])
    else:
      w.cache_clear()
    info = w.cache_info()
    out.append({'ret': ret, 'called': box['calls'] - n0, 'len': info.currsize,
                'info': [info.hits, info.misses, info.currsize]})
  return {'ops': out}


def run_hist(case):
  """A history of lazy expressions over mutable objects: lazy_fns.maybe_make vs ordinary Python (+ textbook LRU)."""
  from ml_metrics._src.chainables import lazy_fns as lf
  fn_cache = lf.LazyFn.result_.cache_info.__self__
  saved = fn_cache.maxsize
  lf.clear_cache()
  lf.clear_object()
  fn_cache.maxsize = case['fn_max']
  try:
    lazy = hist.renumber(hist.run_lazy(case['ops'], lf, None, None, c17_err, pickle=case.get('pickle', False)))
  finally:
    fn_cache.maxsize = saved
    lf.clear_cache()
    lf.clear_object()
  return {'hist': lazy, 'hist_twin': hist.renumber(hist.run_twin(case['ops'], case['fn_max'], c17_err))}


def oracle_hist(case, obs):
  """Materialising = eager evaluation on the objects as they are now; a cache_result link evaluates once and returns
  the identical object until the cache is cleared or evicts it (textbook LRU of the bound)."""
  return hist.first_difference(case['ops'], obs['hist'], obs['hist_twin'], 'maybe_make',
                               'eager evaluation on the same objects')


def run_impl(case):
  if case['kind'] == 'copies':
    return copies.run(case, c17_err)
  if case['kind'] == 'hist':
    return run_hist(case)
  if case['kind'] == 'lazy':
    return run_lazy(case)
  if case['kind'] == 'lru':
    return run_lru(case)
  return run_wrap(case)


# ----------------------------------------------------------------------------- model

def model_requests(case):
  if case['kind'] == 'copies':
    return [copies.model_request(case)]
  if case['kind'] == 'hist':
    return [hist.model_request(case)]
  if case['kind'] == 'lazy':
    return [dict(model='lazy', fn_max=case['fn_max'], obj_max=case['obj_max'], ops=case['ops'])]
  return [dict(model='lru', maxsize=case['maxsize'], ops=case['ops'])]


def model_obs(case, resps):
  r = resps[0]
  if case['kind'] == 'copies':
    return {'steps': r['steps'], 'case': case}
  if case['kind'] == 'hist':
    return {'hist': hist.renumber(r['obs'])}
  if case['kind'] == 'lazy':
    out, refs = [], []
    for ob in r['ops']:
      ref = ob['ref'] if ob['err'] is None and ob['val'] is not None else 0
      refs.append(ref)
      ident = None
      if ref:
        ident = refs.index(ref)
      out.append({'val': ob['val'], 'ident': ident, 'err': ob['err'], 'calls': ob['calls'],
                  'fn': ob['fn'], 'obj': ob['obj']})
    return {'ops': renumber(out)}
  if case['kind'] == 'lru':
    return {'ops': [{'ret': ob['ret'], 'keys': ob['keys'], 'len': ob['len'], 'info': ob['info']}
                    for ob in r['ops']]}
  # wrap: the model is told what fn would return; whether fn was called = the result is the new value
  out = []
  for op, ob in zip(case['ops'], r['ops']):
    out.append({'ret': ob['ret'], 'len': ob['len'], 'info': ob['info']})
  return {'ops': out}


def compare(impl, model):
  if 'copies' in impl:
    return copies.compare(model['case'], impl, model)
  if 'hist' in impl:
    return hist.compare_model([{}] * len(impl['hist']), impl['hist'], model['hist'], 'maybe_make')
  a, b = impl['ops'], model['ops']
  if len(a) != len(b):
    return 'different number of observations'
  for i, (x, y) in enumerate(zip(a, b)):
    for k in y:
      if k == 'ident':
        if x[k] is not None and y[k] is not None and x[k] != y[k]:
          # the model tracks the identity of handles / call results, not of elements read out of a tuple (getitem): when
          # the code's class points at an earlier observation whose identity the model did not track, and the model calls
          # this result the first of its class, the two say the same thing
          if x[k] < i and b[x[k]].get('ident') is None and y[k] == i:
            continue
          return f'op {i}: identity class {x[k]} (code) vs {y[k]} (model)'
      elif x.get(k) != y[k]:
        return f'op {i}: {k}: {jdump(x.get(k))[:200]} (code) vs {jdump(y[k])[:200]} (model)'
  return None


# ----------------------------------------------------------------------------- oracle

class _Missing(Exception):
  pass


class _Skip(Exception):
  pass


class OHandle:
  """The oracle's stand-in for a handle (a cached LazyObject): only an index into its object store."""

  def __init__(self, idx):
    self.idx = idx


def _copy(x):
  if isinstance(x, tuple):
    return tuple(_copy(y) for y in x)
  if isinstance(x, lib.Rec):
    return lib.Rec(**{k: _copy(v) for k, v in x._f})
  return x


class Reference:
  """Reference interpreter written from the English property: the expression evaluated directly
  by Python (function, then arguments left to right, then the call), a call marked cache_result_
  evaluated once per structural key and kept in a textbook LRU of the given capacity until cleared,
  a result marked lazy_result_ replaced by a handle into a textbook LRU object store, a handle
  used as a leaf dereferenced (missing-object error when it is no longer held)."""

  def __init__(self, fn_max, obj_max):
    self.fn = lib.RefLRU(fn_max)
    self.obj = lib.RefLRU(obj_max)
    self.results = []
    self.nh = 0
    self.pickled = False

  def dec(self, v):
    if v is None:
      return None
    if 'i' in v:
      return v['i']
    if 's' in v:
      return v['s']
    if 'f' in v:
      return lib.LIB[v['f']]
    if 't' in v:
      return tuple(self.dec(x) for x in v['t'])
    if 'r' in v:
      return lib.Rec(**{k: self.dec(x) for k, x in v['r']})
    k = v['res']
    x = self.results[k] if k < len(self.results) else None
    return _copy(x) if self.pickled else x      # a serialisation round trip copies plain containers

  def key(self, e):
    t = e['t']
    if t == 'const':
      return ('c', self.vkey(e['v']))
    if t == 'traced':
      return ('t', self.vkey(e['v']))
    if t == 'getattr':
      return ('call', ('c', ('f', 'getattr')), (self.key(e['o']), ('c', ('s', e['name']))), ())
    if t == 'getitem':
      return ('call', ('c', ('f', 'getitem')), (self.key(e['o']), ('c', self.vkey(e['key']))), ())
    return ('call', self.key(e['f']), tuple(self.key(a) for a in e['args']),
            tuple((k, self.key(a)) for k, a in e['kw']))

  def vkey(self, v):
    return self.okey(self.dec(v))

  def okey(self, x):
    if isinstance(x, OHandle):
      return ('h', x.idx)
    if isinstance(x, tuple):
      return ('t', tuple(self.okey(y) for y in x))
    if isinstance(x, lib.Rec):
      return ('r', tuple((k, self.okey(y)) for k, y in x._f))
    if callable(x):
      return ('f', lib.NAME_OF[id(x)])
    return (type(x).__name__, x)

  def deref(self, x):
    if isinstance(x, OHandle):
      hit, v = self.obj.get(x.idx)
      if not hit:
        raise _Missing()
      return v
    return x

  def new_handle(self, v):
    h = OHandle(self.nh)
    self.nh += 1
    self.obj.put(h.idx, v)
    return h

  def ev(self, e):
    t = e['t']
    if t == 'const':
      return self.deref(self.dec(e['v']))
    if t == 'traced':
      v = self.dec(e['v'])
      return self.new_handle(v) if e['lazy'] else v
    if t == 'getattr':
      return getattr(self.ev(e['o']), e['name'])
    if t == 'getitem':
      o = self.ev(e['o'])
      return o[self.deref(self.dec(e['key']))]
    if e['cache']:
      k = self.key(e)
      hit, v = self.fn.get(k)
      if hit:
        return v
      v = self.body(e)
      self.fn.put(k, v)
      return v
    return self.body(e)

  def body(self, e):
    f = self.ev(e['f'])
    if f is None and e['f']['t'] == 'const':
      raise _Skip()                           # LazyFn.new(None, ...): "no function", outside the property
    if not callable(f):
      raise TypeError('not callable')       # the library reports this before evaluating the arguments
    args = [self.ev(a) for a in e['args']]
    kw = {k: self.ev(a) for k, a in e['kw']}
    v = f(*args, **kw)
    return self.new_handle(v) if e['lazy'] else v


def bad_flags(e, is_lazy_obj_leaf):
  """`cache_result_` and `lazy_result_` together are refused (ValueError) by LazyObject.__call__ at trace time."""
  t = e['t']
  if t in ('const', 'traced'):
    return False
  if t in ('getattr', 'getitem'):
    return bad_flags(e['o'], is_lazy_obj_leaf)
  f = e['f']
  f_is_lazy_obj = f['t'] != 'const' or is_lazy_obj_leaf(f['v'])
  return (e['cache'] and e['lazy'] and f_is_lazy_obj) or bad_flags(f, is_lazy_obj_leaf) or \
      any(bad_flags(a, is_lazy_obj_leaf) for a in e['args']) or any(bad_flags(a, is_lazy_obj_leaf) for _, a in e['kw'])


def oracle_lazy(case, obs):
  level = case.get('level', 'C')
  ops, got = case['ops'], obs['ops']
  # generic, all levels: a dereference never yields a wrong object — it is the very object stored, or the
  # dedicated error; bounded sizes
  for i, (op, ob) in enumerate(zip(ops, got)):
    if ob['fn'][2] > case['fn_max'] or ob['obj'][2] > case['obj_max']:
      return f'op {i}: cache larger than its bound: fn {ob["fn"]} obj {ob["obj"]}'
  if level == 'C':
    return None
  ref = Reference(case['fn_max'], case['obj_max'])
  lib.reset()
  tracked = lambda x: isinstance(x, (tuple, lib.Rec)) and x != () or isinstance(x, OHandle)
  for i, (op, ob) in enumerate(zip(ops, got)):
    n0 = len(lib.LOG)
    res, err, ok = None, None, False
    if op['op'] == 'make':
      if bad_flags(op['e'], lambda v: isinstance(ref.dec(v), OHandle)):
        err = 'ValueError'
      else:
        try:
          ref.pickled = bool(op.get('pickle'))
          res = ref.ev(op['e'])
          ok = True
        except _Missing:
          err = 'LazyObjectMissingError'
        except _Skip:
          return None
        except Exception as ex:  # pylint: disable=broad-except
          err = err_kind(ex)
    elif op['op'] == 'clear_cache':
      ref.fn.clear()
    else:
      ref.obj.clear()
    ref.results.append(res)
    if err != ob['err']:
      return f'op {i}: eager/reference evaluation gives error {err}, maybe_make gave {ob["err"]} (value {jdump(ob["val"])[:120]})'
    calls = lib.LOG[n0:]
    if ok:
      if isinstance(res, OHandle):
        if not (isinstance(ob['val'], dict) and 'h' in ob['val']):
          return f'op {i}: lazy_result_ must return a handle, got {jdump(ob["val"])[:120]}'
      else:
        want = enc(res, lambda x: isinstance(x, OHandle), lambda h: -1)
        if want != ob['val']:
          return f'op {i}: maybe_make gave {jdump(ob["val"])[:160]}, eager evaluation gives {jdump(want)[:160]}'
      want_ident = ident_class(ref.results, i, tracked)
      if want_ident is not None and ob['ident'] is not None and want_ident != ob['ident']:
        return (f'op {i}: result identical to the result of op {ob["ident"]}, '
                f'reference says op {want_ident} (cached call must return the identical object, a fresh '
                f'evaluation a new one)')
    if calls != ob['calls']:
      return f'op {i}: callables entered {ob["calls"]}, reference evaluation enters {calls}'
    if ob['fn'][2] != len(ref.fn) or ob['obj'][2] != len(ref.obj):
      return (f'op {i}: cache sizes fn={ob["fn"][2]} obj={ob["obj"][2]}, textbook LRU holds '
              f'fn={len(ref.fn)} obj={len(ref.obj)}')
  return None


def oracle_lru(case, obs):
  """Mapping laws always; textbook LRU content whenever no present key is overwritten."""
  cap = case['maxsize']
  ref = lib.RefLRU(cap)
  textbook = True
  last = {}
  for i, (op, ob) in enumerate(zip(case['ops'], obs['ops'])):
    if op[0] == 'get':
      hit, v = ref.get(op[1])
      if textbook and ob['ret'] != (v if hit else 'KeyError'):
        return f'op {i}: get({op[1]}) = {ob["ret"]}, textbook LRU gives {v if hit else "KeyError"}'
    elif op[0] == 'set':
      if op[1] in ref.keys():
        textbook = False          # overwrite: the code keeps the entry's age (stated in the raw theorem)
      ref.put(op[1], op[2])
      last[op[1]] = op[2]
    elif op[0] == 'has':
      if textbook and ob['ret'] != (op[1] in ref.keys()):
        return f'op {i}: {op[1]} in cache = {ob["ret"]}, textbook LRU says {op[1] in ref.keys()}'
    else:
      ref.clear()
      textbook = True
      last = {}
    if op[0] == 'get' and ob['ret'] != 'KeyError' and ob['ret'] != last.get(op[1]):
      return f'op {i}: get({op[1]}) returned {ob["ret"]}, last value stored is {last.get(op[1])}'
    keys = ob['keys']
    if len(keys) > cap or len(set(keys)) != len(keys) or ob['len'] != len(keys):
      return f'op {i}: keys {keys} len {ob["len"]} violate size<=maxsize / distinct / len'
    if textbook and keys != ref.keys():
      return f'op {i}: keys in order {keys}, textbook LRU {ref.keys()}'
  return None


def oracle_wrap(case, obs):
  """The decorated function is called exactly on a miss (or a forced insert) and otherwise the cached value returns;
  misses follow a textbook LRU as long as no forced insert overwrote a present key."""
  cap = case['maxsize']
  ref = lib.RefLRU(cap)
  textbook = True
  for i, (op, ob) in enumerate(zip(case['ops'], obs['ops'])):
    if op[0] == 'clear':
      ref.clear()
      textbook = True
    else:
      _, k, ins, v = op
      hit, old = ref.get(k)
      if textbook:
        want_called = 0 if (hit and not ins) else 1
        want = old if (hit and not ins) else v
        if ob['called'] != want_called or ob['ret'] != want:
          return (f'op {i}: wrapped({k}) called fn {ob["called"]}x and returned {ob["ret"]}; '
                  f'textbook LRU: {want_called}x, {want}')
      if ins and hit:
        textbook = False        # from here on the code's order may differ (overwrite keeps the entry's age)
      if not hit or ins:
        ref.put(k, v)
    if ob['len'] > cap:
      return f'op {i}: currsize {ob["len"]} > maxsize {cap}'
  return None


def oracle(case, obs):
  if case['kind'] == 'copies':
    return copies.oracle(case, obs)
  if case['kind'] == 'hist':
    return oracle_hist(case, obs)
  if case['kind'] == 'lazy':
    return oracle_lazy(case, obs)
  if case['kind'] == 'lru':
    return oracle_lru(case, obs)
  return oracle_wrap(case, obs)


def has_flag(e):
  if e['t'] == 'traced':
    return e['lazy']
  if e['t'] == 'const':
    return False
  if e['t'] in ('getattr', 'getitem'):
    return has_flag(e['o'])
  return e['cache'] or e['lazy'] or has_flag(e['f']) or any(has_flag(a) for a in e['args']) or \
      any(has_flag(a) for _, a in e['kw'])


STATS = {}


def _stat(key, sub, n=1):
  h = STATS.setdefault(key, {})
  h[str(sub)] = h.get(str(sub), 0) + n


def collect(case, obs):
  _stat('kind', case['kind'] + (':' + case.get('level', '?') if case['kind'] == 'lazy' else ''))
  if case['kind'] == 'copies':
    for b in copies.branches(case, obs):
      _stat('branch', 'copies: ' + b)
    _stat('copies fn_max', case['fn_max'])
    for st in case['steps']:
      _stat('copies step', st[0] + (' ' + st[2] if st[0] == 'make' else ''))
    if copies.oracle(case, obs):
      STATS['failed'] = {'1': 1}
    return
  if case['kind'] == 'hist':
    for b in hist.branches(case['ops'], obs['hist_twin']):
      _stat('branch', 'hist: ' + b)
    for op in case['ops']:
      _stat('hist op', op['op'] + ('' if hist.plain_op(op) else ' (flags)'))
    _stat('hist fn_max', case['fn_max'])
    _stat('hist pickled', bool(case.get('pickle')))
    return
  if case['kind'] != 'lazy':
    _stat(case['kind'] + ' maxsize', case['maxsize'])
    _stat(case['kind'] + ' ops', len(case['ops']) // 5 * 5)
    return
  _stat('fn_max', case['fn_max'])
  _stat('obj_max', case['obj_max'])
  last = None
  for op, ob in zip(case['ops'], obs['ops']):
    _stat('op', op['op'] + ('+pickle' if op.get('pickle') else ''))
    if op['op'] == 'make':
      _stat('result', ob['err'] or ('handle' if isinstance(ob['val'], dict) and 'h' in ob['val'] else 'value'))
      _stat('depth', expr_depth(op['e']))
      _stat('calls per make', min(len(ob['calls']), 8))
      if last is not None:
        if ob['fn'][0] > last['fn'][0]:
          _stat('branch', 'fn cache hit')
        if ob['fn'][1] > last['fn'][1]:
          _stat('branch', 'fn cache miss')
        if ob['obj'][0] > last['obj'][0]:
          _stat('branch', 'object deref hit')
        if ob['obj'][1] > last['obj'][1]:
          _stat('branch', 'object deref miss')
        if ob['fn'][2] == last['fn'][2] == case['fn_max'] and ob['fn'][1] > last['fn'][1] and ob['err'] is None \
            and case['fn_max'] > 0:
          _stat('branch', 'fn cache eviction')
      if ob['ident'] is not None and ob['ident'] < len([1 for _ in obs['ops'][:obs['ops'].index(ob)]]):
        _stat('branch', 'identical object returned again')
    last = ob


def extra(ctx):
  for k, h in STATS.items():
    if k == 'failed':
      continue
    for sub, n in h.items():
      ctx.count(k, sub, n)
  need = ['fn cache hit', 'fn cache miss', 'object deref hit', 'object deref miss', 'fn cache eviction',
          'identical object returned again']
  need += ['hist: ' + b for b in hist.NEED_PLAIN + hist.NEED_FLAGS]
  need += ['copies: ' + b for b in copies.NEED]
  missing = [b for b in need if not STATS.get('branch', {}).get(b)]
  if missing and not STATS.get('failed'):
    # (with an oracle failure in hand the verdict is a violation, not a generator-quality problem)
    from harness.core import InfraError
    raise InfraError(f'C17 generator did not exercise: {missing}')


def nontrivial(case, obs):
  collect(case, obs)
  if case['kind'] == 'copies':
    return sum(1 for st in case['steps'] if st[0] == 'make') >= 2
  if case['kind'] == 'hist':
    return any(b.startswith('re-read after mutation') or b.startswith('next after') or b.startswith('cached link')
               for b in hist.branches(case['ops'], obs['hist_twin']))
  if case['kind'] == 'lazy':
    makes = [op for op in case['ops'] if op['op'] == 'make']
    return len(makes) >= 2 and any(has_flag(op['e']) for op in makes)
  n = len({op[1] for op in case['ops'] if op[0] in ('set', 'wrapped')})
  return n > case['maxsize']


def finding(case, what):
  return None


# ----------------------------------------------------------------------------- search helpers

def neighbours(case, rng):
  if case['kind'] == 'copies':
    for i in range(len(case['steps'])):
      if len(case['steps']) > 1:
        yield dict(case, steps=case['steps'][:i] + case['steps'][i + 1:])
    for _ in range(300):
      yield copies.gen_copies_case(rng)
    return
  if case['kind'] == 'hist':
    for i in range(len(case['ops'])):
      c = hist.drop_op(case, i)
      if c is not None and c['ops']:
        yield c
    for _ in range(300):
      yield {'kind': 'hist', 'fn_max': rng.choice([128, 0, 1]), 'pickle': False,
             'ops': hist.gen_hist_ops(rng, rng.randrange(4, 12), flags=True)}
    return
  if case['kind'] != 'lazy':
    for _ in range(300):
      yield gen_lru_case(rng, case['kind'], rng.randrange(0, 5), rng.randrange(1, 25))
    return
  for i in range(len(case['ops'])):
    c = copy.deepcopy(case)
    del c['ops'][i]
    if not refs_ok(c):
      continue
    yield c
  for fm in range(0, 4):
    for om in range(0, 4):
      c = copy.deepcopy(case)
      c['fn_max'], c['obj_max'] = fm, om
      yield c
  for _ in range(400):
    yield gen_lazy_case(rng, rng.choice('AB'), rng.randrange(0, 4), rng.randrange(0, 4), rng.randrange(2, 10), 3)


def refs_ok(case):
  """No `res` leaf points at or beyond its own op."""
  for i, op in enumerate(case['ops']):
    if op['op'] == 'make':
      for m in _res_refs(op['e']):
        if m >= i:
          return False
  return True


def _res_refs(x):
  if isinstance(x, dict):
    if 'res' in x and len(x) == 1:
      yield x['res']
    for v in x.values():
      yield from _res_refs(v)
  elif isinstance(x, list):
    for v in x:
      yield from _res_refs(v)


def shrink(case, fails):
  if case['kind'] == 'hist':
    return hist.shrink(case, fails)
  if case['kind'] == 'copies':
    return copies.shrink(case, fails)
  cur = case
  changed = True
  while changed:
    changed = False
    for i in reversed(range(len(cur['ops']))):
      c = copy.deepcopy(cur)
      del c['ops'][i]
      if case['kind'] == 'lazy':
        # re-point later references
        bad = False
        for op in c['ops'][i:]:
          if op['op'] == 'make':
            for d in _res_nodes(op['e']):
              if d['res'] == i:
                bad = True
              elif d['res'] > i:
                d['res'] -= 1
        if bad:
          continue
      if fails(c):
        cur, changed = c, True
        break
  return cur


def _res_nodes(x):
  if isinstance(x, dict):
    if 'res' in x and len(x) == 1:
      yield x
    for v in x.values():
      yield from _res_nodes(v)
  elif isinstance(x, list):
    for v in x:
      yield from _res_nodes(v)
