"""C11 — Merging is associative, order-insensitive and never damages its operands.

Decided per metric family; each family module (harness/agg/<family>.py) contributes a sub-check
with its own Lean theorems (lean/MlModel/Properties/C11/<Family>.lean), model driver and oracle.
"""
from harness.multiplex import build

globals().update(build('C11', 'Merging is associative, order-insensitive and never damages its operands', [
    'harness.agg.rolling',
    'harness.agg.classification',
    'harness.agg.retrieval',
    'harness.agg.text',
    'harness.agg.generated',   # translate/scalar.py: generated scalar definitions (self-check + theorems)
    'harness.agg.histories',   # reads interleaved with add / merge / merge_states on the same state objects (SC07)
    'harness.agg.conditioning',  # ill-conditioned float64 data vs exact rationals, derived tolerance (SC07)
    'harness.agg.mergestates',   # ONE merge_states call over 0..9 states, every state read afterwards (SC11)
    'harness.agg.heapobs',     # array-valued state over buffer cells: returned values, caller writes (C11T)
]))
