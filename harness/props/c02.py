"""C02 — pipeline aggregation and slicing equal a brute-force group-by.

Real code (entered through the public builder):
  `TreeTransform().aggregate(..).add_aggregate(..)*.add_slice(..)*.make().iterate(batches)` exhausted, then
  `.agg_result` (or `make()(batch)` for single-batch cases).
Model: lean/MlModel/Model/PipeAgg.lean (+ PipeAggInst.lean), driver `pipeagg`; theorems: MlModel/Properties/C02.lean.

Case format (JSON):
  {"aggs":   [{"kind": <AGGS key>, "out": [names], "in": [cols] | null (SELF), "kw": bool, "noslice": bool}],
   "slicers":[{"name":[..], "keys":[..], "replace": null (filter) | int | {"v": int|float|str|bool|null (None)},
               "kind": "default"|"within"|"fn"|"mask",
               "within": [[..],..], "fn": <SLICE_FNS key>, "layout": [template..], "mwithin": [..]|null,
               "twice": bool, "bare": bool}],
   "batches":[{col: value}],  value = scalar | nested lists | {"x": [...], ..} (a dict-valued column);
                               a scalar is an int, a float, a str, a bool or null (None)
   "np": [cols given to the pipeline as numpy arrays (dict-valued columns: every leaf); the dtype is numpy's own choice
          for the content (int64 / float64 / bool / <U..), object when the column holds a None or mixes str and numbers],
   "call": bool (one batch through `make()(batch)`),  "malform": tag?,
   "carry": {"how": "iterate" | "fold" | "from_state", "cuts": [i, ..]}?   (round 10) the stream is consumed in several
            steps that hand the aggregation state - with its per-slice entries - back to the code:
            iterate:    `it = r.iterate(part0)`, then `it = r.iterate(part_i, state=it.agg_state)`, `.agg_result` of the last
            fold:       `st = r.create_state(); st = r.update_state(st, b) for every batch; r.get_result(st)`
            from_state: the batches as a SequenceDataSource; `next` x cuts[0], `it.state`, a fresh iterator `.from_state(..)`,
                        (`next` x (cuts[1] - cuts[0]), `.state`, `.from_state` again), drained, `.agg_result`
            model: Model/PipeAggCarry.lean / ResumeSliced.lean (driver `resumesliced`); theorems C02_carried_state & co}
A mask template is "t" | "f" | "m<i>" (nested `== key` on feature column i, Python lists of bools) |
"np<i>" (the same as a 1-D numpy bool array) | {"dict": [[key, template], ..]}.
"""
import collections
import math
import warnings

import numpy as np

from harness.core import canon, err_kind, deep_close, jdump

PID = 'C02'
TITLE = 'Pipeline aggregation and slicing equal a brute-force group-by'
LEAN_MODULES = ['MlModel.Properties.C02', 'MlModel.Witness.C02']
TRUSTED = [
    'tree key routing is not modelled here (C18/C08): batches are one-level dicts, input/feature/output keys are plain '
    'strings (SELF is covered as the input key only; SELF as output key with slicers is a KeyError in get_result, noted)',
    'the aggregate is a parameter of the theorems (abstract lawful Mergeable, C01 interface); in the tie every real aggregate '
    '(rolling_stats.MeanAndVariance / Mean / Counter, two user MergeableMetrics, three plain AggregateFns) is a view of one '
    'lawful additive instance (Stat, proved lawful: C02_statM_lawful)',
    'modelled, not verified: numpy boolean indexing / np.where / np.asarray (list semantics on rectangular data; ragged data '
    'under a numpy mask = ValueError), zip(strict), dict insertion order, hashing of slice values (ints in the sample)',
    'numpy broadcasting of length-1 masks/columns against longer operands is outside the model (never generated)',
    'numpy dtype handling is modelled, not verified: dtype inference of np.asarray, promotion of np.where(mask, column, value) (numeric promotion '
    'is value-preserving and not represented; promotion to a string dtype converts non-strings; str column with int/float value raises), observed on numpy 2.x; '
    'the oracle replaces at the Python level (plain lists, no numpy); typed columns are observed through bag aggregates that count every scalar up to Python ==',
]
ASSUMPTIONS = ['user slice functions / mask functions are pure (the runner calls them once per aggregate)',
               'feature values are ints; aggregate inputs are ints in nested lists / numpy arrays / one-level dicts for the numeric '
               'aggregates, and columns of ints / floats / bools / strings / mixed-with-None objects (list or ndarray, 1-D or 2-D, or '
               'leaves of a dict) for the typed bag aggregates; replacement values are ints, short decimal floats, strings, bools, None',
               'an object ndarray always holds a None and a list never mixes strings and numbers without a None (numpy would infer '
               'another dtype than the model does); NaN / inf replacements are not generated']
RULE = ('corpus (test-suite scenarios, finding witnesses), then a systematic sweep slicer kind x aggregate kind x batch pattern '
        '(0..3 batches, slices first seen late), then random pipelines with 1-3 stacked aggregates, 0-3 slicers of the five kinds '
        '(default, cross, within_values, fan-out slice_fn, slice_mask_fn with filter/replace, one mask for all inputs / one per input, '
        'list / numpy / dict masks), streams of 0-6 batches of 0-4 rows, ~10% malformed (missing keys, misaligned features, duplicate '
        'names, arity mismatches, unhashable features); a typed world: the dtype-pair matrix (int / float / bool / str / object / 2-D / dict-leaf '
        'columns x list | ndarray x row slicer | numpy mask | list mask x int | float | str | bool | None replacement value, every combination '
        'REQUIRED in every run) and random typed pipelines, observed through typed bag aggregates; carried-in states (round 10): every systematic pipeline '
        'with >= 2 batches x {iterate(rest, state=prev.agg_state), ChainedRunner.update_state fold, iterator.state / from_state mid-stream} x the hand-over '
        'after every batch (every fifth with a second hand-over), then 500 random pipelines under random cuts incl. empty parts, same brute-force oracle over '
        'the whole stream; 35 carry arms REQUIRED (each way x each slicer kind, handed-over state holds slice entries, slice only before / first seen after / '
        'on both sides of the hand-over); non-trivial = at least one slicer and at least two distinct slice keys '
        'reported or an error kind predicted; distinct = distinct canonical case JSON')


# ------------------------------------------------------------------------------------------ user callables

def _leaves(x):
  if isinstance(x, np.ndarray):
    x = x.tolist()
  if isinstance(x, (list, tuple)):
    out = []
    for e in x:
      out += _leaves(e)
    return out
  if isinstance(x, dict) or x is None:
    return []
  return [x]


FILTER = object()      # "no replacement value": filter semantics


def repl_of(sl):
  """the slicer's replace_mask_false_with (FILTER when absent); typed values travel as {"v": value}"""
  r = sl.get('replace')
  if r is None:
    return FILTER
  return r['v'] if isinstance(r, dict) else r


def _leaves_all(x):
  """every scalar under an array-like, None included (dicts contribute nothing)"""
  if isinstance(x, np.ndarray):
    x = x.tolist()
  if isinstance(x, (list, tuple)):
    out = []
    for e in x:
      out += _leaves_all(e)
    return out
  if isinstance(x, dict):
    return []
  return [x]


def bag_key(x):
  """canonical name of a scalar up to Python == (True == 1 == 1.0); mirrored by the driver's scalarJson"""
  import fractions
  if x is None:
    return 'none'
  if isinstance(x, (str, np.str_)):
    return 's:' + str(x)
  if isinstance(x, (float, np.floating)) and math.isnan(x):
    return 'nan'
  if isinstance(x, (bool, np.bool_)):
    x = int(x)
  if isinstance(x, np.generic):
    x = x.item()
  f = fractions.Fraction(x)
  return f'n:{f.numerator}/{f.denominator}'


def kind_of(x):
  if x is None:
    return 'none'
  if isinstance(x, (bool, np.bool_)):
    return 'bool'
  if isinstance(x, (str, np.str_)):
    return 'str'
  if isinstance(x, (float, np.floating)):
    return 'float'
  return 'int'


def col_kind(v):
  """kind of a column by its scalars: int | float | bool | str | obj (None inside, or str mixed with numbers) | empty"""
  ks = {kind_of(x) for x in _leaves_all(v)}
  if not ks:
    return 'empty'
  if 'none' in ks or ('str' in ks and len(ks) > 1):
    return 'obj'
  if ks == {'str'}:
    return 'str'
  if 'float' in ks:
    return 'float'
  if 'int' in ks:
    return 'int'
  return 'bool'


SLICE_FNS = {      # mirrored by Driver/PipeAgg.lean `sliceFn`
    'parity': lambda x: (int(x) % 2,),
    'self_and_neg': lambda x: (int(x), -int(x)),
    'small': lambda x: () if int(x) > 2 else (int(x),),
    'both': lambda x, y: (int(x), int(y)),
    'pair': lambda x, y: ((int(x), int(y)),),
    'sum': lambda x, y: (int(x) + int(y),),
    'twice_small': lambda x: (int(x), int(x)) if int(x) <= 1 else (),      # the same value twice, or nothing
    'repeat': lambda x, y: (int(x),) * max(int(y), 0),                      # x emitted y times
    'bad_arity': lambda x: ((int(x), int(x)),),
}
FN_ARITY = {'twice_small': (1, 1), 'repeat': (2, 1), 'parity': (1, 1), 'self_and_neg': (1, 1), 'small': (1, 1), 'both': (2, 1), 'pair': (2, 2), 'sum': (2, 1),
            'bad_arity': (1, 2)}      # (number of features, length of a slice value)


def _get_mask(x, key):
  if isinstance(x, list):
    return [_get_mask(e, key) for e in x]
  return x == key


def build_mask(tpl, key, cols):
  if tpl == 't':
    return True
  if tpl == 'f':
    return False
  if isinstance(tpl, dict):
    return {k: build_mask(t, key, cols) for k, t in tpl['dict']}
  if tpl.startswith('np'):
    return np.asarray(cols[int(tpl[2:])]) == key
  return _get_mask(cols[int(tpl[1:])], key)


def make_mask_fn(sl):
  layout, within, twice, bare = sl['layout'], sl.get('mwithin'), sl.get('twice'), sl.get('bare')

  def fn(*cols):
    cols = [c.tolist() if isinstance(c, np.ndarray) else c for c in cols]
    keys = list(dict.fromkeys(k for c in cols for k in _leaves(c)))
    for k in keys:
      if within is not None and k not in within:
        continue
      masks = tuple(build_mask(t, k, cols) for t in layout)
      if bare and len(masks) == 1:
        masks = masks[0]
      for _ in range(2 if twice else 1):
        yield k, masks
  return fn


def _flat_sum_count(x):
  ls = _leaves(x)
  return sum(ls), len(ls)


class _Dot:
  """user MergeableMetric: dot product of two aligned scalar columns, number of rows"""

  def __init__(self):
    self.dot, self.rows = 0, 0

  def add(self, x, y):
    if len(x) != len(y):
      raise ValueError('misaligned')
    self.dot += sum(int(a) * int(b) for a, b in zip(x, y))
    self.rows += len(x)

  def merge(self, other):
    self.dot += other.dot
    self.rows += other.rows

  def result(self):
    return self.dot, self.rows


class _PR:
  """user MergeableMetric in the style of transform_test.MockPrecisionRecall: mean of the leaves of each input"""

  def __init__(self):
    self.s = [0, 0]
    self.n = [0, 0]

  def add(self, a=None, b=None):
    if len(a) != len(b):
      raise ValueError('misaligned')
    for i, x in enumerate((a, b)):
      s, n = _flat_sum_count(x)
      self.s[i] += s
      self.n[i] += n

  def merge(self, other):
    for i in range(2):
      self.s[i] += other.s[i]
      self.n[i] += other.n[i]

  def result(self):
    return tuple(self.s[i] / self.n[i] if self.n[i] else float('nan') for i in range(2))


def _agg_classes():
  from ml_metrics._src.aggregates import base

  class SumCount(base.AggregateFn):
    """plain AggregateFn (no merge): sum and number of the scalars under the input"""

    def create_state(self):
      return [0, 0]

    def update_state(self, state, x):
      s, n = _flat_sum_count(x)
      return [state[0] + s, state[1] + n]

    def get_result(self, state):
      return state[0], state[1]

  class Total(base.AggregateFn):
    """plain AggregateFn on 2-D rows: [sum of scalars, rows, scalars] as ONE output"""

    def create_state(self):
      return [0, 0, 0]

    def update_state(self, state, x):
      s, n = _flat_sum_count(x)
      return [state[0] + s, state[1] + len(x), state[2] + n]

    def get_result(self, state):
      return list(state)

  class DictAvg(base.AggregateFn):
    """plain AggregateFn reading one field of a dict input (transform_test.MockAverageFn(input_key=..))"""

    def __init__(self, field):
      self.field = field

    def create_state(self):
      return [0, 0]

    def update_state(self, state, d):
      x = d[self.field]
      if not isinstance(x, (list, tuple, np.ndarray)):
        raise TypeError('not an array')
      s, n = _flat_sum_count(x)
      return [state[0] + s, state[1] + n]

    def get_result(self, state):
      return state[0], state[1]

  return SumCount, Total, DictAvg


def _bag_classes():
  from ml_metrics._src.aggregates import base

  class TypedBag(base.AggregateFn):
    """plain AggregateFn: how often every scalar (of whatever type, None included) occurs under the input; '#' = their number"""

    def create_state(self):
      return {'#': 0}

    def update_state(self, state, x):
      if not isinstance(x, (list, tuple, np.ndarray)):
        raise TypeError('not an array')
      state = dict(state)
      for v in _leaves_all(x):
        k = bag_key(v)
        state[k] = state.get(k, 0) + 1
        state['#'] += 1
      return state

    def get_result(self, state):
      return dict(state)

  class DictBag(TypedBag):
    """the same over one field of a dict input"""

    def __init__(self, field):
      self.field = field

    def update_state(self, state, d):
      return super().update_state(state, d[self.field])

  return TypedBag, DictBag


# kind -> (view of the model's Stat, number of inputs, number of outputs, decoder)
AGGS = {
    'meanvar': ('meanvar', 1, 1), 'mean': ('mean', 1, 1), 'counter': ('counter', 1, 1),
    'sumcount': ('sumcount', 1, 2), 'total': ('total', 1, 1), 'dot': ('dot', 2, 2), 'pr': ('pr', 2, 2),
    'dictavg': ('sumcount', 1, 2),
    'bag': ('bag', 1, 1), 'dictbag': ('bag', 1, 1),
}


def make_agg(a):
  from ml_metrics._src.aggregates import base, rolling_stats
  SumCount, Total, DictAvg = _agg_classes()
  k = a['kind']
  if k == 'meanvar':
    return rolling_stats.MeanAndVariance()
  if k == 'mean':
    return rolling_stats.Mean()
  if k == 'counter':
    return rolling_stats.Counter()
  if k == 'sumcount':
    return SumCount()
  if k == 'total':
    return Total()
  if k == 'dot':
    return base.as_agg_fn(_Dot)
  if k == 'pr':
    return base.as_agg_fn(_PR)
  if k == 'dictavg':
    return DictAvg(a['field'])
  if k == 'bag':
    return _bag_classes()[0]()
  if k == 'dictbag':
    return _bag_classes()[1](a['field'])
  raise ValueError(k)


def one_shot(a, cols):
  """the aggregate's own one-shot function on a whole group (used by the oracle only)"""
  from ml_metrics._src.chainables import tree_fns
  fn = make_agg(a)
  if hasattr(fn, 'as_agg_fn'):
    fn = fn.as_agg_fn()
  return fn(*cols)     # AggregateFn.__call__: get_result(update_state(create_state(), *inputs))


# ------------------------------------------------------------------------------------------ running the real code

def to_py(v, as_np):
  if isinstance(v, dict):
    return {k: to_py(x, as_np) for k, x in v.items()}
  if as_np and isinstance(v, list):
    k = col_kind(v)
    if k in ('int', 'empty'):
      return np.array(v, dtype=np.int64)
    if k == 'obj':                     # a None inside, or strings mixed with numbers: numpy needs dtype=object
      out = np.empty(len(v), dtype=object) if not (v and isinstance(v[0], list)) else None
      if out is None:
        return np.array(v, dtype=object)
      for i, e in enumerate(v):
        out[i] = e
      return out
    return np.array(v)                 # float64 / bool / <U..
  return v


# String view (case field `strv` = feature columns shown to the REAL code as strings): value v of such a column is
# given to the pipeline as STRV[v], restricted values likewise (`scalar`: a one-value restriction is passed bare, the
# way add_slice(dict(feature='en-US')) is written), and the slice values coming back are decoded to v again.  The
# model and the textbook oracle keep the integers: slice features are compared by equality / membership only, and
# STRV is injective.  Its entries are substrings of one another on purpose (seeded change C02-m7).
STRV = ['', 'en', 'US', 'en-US', 'n-U', '-', 'zz', 'q']


def _strv(case, key, v):
  return STRV[v] if key in case.get('strv', ()) and isinstance(v, int) and 0 <= v < len(STRV) else v


def build_batches(case):
  nps = set(case.get('np', ()))
  sv = set(case.get('strv', ()))
  return [{k: ([_strv(case, k, x) for x in v] if k in sv else to_py(v, k in nps)) for k, v in b.items()} for b in case['batches']]


def build_transform(case, slicers=None, base=None):
  from ml_metrics._src.chainables import transform
  t = transform.TreeTransform() if base is None else base
  for i, a in enumerate(case['aggs']):
    out = a['out'][0] if len(a['out']) == 1 and a.get('bare_out', True) else tuple(a['out'])
    kw = dict(fn=make_agg(a), output_keys=out, disable_slicing=bool(a.get('noslice')))
    if a['in'] is not None:
      if a.get('kw'):
        kw['input_keys'] = dict(zip(('a', 'b') if a['kind'] == 'pr' else ('x', 'y'), a['in']))
      else:
        kw['input_keys'] = a['in'][0] if len(a['in']) == 1 else tuple(a['in'])
    t = t.aggregate(**kw) if i == 0 else t.add_aggregate(**kw)
  for sl in (case['slicers'] if slicers is None else slicers):
    keys = sl['keys'][0] if len(sl['keys']) == 1 else tuple(sl['keys'])
    name = sl['name'][0] if len(sl['name']) == 1 else tuple(sl['name'])
    kw = {}
    if repl_of(sl) is not FILTER:
      kw['replace_mask_false_with'] = repl_of(sl)
    if sl['kind'] == 'default':
      t = t.add_slice(keys, **kw) if sl['name'] == sl['keys'] else t.add_slice(keys, slice_name=name, **kw)
    elif sl['kind'] == 'within':
      ws = [tuple(_strv(case, k, x) for x in w) for k, w in zip(sl['keys'], sl['within'])]
      if sl.get('scalar'):
        ws = [w[0] if len(w) == 1 else w for w in ws]
      t = t.add_slice(dict(zip(sl['keys'], ws)), **kw)
    elif sl['kind'] == 'fn':
      t = t.add_slice(keys, slice_name=name, slice_fn=SLICE_FNS[sl['fn']], **kw)
    elif sl['kind'] == 'mask':
      t = t.add_slice(keys, slice_name=name, slice_mask_fn=make_mask_fn(sl), **kw)
    else:
      raise ValueError(sl['kind'])
  return t


def canon_value(v):
  from ml_metrics._src.aggregates import rolling_stats
  if isinstance(v, tuple):      # several outputs under one key: agg_result rebuilds the tuple as a list
    return {'nums': [canon(float(x)) for x in v]}
  if isinstance(v, rolling_stats.MeanAndVariance):
    return {'nums': [canon(float(np.asarray(v.count))), canon(float(np.asarray(v.mean))), canon(float(np.asarray(v.var)))]}
  if isinstance(v, dict) and '#' in v:      # a typed bag
    return {'bag': sorted([str(k), int(c)] for k, c in v.items())}
  if isinstance(v, dict):       # a Counter result comes back as a plain dict (rebuilt leaf by leaf by agg_result)
    return {'hist': sorted([int(k), int(c)] for k, c in v.items())}
  if isinstance(v, (list, np.ndarray)):
    return {'nums': [canon(float(x)) for x in np.asarray(v).tolist()]}
  return {'nums': [canon(float(v))]}


def canon_result(res):
  from ml_metrics._src.chainables import transform
  out = []
  if not isinstance(res, dict):
    return [{'metric': '<SELF>', 'slice': None, 'value': canon_value(res)}]
  for k, v in res.items():
    if isinstance(k, transform.MetricKey):
      sl = {'features': [str(f) for f in k.slice.features],
            'values': [STRV.index(x) if isinstance(x, str) and x in STRV else int(x) for x in k.slice.values]}
      out.append({'metric': str(k.metrics), 'slice': sl, 'value': canon_value(v)})
    else:
      out.append({'metric': str(k), 'slice': None, 'value': canon_value(v)})
  out.sort(key=lambda e: jdump([e['metric'], e['slice']]))
  return out


def run_pipeline(case, slicers=None):
  from absl import logging as alog
  alog.set_verbosity(alog.FATAL)
  with warnings.catch_warnings():
    warnings.simplefilter('ignore')
    try:
      t = build_transform(case, slicers)
      batches = build_batches(case)
      if case.get('carry'):
        res = run_carried(case, t, batches, slicers)
      elif case.get('call'):
        res = t.make()(batches[0])
      else:
        it = t.make().iterate(batches)
        for _ in it:
          pass
        res = it.agg_result
      return dict(err=None, result=canon_result(res))
    except Exception as e:  # pylint: disable=broad-except
      return dict(err=err_kind(e), result=[])


def carry_parts(case):
  n = len(case['batches'])
  cuts = [0] + sorted(min(max(int(c), 0), n) for c in case['carry']['cuts']) + [n]
  return [(a, b) for a, b in zip(cuts, cuts[1:])]


def run_carried(case, t, batches, slicers=None):
  """the stream consumed in several steps, the aggregation state handed back to the code in between (public API only)"""
  how = case['carry']['how']
  spans = carry_parts(case)
  if how == 'iterate':
    r = t.make()
    it = None
    for a, b in spans:
      it = r.iterate(batches[a:b]) if it is None else r.iterate(batches[a:b], state=it.agg_state)
      for _ in it:
        pass
    return it.agg_result
  if how == 'fold':
    r = t.make()
    state = r.create_state()
    for b in batches:
      state = r.update_state(state, b)
    return r.get_result(state)
  if how == 'from_state':
    from ml_metrics._src.chainables import io, transform
    mk = lambda: build_transform(case, slicers, base=transform.TreeTransform().data_source(io.SequenceDataSource(batches)))
    it = mk().make().iterate()
    for a, b in spans[:-1]:
      for _ in range(b - a):
        next(it)
      it = mk().make().iterate().from_state(it.state)
    for _ in it:
      pass
    return it.agg_result
  raise ValueError(how)


def run_impl(case):
  obs = run_pipeline(case)
  # metamorphic companions for the oracle (slicer independence): no slicer at all, each slicer alone
  if obs['err'] is None and case['slicers'] and not case.get('malform'):
    obs['no_slicers'] = run_pipeline(case, [])
    obs['alone'] = [run_pipeline(case, [sl]) for sl in case['slicers']]
  return obs


# ------------------------------------------------------------------------------------------ model side

def model_requests(case):
  aggs = []
  for a in case['aggs']:
    view = AGGS[a['kind']][0]
    dec = {'field': a['field']} if a['kind'] in ('dictavg', 'dictbag') else 'cols'
    aggs.append(dict(out=a['out'], dec=dec, view=view, noslice=bool(a.get('noslice')), **{'in': a['in']}))
  slicers = []
  for sl in case['slicers']:
    r = repl_of(sl)
    s = dict(name=sl['name'], keys=sl['keys'], kind=sl['kind'], replace=None if r is FILTER else {'none': True} if r is None else r)
    for k in ('within', 'fn', 'layout', 'mwithin', 'twice'):
      if k in sl:
        s[k] = sl[k]
    slicers.append(s)
  batches = case['batches'][:1] if case.get('call') else case['batches']
  nps = set(case.get('np', ()))
  batches = [{k: _wire(v, k in nps) for k, v in b.items()} for b in batches]
  if case.get('carry'):
    how = case['carry']['how']
    spans = carry_parts(case)
    if how == 'from_state':
      ops = []
      for a, b in spans[:-1]:
        ops += [['take', b - a], ['ckpt'], ['restore']]
      return [dict(model='resumesliced', mode='history', stages=[dict(drop=None, aggs=aggs, slicers=slicers)],
                   batches=batches, ops=ops, final=10 ** 6)]
    return [dict(model='resumesliced', mode='carry' if how == 'iterate' else 'fold', aggs=aggs, slicers=slicers,
                 parts=[batches[a:b] for a, b in spans])]
  return [dict(model='pipeagg', aggs=aggs, slicers=slicers, batches=batches)]


def _wire(v, as_np):
  """JSON encoding of a column for the driver: a numpy array (at every depth) is {"np": [...]}"""
  if isinstance(v, dict):
    return {k: _wire(x, as_np) for k, x in v.items()}
  if as_np and isinstance(v, list):
    return {'np': [_wire(e, True) for e in v]}
  return v


def _model_value(v):
  if 'tup' in v:
    return {'nums': [x for e in v['tup'] for x in _model_value(e)['nums']]}
  if 'hist' in v:
    return {'hist': sorted([int(a), int(b)] for a, b in v['hist'])}
  if 'bag' in v:
    import fractions

    def key(k):
      if k == 'none':
        return 'none'
      if 's' in k:
        return 's:' + k['s']
      f = fractions.Fraction(k['n'][0], k['n'][1])
      return f'n:{f.numerator}/{f.denominator}'
    acc = {}
    for k, c in v['bag']:            # canonical scalars are distinct; merged defensively
      acc[key(k)] = acc.get(key(k), 0) + int(c)
    acc['#'] = sum(acc.values())
    return {'bag': sorted([k, c] for k, c in acc.items())}
  return {'nums': [(n / d if d else 'nan') for n, d in v['nums']]}


def model_obs(case, resps):
  r = resps[0]
  res = [{'metric': e['metric'], 'slice': e['slice'], 'value': _model_value(e['value'])} for e in r.get('result', [])]
  res.sort(key=lambda e: jdump([e['metric'], e['slice']]))
  return dict(err=r['err'], result=res)


def compare(impl, model):
  if impl['err'] != model['err']:
    return f"error kinds differ: impl {impl['err']} model {model['err']}"
  if [(e['metric'], e['slice']) for e in impl['result']] != [(e['metric'], e['slice']) for e in model['result']]:
    return 'reported keys differ'
  for a, b in zip(impl['result'], model['result']):
    if not deep_close(a['value'], b['value']):
      return f"value of {a['metric']} {a['slice']} differs: impl {a['value']} model {b['value']}"
  return None


# ------------------------------------------------------------------------------------------ oracle (brute-force group-by)

def nrows(b):
  for v in b.values():
    while isinstance(v, dict):
      v = next(iter(v.values()))
    return len(v)
  return 0


def _is_rect(x):
  try:
    with warnings.catch_warnings():
      warnings.simplefilter('error')
      np.asarray(x)
    return True
  except Exception:  # pylint: disable=broad-except
    return False


def well_formed(case):
  """the domain of the property: a pipeline the builder accepts and a stream the aggregates can read"""
  if case.get('malform'):
    return False
  return True


def row_of(value, i):
  """row i of one input column (a dict-valued column: the dict of row i of every leaf)"""
  if isinstance(value, dict):
    return {k: row_of(v, i) for k, v in value.items()}
  return value[i]


def col_of(rows, like):
  if isinstance(like, dict):
    return {k: col_of([r[k] for r in rows], like[k]) for k in like}
  return list(rows)


def fill(x, r):
  if isinstance(x, list):
    return [fill(e, r) for e in x]
  if isinstance(x, dict):
    return {k: fill(v, r) for k, v in x.items()}
  return r


def agg_inputs(a, b):
  return [b] if a['in'] is None else [b[k] for k in a['in']]


def o_mask(item, mask, repl, rowlevel_np):
  """masking as documented (tree.apply_mask docstring / add_slice docstring), written independently"""
  if mask is True:
    return item
  if isinstance(item, dict) and not isinstance(mask, dict):
    return {k: o_mask(v, mask, repl, rowlevel_np) for k, v in item.items()}
  if isinstance(item, dict):
    out = {}
    for k, m in mask.items():
      v = item.get(k)
      if m is True:
        out[k] = v
      elif m is False:
        if repl is not FILTER:
          out[k] = repl
      else:
        out[k] = o_mask(v, m, repl, rowlevel_np)
    return out
  assert len(item) == len(mask), 'mask does not fit'
  out = []
  for e, m in zip(item, mask):
    if m is True:
      out.append(e)
    elif m is False:
      if repl is not FILTER:
        out.append(fill(e, repl) if rowlevel_np else repl)
    else:
      out.append(o_mask(e, m, repl, rowlevel_np))
  return out


def _plain(x):
  if isinstance(x, np.ndarray):
    return x.tolist()
  if isinstance(x, np.generic):
    return x.item()
  if isinstance(x, dict):
    return {k: _plain(v) for k, v in x.items()}
  if isinstance(x, (list, tuple)):
    return [_plain(e) for e in x]
  return x


def expected(case):
  """{(metric, slice-json): canonical value} by brute force over the whole stream"""
  batches = case['batches'][:1] if case.get('call') else case['batches']
  exp = {}

  def put(a, slice_json, cols):
    with warnings.catch_warnings():
      warnings.simplefilter('ignore')
      res = one_shot(a, cols)
    outs = res if isinstance(res, tuple) else (res,)
    if len(a['out']) == 1:
      exp[(a['out'][0], jdump(slice_json))] = canon_value(res)
    else:
      assert len(outs) == len(a['out'])
      for name, o in zip(a['out'], outs):
        exp[(name, jdump(slice_json))] = canon_value(o)

  for a in case['aggs']:
    like = [agg_inputs(a, b) for b in batches[:1]]
    n_in = 1 if a['in'] is None else len(a['in'])
    # --- all selected rows of the stream
    allrows = []          # (batch index, row index, [entry per input])
    for bi, b in enumerate(batches):
      ins = agg_inputs(a, b)
      for i in range(nrows(b)):
        allrows.append((bi, i, [row_of(v, i) for v in ins]))

    def cols_of(rows):
      if a['kind'] in ('dictavg', 'dictbag'):
        fields = None
        for b in batches:
          fields = agg_inputs(a, b)[0]
          break
        if fields is None:
          return [{a['field']: []}]
        return [col_of([r[0] for r in rows], fields)]
      return [[r[c] for r in rows] for c in range(n_in)]

    put(a, None, cols_of([r for _, _, r in allrows]))
    if a.get('noslice'):
      continue
    for sl in case['slicers']:
      repl = repl_of(sl)
      if sl['kind'] != 'mask':
        # ----- row-level slices: membership row by row
        members = collections.OrderedDict()      # slice value -> set of (bi, i)
        for bi, b in enumerate(batches):
          for i in range(nrows(b)):
            feats = [b[k][i] for k in sl['keys']]
            if sl['kind'] == 'default':
              vals = [tuple(feats)]
            elif sl['kind'] == 'within':
              vals = [tuple(feats)] if all(f in w for f, w in zip(feats, sl['within'])) else []
            else:
              vals = [v if isinstance(v, tuple) else (v,) for v in SLICE_FNS[sl['fn']](*feats)]
            for v in vals:
              members.setdefault(v, set()).add((bi, i))
        for v, mem in members.items():
          sj = {'features': sl['name'], 'values': list(v)}
          if repl is FILTER:
            rows = [r for bi, i, r in allrows if (bi, i) in mem]
          else:        # replace semantics: every row of the stream, non-members replaced
            rows = [r if (bi, i) in mem else [fill(e, repl) for e in r] for bi, i, r in allrows]
          put(a, sj, cols_of(rows))
      else:
        # ----- intra-example masks: per batch, what the user's mask function says
        fn = make_mask_fn(sl)
        acc = collections.OrderedDict()
        for b in batches:
          cols = [b[k] for k in sl['keys'] if k in b]
          for key, masks in fn(*cols):
            key = key if isinstance(key, tuple) else (key,)
            masks = _plain(masks)
            rowlevel = [isinstance(build_mask(t, 0, cols), np.ndarray) for t in sl['layout']]
            masks = masks if isinstance(masks, list) and not sl.get('bare') else [masks]
            if sl.get('bare'):
              rowlevel = rowlevel[:1]
            ins = agg_inputs(a, b)
            if len(masks) == 0:
              masked = ins
            elif len(masks) == 1:
              masked = [o_mask(x, masks[0], repl, rowlevel[0]) for x in ins]
            else:
              assert len(masks) == len(ins), 'one mask per input'
              masked = [o_mask(x, m, repl, rl) for x, m, rl in zip(ins, masks, rowlevel)]
            acc.setdefault(key, []).append(masked)
        for key, parts in acc.items():
          sj = {'features': sl['name'], 'values': list(key)}
          cols = []
          for c in range(n_in):
            if isinstance(parts[0][c], dict):
              cols.append({k: [e for p in parts for e in p[c][k]] for k in parts[0][c]
                           if all(isinstance(p[c].get(k), list) for p in parts)})
            else:
              cols.append([e for p in parts for e in p[c]])
          put(a, sj, cols)
  return exp


def oracle(case, obs):
  """The property itself on the real output (independent of the model)."""
  if not well_formed(case):
    return None
  if obs['err'] is not None:
    tag = ' [str-promote]' if any(_str_promote(case, a, sl) for a in case['aggs'] for sl in case['slicers']) else ''
    return f"well-formed pipeline raised {obs['err']}{tag}"
  try:
    exp = expected(case)
  except AssertionError as e:
    return f'oracle could not evaluate the spec: {e}'
  except Exception:  # pylint: disable=broad-except
    return None      # the aggregate's own one-shot function rejects a group: outside the property's domain
  got = {(e['metric'], jdump(e['slice'])): e['value'] for e in obs['result']}
  invented = sorted(set(got) - set(exp))
  dropped = sorted(set(exp) - set(got))
  if invented:
    return f'invented result keys {invented[:3]}'
  if dropped:
    return f'dropped result keys {dropped[:3]}'
  fails = []
  for k in sorted(exp):
    if not deep_close(got[k], exp[k]):
      kind = 'unsliced result' if k[1] == 'null' else 'slice'
      tag = ''
      if k[1] != 'null' and _str_promote_key(case, k[0], k[1]):
        tag = ' [str-promote]'
      elif k[1] != 'null' and _replace_absent(case, k[1]):
        tag = ' [replace-absent]'
      fails.append(f'{kind} {k[0]} {k[1]}: pipeline reports {got[k]}, brute-force group-by gives {exp[k]}{tag}')
  # a deviation that is not one of the known replace-mode ones is reported first
  for f in fails:
    if not f.endswith(('[replace-absent]', '[str-promote]')):
      return f
  # slicer independence (metamorphic, on the real code)
  if 'no_slicers' in obs:
    ns = obs['no_slicers']
    if ns['err'] is not None:
      return f"the pipeline without slicers raised {ns['err']}"
    base = {(e['metric'], jdump(e['slice'])): e['value'] for e in ns['result']}
    for k, v in base.items():
      if not deep_close(got.get(k), v):
        return f'unsliced result {k[0]} changes when slicers are removed: {got.get(k)} vs {v}'
    if set(base) != {k for k in got if k[1] == 'null'}:
      return 'the set of unsliced entries depends on the slicers'
    for sl, alone in zip(case['slicers'], obs['alone']):
      if alone['err'] is not None:
        return f"the pipeline with only slicer {sl['name']} raised {alone['err']}"
      al = {(e['metric'], jdump(e['slice'])): e['value'] for e in alone['result'] if e['slice'] is not None}
      mine = {k: v for k, v in got.items() if k[1] != 'null' and jdump(sl['name']) in k[1]
              and _slice_features(k[1]) == sl['name']}
      if set(al) != set(mine):
        return f"slicer {sl['name']} reports different keys alone and together with the other slicers"
      for k in al:
        if not deep_close(al[k], mine[k]):
          return f"slicer {sl['name']} entry {k} depends on the other slicers: {mine[k]} vs alone {al[k]}"
  return fails[0] if fails else None


def _replace_absent(case, slice_json):
  """is this slice key one of a replace-mode row slicer whose value is missing from some batch?"""
  import json
  d = json.loads(slice_json)
  for sl in case['slicers']:
    if sl['name'] == d['features'] and sl.get('replace') is not None and sl['kind'] != 'mask':
      per = _slice_keys_per_batch(case, sl)
      return any(tuple(d['values']) not in ks for ks in per)
  return False


def _numpy_sees(case, sl, col):
  """does the column reach numpy together with the replacement value: a numpy mask (np.where), or an ndarray column
  (np.asarray of the element-wise result)"""
  np_mask = sl['kind'] != 'mask' or any(isinstance(t, str) and t.startswith('np') for t in sl.get('layout', []))
  return np_mask or col in case.get('np', ())


def _str_promote(case, a, sl):
  """input class of finding F-C02-replace-str-promote: numpy builds ONE array from strings and non-strings:
  (a) a replace-mode slicer whose value and an aggregate input column are a string and a non-string (either way round),
      the column is not an object column, and numpy sees both;
  (b) an object ndarray column under a LIST mask (filter or replace): np.asarray(result) re-infers the dtype from the kept
      elements (+ the replacement values) and no longer sees the None that made the column an object array"""
  if a.get('noslice') or a['in'] is None:
    return False
  r = repl_of(sl)
  list_mask = sl['kind'] == 'mask' and any(isinstance(t, str) and t.startswith('m') for t in sl.get('layout', []))
  for col in a['in']:
    for b in case['batches']:
      v = b.get(col)
      for leaf in (list(v.values()) if isinstance(v, dict) else [v]):      # a dict input: every leaf is masked
        k = col_kind(leaf)
        if k == 'obj' and list_mask and col in case.get('np', ()):
          return True
        if k in ('obj', 'empty') or r is FILTER or r is None or not _numpy_sees(case, sl, col):
          continue
        if (kind_of(r) == 'str') != (k == 'str'):
          return True
  return False


def _str_promote_key(case, metric, slice_json):
  import json
  d = json.loads(slice_json)
  return any(_str_promote(case, a, sl) for a in case['aggs'] if metric in a['out']
             for sl in case['slicers'] if sl['name'] == d['features'])


def _slice_features(sj):
  import json
  d = json.loads(sj)
  return d['features'] if d else None


def nontrivial(case, obs):
  if obs['err'] is not None:
    return True
  return bool(case['slicers']) and len({jdump(e['slice']) for e in obs['result'] if e['slice'] is not None}) >= 2


# ------------------------------------------------------------------------------------------ findings

def _slice_keys_per_batch(case, sl):
  out = []
  for b in case['batches']:
    ks = set()
    for i in range(nrows(b)):
      try:
        feats = [b[k][i] for k in sl['keys']]
        if sl['kind'] == 'default':
          ks.add(tuple(feats))
        elif sl['kind'] == 'within':
          if all(f in w for f, w in zip(feats, sl['within'])):
            ks.add(tuple(feats))
        elif sl['kind'] == 'fn':
          ks.update(v if isinstance(v, tuple) else (v,) for v in SLICE_FNS[sl['fn']](*feats))
      except Exception:  # pylint: disable=broad-except
        continue
    out.append(ks)
  return out


def has_ragged_rowslice(case):
  """a row-level (numpy) mask meets an aggregate input that numpy cannot turn into an array"""
  rowsl = [sl for sl in case['slicers'] if sl['kind'] != 'mask' or any(isinstance(t, str) and t.startswith('np') for t in sl.get('layout', []))]
  if not rowsl:
    return False
  for a in case['aggs']:
    if a.get('noslice') or a['in'] is None:
      continue
    for b in case['batches']:
      for k in a['in']:
        v = b.get(k)
        if isinstance(v, list) and not _is_rect(v):
          return True
  return False


def finding(case, what):
  """known-finding classes, by predicate over the failing case"""
  if has_ragged_rowslice(case) and 'raised ValueError' in what:
    return 'F-C02-ragged-rows'
  if what.endswith('[str-promote]'):
    return 'F-C02-replace-str-promote'
  if what.endswith('[replace-absent]'):
    return 'F-C02-replace-absent'
  return None


# ------------------------------------------------------------------------------------------ generators

def _flat(rng, n, lo, hi):
  return [rng.randrange(lo, hi) for _ in range(n)]


def gen_batch(rng, n, base, world):
  """one batch with every column of the world; feature values drift with `base` so that slices appear late"""
  b = {'a': [base + rng.randrange(0, 2) for _ in range(n)], 'b': _flat(rng, n, 0, 3)}
  if world == 'flat':
    b['x'] = _flat(rng, n, -3, 10)
    b['y'] = _flat(rng, n, -2, 5)
    b['m'] = [_flat(rng, 2, 0, 6) for _ in range(n)]
    b['d'] = {'x': _flat(rng, n, 0, 9), 'y': _flat(rng, n, 0, 4)}
  else:
    p = [_flat(rng, rng.randrange(0, 4), 0, 3) for _ in range(n)]
    q = [_flat(rng, rng.randrange(0, 4), 0, 3) for _ in range(n)]
    b['p'], b['q'] = p, q
    b['fp'] = [[rng.randrange(0, 3) + base for _ in e] for e in p]
    b['fq'] = [[rng.randrange(0, 3) + base for _ in e] for e in q]
  return b


def gen_stream(rng, world, nb=None, sizes=None):
  nb = rng.randrange(0, 7) if nb is None else nb
  sizes = sizes or [rng.choice([0, 1, 2, 2, 3, 4]) for _ in range(nb)]
  base = 0
  out = []
  for n in sizes:
    if rng.random() < 0.5:
      base += rng.randrange(0, 2)
    out.append(gen_batch(rng, n, base, world))
  return out


FLAT_AGGS = [('meanvar', ['x']), ('meanvar', ['y']), ('mean', ['y']), ('mean', ['x']), ('counter', ['x']), ('counter', ['b']),
             ('sumcount', ['x']), ('sumcount', ['m']), ('total', ['m']), ('dot', ['x', 'y']), ('dictavg', ['d']), ('dictavg', None)]
NESTED_AGGS = [('pr', ['p', 'q']), ('sumcount', ['p']), ('sumcount', ['q'])]


def mk_agg(rng, kind, ins, idx, nouts=None, noslice=False):
  view, n_in, n_out = AGGS[kind]
  if n_out == 2 and (nouts or rng.choice([1, 2])) == 2:
    out = [f'o{idx}a', f'o{idx}b']
  else:
    out = [f'o{idx}']
  a = dict(kind=kind, out=out, noslice=noslice, **{'in': ins})
  if kind == 'dictavg':
    a['field'] = 'x'
  if kind in ('pr', 'dot') and rng.random() < 0.4:
    a['kw'] = True
  return a


def row_slicer(rng, which=None):
  which = which or rng.choice(['default', 'default', 'cross', 'within', 'within2', 'fn', 'fn'])
  repl = rng.choice([None, None, None, 0, 7])
  if which == 'default':
    k = rng.choice(['a', 'b'])
    sl = dict(kind='default', keys=[k], name=[k])
  elif which == 'cross':
    sl = dict(kind='default', keys=['a', 'b'], name=['a', 'b'])
  elif which == 'within':
    k = rng.choice(['a', 'b'])
    sl = dict(kind='within', keys=[k], name=[k], within=[sorted(rng.sample(range(0, 5), rng.randrange(1, 4)))])
  elif which == 'within2':
    sl = dict(kind='within', keys=['a', 'b'], name=['a', 'b'],
              within=[sorted(rng.sample(range(0, 4), rng.randrange(1, 4))), sorted(rng.sample(range(0, 3), rng.randrange(1, 3)))])
  else:
    f = rng.choice(['parity', 'self_and_neg', 'small', 'both', 'pair', 'sum', 'twice_small', 'repeat', 'repeat'])
    nf, nv = FN_ARITY[f]
    keys = [rng.choice(['a', 'b'])] if nf == 1 else ['a', 'b']
    sl = dict(kind='fn', fn=f, keys=keys, name=[f + '_' + '_'.join(keys)] if nv == 1 else [f + '_0', f + '_1'])
  sl['replace'] = repl
  return sl


def mask_slicer(rng, world, sig, two_d=False):
  """a slice_mask_fn slicer that fits aggregates whose input columns are `sig` (None: any row-aligned inputs)"""
  repl = rng.choice([None, None, 0, 5])
  if world == 'flat':
    choices = [['np0'], ['np0'], ['m0'], []]
    if sig is not None and len(sig) == 2:
      choices += [['m0', 't'], ['t', 'np0'], ['np0', 'np0'], ['m0', 'm0'], ['np0', 'm0']]
    if sig is not None and tuple(sig) == ('d',):       # dict x dict masks for a dict-valued input
      choices += [[{'dict': [['x', 'm0'], ['y', 't']]}], [{'dict': [['x', 'm0']]}],
                  [{'dict': [['y', 'f'], ['x', 'm0']]}], [{'dict': [['z', 't'], ['x', 'm0'], ['y', 'm0']]}]] * 2
    layout = rng.choice(choices)
    key = rng.choice(['a', 'b'])
    sl = dict(kind='mask', keys=[key], name=['mk_' + key], layout=layout)
    if 't' in layout and repl is None:
      repl = rng.choice([0, 5])      # filtering only one of two aligned columns would misalign them
    if two_d and any(isinstance(t, str) and t.startswith('m') for t in layout):
      repl = None                    # a list mask replaces a whole 2-D row by one scalar (ragged)
  else:
    if tuple(sig) == ('p', 'q'):
      which = rng.choice(['p', 'q', 'pq', 'pq'])
      if which == 'p':
        sl = dict(kind='mask', keys=['fp'], name=['cls_p'], layout=['m0', 't'])
      elif which == 'q':
        sl = dict(kind='mask', keys=['fq'], name=['cls_q'], layout=['t', 'm0'])
      else:
        sl = dict(kind='mask', keys=['fp', 'fq'], name=['cls'], layout=['m0', 'm1'])
    else:
      sl = dict(kind='mask', keys=['f' + sig[0]], name=['cls_' + sig[0]], layout=rng.choice([['m0'], ['m0'], []]))
  sl['replace'] = repl
  if rng.random() < 0.3:
    sl['mwithin'] = sorted(rng.sample(range(0, 5), rng.randrange(1, 4)))
  if rng.random() < 0.1:
    sl['twice'] = True
  if len(sl['layout']) == 1 and rng.random() < 0.3:
    sl['bare'] = True
  return sl


def dedup_names(slicers):
  seen, out = set(), []
  for sl in slicers:
    if tuple(sl['name']) in seen:
      continue
    seen.add(tuple(sl['name']))
    out.append(sl)
  return out


def gen_random(rng):
  world = rng.choice(['flat', 'flat', 'flat', 'nested'])
  naggs = rng.choice([1, 1, 2, 2, 3])
  pool = FLAT_AGGS if world == 'flat' else NESTED_AGGS
  aggs = []
  for i in range(naggs):
    kind, ins = rng.choice(pool)
    aggs.append(mk_agg(rng, kind, ins, i, noslice=rng.random() < 0.15))
  sliced = [a for a in aggs if not a['noslice']]
  sigs = {tuple(a['in']) if a['in'] is not None else None for a in sliced}
  sig = sigs.copy().pop() if len(sigs) == 1 else None
  two_d = any(a['in'] is None or 'm' in a['in'] for a in sliced)
  slicers = []
  for _ in range(rng.choice([0, 1, 1, 2, 2, 3])):
    if world == 'nested':
      if sig is not None:
        slicers.append(mask_slicer(rng, world, sig))
    elif rng.random() < 0.7:
      slicers.append(row_slicer(rng))
    else:
      slicers.append(mask_slicer(rng, world, sig if sig is not None and (len(sig) == 2 or tuple(sig) == ('d',)) else None, two_d))
  slicers = dedup_names(slicers)
  case = dict(aggs=aggs, slicers=slicers, batches=gen_stream(rng, world))
  # SELF input: the whole batch is the (dict) input, every leaf is masked: all columns numpy, all row-aligned
  self_in = any(a['in'] is None for a in aggs)
  if world == 'flat':
    nps = ['d']       # dict leaves are ndarrays (a list inside a dict is descended by the tree view)
    if self_in:
      nps = ['a', 'b', 'x', 'y', 'm', 'd']
    else:
      nps += [c for c in ('a', 'b', 'x', 'y', 'm') if rng.random() < 0.4]
    case['np'] = nps
  else:
    case['np'] = []
  if len(case['batches']) >= 1 and rng.random() < 0.1:
    case['call'] = True
    case['batches'] = case['batches'][:1]
  return case


def gen_systematic(rng):
  """slicer kind x aggregate kind x batch pattern"""
  patterns = [[], [0], [3], [2, 2], [1, 0, 3], [2, 1, 2]]
  for kind, ins in FLAT_AGGS:
    for which in ['default', 'cross', 'within', 'within2', 'fn', 'mask']:
      for sizes in patterns:
        a = mk_agg(rng, kind, ins, 0)
        two_d = ins is None or 'm' in ins
        sl = (mask_slicer(rng, 'flat', ins if ins is not None and (len(ins) == 2 or ins == ['d']) else None, two_d) if which == 'mask'
              else row_slicer(rng, which))
        case = dict(aggs=[a], slicers=[sl], batches=gen_stream(rng, 'flat', sizes=sizes))
        case['np'] = ['a', 'b', 'x', 'y', 'm', 'd'] if ins is None else ['d']
        yield case
  for kind, ins in NESTED_AGGS:
    for sizes in patterns:
      for _ in range(2):
        a = mk_agg(rng, kind, ins, 0)
        case = dict(aggs=[a], slicers=[mask_slicer(rng, 'nested', ins)], batches=gen_stream(rng, 'nested', sizes=sizes), np=[])
        yield case


def gen_strview():
  """String-valued slice features through the real code (`strv`), with every way of writing a restriction; fixed cases
  (own generator state, independent of the run's seed)."""
  import random
  rng = random.Random(20260930)
  for kind, ins in [('sumcount', ['x']), ('counter', ['x']), ('mean', ['y'])]:
    for sizes in [[4], [2, 3], [1, 0, 3], [3, 1, 3]]:
      for w, scalar in [([3], True), ([3], False), ([1, 3], False), ([0], True), ([6], True), (None, False)]:
        a = mk_agg(rng, kind, ins, 0)
        sl = dict(kind='default', keys=['a'], name=['a']) if w is None else dict(kind='within', keys=['a'], name=['a'], within=[w])
        if scalar:
          sl['scalar'] = True
        batches = gen_stream(rng, 'flat', sizes=sizes)
        for b in batches:
          b['a'] = [rng.choice([0, 1, 2, 3, 3, 4]) for _ in b['a']]
        yield dict(aggs=[a], slicers=[sl], batches=batches, np=[], strv=['a'])


def gen_fanout_dups(rng):
  """fan-out slice functions with repeated and missing emissions: batches with ONE distinct slice value in which some
  rows emit it several times and others emit nothing, in particular with #emissions == #rows"""
  for _ in range(40):
    nb = rng.randrange(1, 4)
    batches = []
    for _ in range(nb):
      n = rng.randrange(2, 5)
      v = rng.randrange(0, 3)
      mode = rng.choice(['balanced', 'balanced', 'free'])
      if mode == 'balanced':       # counts in {0,1,2} summing to n, with at least one 2 and one 0
        counts = [2, 0] + [1] * (n - 2)
        for _ in range(rng.randrange(0, 2)):
          ones = [i for i, c in enumerate(counts) if c == 1]
          if len(ones) >= 2:
            counts[ones[0]], counts[ones[1]] = 2, 0
        rng.shuffle(counts)
      else:
        counts = [rng.randrange(0, 3) for _ in range(n)]
      b = gen_batch(rng, n, 0, 'flat')
      b['a'] = [v] * n if rng.random() < 0.8 else [rng.randrange(0, 3) for _ in range(n)]
      b['b'] = counts
      batches.append(b)
    kind, ins = rng.choice([('sumcount', ['x']), ('meanvar', ['x']), ('counter', ['x']), ('dot', ['x', 'y']), ('total', ['m'])])
    sl = dict(kind='fn', fn='repeat', keys=['a', 'b'], name=['rep'], replace=rng.choice([None, None, 0]))
    yield dict(aggs=[mk_agg(rng, kind, ins, 0)], slicers=[sl], batches=batches, np=['d'] + (['x'] if rng.random() < 0.5 else []))
  for _ in range(20):            # one feature: values <= 1 are emitted twice, larger ones not at all
    nb = rng.randrange(1, 4)
    batches = []
    for _ in range(nb):
      n = rng.choice([2, 2, 4])
      b = gen_batch(rng, n, 0, 'flat')
      v = rng.randrange(0, 2)
      col = [v] * (n // 2) + [rng.randrange(2, 5) for _ in range(n - n // 2)]
      rng.shuffle(col)
      b['a'] = col
      batches.append(b)
    sl = dict(kind='fn', fn='twice_small', keys=['a'], name=['ts'], replace=None)
    yield dict(aggs=[mk_agg(rng, 'sumcount', ['x'], 0)], slicers=[sl], batches=batches, np=['d'])


# ---- carried-in states (round 10): the same pipelines, the stream consumed in several steps

CARRY_HOWS = ('iterate', 'fold', 'from_state')


def add_carry(rng, case, how=None, cuts=None):
  n = len(case['batches'])
  if cuts is None:
    cuts = sorted(rng.randrange(0, n + 1) for _ in range(rng.choice([1, 1, 1, 2, 3])))
  case['carry'] = dict(how=how or rng.choice(CARRY_HOWS), cuts=list(cuts))
  case.pop('call', None)
  return case


def gen_carried(rng, n_random):
  """every systematic (slicer kind x aggregate kind) pipeline with >= 2 batches, each way of handing the state back, the
  hand-over after every batch; then random pipelines (stacked aggregates, 0-3 slicers of the five kinds) under random cuts"""
  i = 0
  for case in gen_systematic(rng):
    n = len(case['batches'])
    if n < 2:
      continue
    for cut in range(1, n):
      i += 1
      c = dict(case, batches=list(case['batches']))
      yield add_carry(rng, c, CARRY_HOWS[i % 3], [cut] if i % 5 else [cut, n])
  done = 0
  while done < n_random:
    case = gen_random(rng) if rng.random() < 0.8 else gen_typed_random(rng)
    if len(case['batches']) < 2:
      continue
    done += 1
    yield add_carry(rng, case)


def carry_features(case):
  c = case['carry']
  how = c['how']
  spans = carry_parts(case)
  f = {'carry:' + how, 'carry:parts:2' if len(spans) == 2 else 'carry:parts:3+'}
  if any(a == b for a, b in spans):
    f.add('carry:empty-part')
  cut = spans[0][1]
  if len(case['aggs']) > 1:
    f.add('carry:stacked-aggs')
  if any(a.get('noslice') for a in case['aggs']):
    f.add('carry:disable_slicing')
  for sl in case['slicers']:
    kind = ('cross' if len(sl['keys']) > 1 else 'single') if sl['kind'] == 'default' else sl['kind']
    f.add(f'carry:{how}:slicer:{kind}')
    if sl['kind'] == 'mask' or all(a.get('noslice') for a in case['aggs']):
      continue
    per = _slice_keys_per_batch(case, sl)
    before = set().union(*per[:cut]) if cut else set()
    after = set().union(*per[cut:]) if cut < len(per) else set()
    if before:
      f.add(f'carry:{how}:handover-has-slice-entries')
      if before - after:
        f.add(f'carry:{how}:slice-only-before-handover')
      if after - before:
        f.add(f'carry:{how}:slice-first-seen-after-handover')
      if before & after:
        f.add(f'carry:{how}:slice-on-both-sides')
  return f


# ---- typed world: columns and replacement values of different dtypes (int / float / bool / str / object; 1-D, 2-D, dict leaves)

T_COLS = {      # column -> (kind label, generator of one scalar, 2-D?)
    'ti': ('int', lambda rng: rng.randrange(-2, 6), False),
    'tf': ('float', lambda rng: rng.choice([0.5, 1.5, -0.5, 2.25, 3.5, 0.25]), False),
    'tb': ('bool', lambda rng: rng.random() < 0.5, False),
    'ts': ('str', lambda rng: rng.choice(['a', 'b', 'c', 'ab']), False),
    'to': ('obj', lambda rng: rng.choice([1, 2, 'a', 'b', 0.5, True, None]), False),
    'ti2': ('int2d', lambda rng: rng.randrange(0, 5), True),
    'tf2': ('float2d', lambda rng: rng.choice([0.5, 1.5, 2.25]), True),
    'tb2': ('bool2d', lambda rng: rng.random() < 0.5, True),
    'ts2': ('str2d', lambda rng: rng.choice(['a', 'b', 'c']), True),
}
# dict-valued columns (a mask / replacement value is applied to EVERY leaf): 'td' has numeric leaves, 'tds' string leaves
T_DICT = {'td.x': ('dict-int', T_COLS['ti'][1]), 'td.z': ('dict-float', T_COLS['tf'][1]), 'td.w': ('dict-bool', T_COLS['tb'][1]),
          'tds.y': ('dict-str', T_COLS['ts'][1]), 'tds.u': ('dict-str', T_COLS['ts'][1])}
T_REPLS = [('int', 0), ('int', 7), ('float', {'v': 0.5}), ('float', {'v': 2.25}), ('str', {'v': 'pad'}), ('str', {'v': 'z'}),
           ('bool', {'v': True}), ('bool', {'v': False}), ('none', {'v': None})]


def gen_typed_batch(rng, n, base):
  b = {'a': [base + rng.randrange(0, 2) for _ in range(n)], 'b': _flat(rng, n, 0, 3)}
  if n >= 2:                                # at least two slices per batch: some row is replaced in every slice
    i, j = rng.sample(range(n), 2)
    b['a'][i], b['a'][j] = base, base + 1
    b['b'][j] = (b['b'][i] + 1) % 3
  for c, (_, g, two_d) in T_COLS.items():
    b[c] = [[g(rng), g(rng)] for _ in range(n)] if two_d else [g(rng) for _ in range(n)]
  if n:
    b['to'][rng.randrange(n)] = None        # an object column: numpy infers `object` only with a None inside
  for f, (_, g) in T_DICT.items():
    b.setdefault(f.split('.')[0], {})[f.split('.')[1]] = [g(rng) for _ in range(n)]
  return b


def gen_typed_stream(rng, sizes=None):
  sizes = sizes if sizes is not None else [rng.choice([0, 1, 2, 3, 3, 4]) for _ in range(rng.randrange(1, 5))]
  base, out = 0, []
  for n in sizes:
    if rng.random() < 0.5:
      base += rng.randrange(0, 2)
    out.append(gen_typed_batch(rng, n, base))
  return out


def typed_agg(col, idx):
  if col in T_DICT:
    return dict(kind='dictbag', out=[f'o{idx}'], noslice=False, field=col.split('.')[1], **{'in': [col.split('.')[0]]})
  return dict(kind='bag', out=[f'o{idx}'], noslice=False, **{'in': [col]})


def typed_slicer(rng, path, repl, key=None):
  key = key or rng.choice(['a', 'b'])
  if path == 'row':
    which = rng.choice(['default', 'default', 'within', 'fn'])
    if which == 'default':
      sl = dict(kind='default', keys=[key], name=[key])
    elif which == 'within':
      sl = dict(kind='within', keys=[key], name=[key], within=[sorted(rng.sample(range(0, 4), rng.randrange(2, 4)))])
    else:
      f = rng.choice(['parity', 'small', 'self_and_neg'])
      sl = dict(kind='fn', fn=f, keys=[key], name=[f + '_' + key])
  else:
    sl = dict(kind='mask', keys=[key], name=['mk_' + key], layout=['np0'] if path == 'npmask' else ['m0'])
    if rng.random() < 0.2:
      sl['bare'] = True
  sl['replace'] = repl
  return sl


def typed_matrix():
  """(column, container, mask path, replacement kind) combinations every run must exercise"""
  out = []
  cols = list(T_COLS) + list(T_DICT)
  for col in cols:
    two_d = col in T_COLS and T_COLS[col][2]
    for container in (('np',) if col in T_DICT else ('list', 'np')):
      for path in ('row', 'npmask', 'listmask'):
        if path == 'listmask' and two_d and container == 'np':
          continue        # a list mask puts one scalar in place of a 2-D ndarray row: ragged, np.asarray raises
        for rk in ('int', 'float', 'str', 'bool', 'none'):
          out.append((col, container, path, rk))
  return out


def typed_label(col):
  return T_DICT[col][0] if col in T_DICT else T_COLS[col][0]


def label_of(case, a):
  """dtype label of a bag aggregate's input, read off the data (first non-empty batch)"""
  for b in case['batches']:
    v = b.get(a['in'][0])
    if isinstance(v, dict):
      v = v.get(a.get('field'))
    if v:
      k = col_kind(v)
      return ('dict-' if a['kind'] == 'dictbag' else '') + k + ('2d' if isinstance(v[0], list) else '')
  return 'empty'


def gen_typed_matrix(rng):
  for col, container, path, rk in typed_matrix():
    repl = rng.choice([r for k, r in T_REPLS if k == rk])
    sizes = rng.choice([[3], [2, 3], [3, 0, 2], [4, 2]])
    case = dict(aggs=[typed_agg(col, 0)], slicers=[typed_slicer(rng, path, repl, key='a')],
                batches=gen_typed_stream(rng, sizes), np=['td', 'tds'] + ([col] if container == 'np' and col not in T_DICT else []))
    if rng.random() < 0.3:
      case['np'].append('a')
    yield case


def gen_typed_random(rng):
  cols = list(T_COLS) + list(T_DICT)
  picked = [rng.choice(cols) for _ in range(rng.choice([1, 1, 2, 3]))]
  aggs = [typed_agg(c, i) for i, c in enumerate(picked)]
  one_d = all(not (c in T_COLS and T_COLS[c][2]) for c in picked)
  slicers = []
  for _ in range(rng.choice([1, 1, 2])):
    repl = rng.choice([None, None] + [r for _, r in T_REPLS])
    path = rng.choice(['row', 'row', 'npmask'] + (['listmask'] if one_d or repl is None else []))
    slicers.append(typed_slicer(rng, path, repl))
  nps = ['td', 'tds'] + [c for c in list(T_COLS) + ['a', 'b'] if rng.random() < 0.5]
  if any(sl['kind'] == 'mask' and sl['layout'] == ['m0'] for sl in slicers) and not one_d:
    nps = [c for c in nps if not (c in T_COLS and T_COLS[c][2])]      # 2-D columns stay lists under a list mask
  return dict(aggs=aggs, slicers=dedup_names(slicers), batches=gen_typed_stream(rng), np=nps)


def typed_features(case):
  f = set()
  for a in case['aggs']:
    if a['kind'] not in ('bag', 'dictbag'):
      continue
    col = a['in'][0] + '.' + a['field'] if a['kind'] == 'dictbag' else a['in'][0]
    container = 'np' if (a['kind'] == 'dictbag' or col in case.get('np', ())) else 'list'
    for sl in case['slicers']:
      r = repl_of(sl)
      if r is FILTER:
        continue
      path = 'row' if sl['kind'] != 'mask' else 'npmask' if sl.get('layout') == ['np0'] else 'listmask'
      f.add(f'typed:{label_of(case, a)}/{container}/{path}x{kind_of(r)}')
      if _str_promote(case, a, sl):
        f.add('typed:str-promote-class')
  return f


def gen_malformed(rng):
  case = gen_random(rng)
  while not case['batches'] or not any(nrows(b) >= 2 for b in case['batches']):
    case = gen_random(rng)
  case.pop('call', None)
  how = rng.choice(['missing_input', 'long_feature', 'short_feature', 'dup_out', 'dup_slice', 'bad_arity', 'too_many_out',
                    'unhashable', 'missing_feature', 'ragged_rowslice', 'misaligned_masks', 'list_replace_2d'])
  world = 'nested' if 'p' in case['batches'][0] else 'flat'
  bi = rng.choice([i for i, b in enumerate(case['batches']) if nrows(b) >= 2])
  b = case['batches'][bi]
  if any(a['in'] is None for a in case['aggs']):      # keep SELF out of the malformed stream (every column is an input)
    case['aggs'] = [a for a in case['aggs'] if a['in'] is not None] or [mk_agg(rng, 'sumcount', ['x'] if world == 'flat' else ['p'], 0)]
    case['np'] = ['d'] if world == 'flat' else []
  if how == 'missing_input':
    k = case['aggs'][-1]['in'][0]
    if k in ('a', 'b'):
      how = 'dup_out'
    else:
      del b[k]
  if how in ('long_feature', 'short_feature') and world == 'flat':
    if not any(sl['kind'] != 'mask' for sl in case['slicers']):
      case['slicers'] = [row_slicer(rng, 'default')]
    k = [sl for sl in case['slicers'] if sl['kind'] != 'mask'][0]['keys'][0]
    if k in case.get('np', []):
      case['np'].remove(k)
    if how == 'short_feature' and len(b[k]) < 3:
      how = 'long_feature'         # a length-1 mask would be broadcast by numpy (outside the model)
    b[k] = (b[k] + [1, 1]) if how == 'long_feature' else b[k][:-1]
  elif how in ('long_feature', 'short_feature'):
    how = 'dup_out'
  if how == 'dup_out':
    a2 = dict(case['aggs'][0])
    case['aggs'] = case['aggs'][:2] + [a2]
  if how == 'dup_slice':
    if not case['slicers']:
      case['slicers'] = [row_slicer(rng, 'default')] if world == 'flat' else [mask_slicer(rng, world, ['p'])]
    case['slicers'] = case['slicers'] + [dict(case['slicers'][0])]
  if how == 'bad_arity':
    if world == 'flat':
      case['slicers'] = case['slicers'][:2] + [dict(kind='fn', fn='bad_arity', keys=['a'], name=['bad'], replace=None)]
    else:
      how = 'dup_out'
      case['aggs'] = case['aggs'][:2] + [dict(case['aggs'][0])]
  if how == 'too_many_out':
    a = case['aggs'][0]
    a['out'] = [f'z{i}' for i in range(AGGS[a['kind']][2] + 1 + (AGGS[a['kind']][2] == 1))]
  if how == 'unhashable':
    if world == 'flat':
      case['slicers'] = case['slicers'][:2] + [dict(kind='default', keys=['m'], name=['m'], replace=None)]
      if 'm' in case.get('np', []):
        case['np'].remove('m')
    else:
      case['slicers'] = case['slicers'][:2] + [dict(kind='default', keys=['fp'], name=['fp'], replace=None)]
  if how == 'missing_feature':
    case['slicers'] = case['slicers'][:2] + [dict(kind='default', keys=['nope'], name=['nope'], replace=None)]
  if how == 'ragged_rowslice':
    if world == 'nested':
      case['slicers'] = case['slicers'][:2] + [dict(kind='default', keys=['a'], name=['a'], replace=None)]
    else:
      how = 'missing_feature'
      case['slicers'] = case['slicers'][:2] + [dict(kind='default', keys=['nope'], name=['nope'], replace=None)]
  if how == 'misaligned_masks':        # a filter mask on one of two aligned inputs
    if world == 'flat':
      case['aggs'] = [mk_agg(rng, 'dot', ['x', 'y'], 0)]
      case['slicers'] = [dict(kind='mask', keys=['a'], name=['mk_a'], layout=rng.choice([['m0', 't'], ['t', 'np0']]), replace=None)]
    else:
      case['aggs'] = [mk_agg(rng, 'sumcount', ['q'], 0)]
      case['slicers'] = [dict(kind='mask', keys=['fp'], name=['cls_p'], layout=['m0'], replace=None)]
  if how == 'list_replace_2d':         # a list mask in replace mode puts one scalar in place of a 2-D ndarray row
    if world == 'flat':
      case['aggs'] = [mk_agg(rng, 'total', ['m'], 0)]
      case['slicers'] = [dict(kind='mask', keys=['a'], name=['mk_a'], layout=['m0'], replace=0)]
      case['np'] = ['d', 'm']
    else:
      how = 'missing_feature'
      case['slicers'] = case['slicers'][:2] + [dict(kind='default', keys=['nope'], name=['nope'], replace=None)]
  case['slicers'] = case['slicers'] if how == 'dup_slice' else dedup_names(case['slicers'])
  case['malform'] = how
  return case


def features_of(case):
  f = set()
  f.add(f"aggs:{len(case['aggs'])}")
  f.add(f"slicers:{len(case['slicers'])}")
  f.add(f"batches:{min(len(case['batches']), 6)}")
  for a in case['aggs']:
    f.add('agg:' + a['kind'])
    if a.get('noslice'):
      f.add('disable_slicing')
    if a['in'] is None:
      f.add('input:SELF')
    if a.get('kw'):
      f.add('input:kwargs')
    f.add(f"outkeys:{len(a['out'])}/{AGGS[a['kind']][2]}")
  for sl in case['slicers']:
    if sl['kind'] == 'default':
      f.add('slicer:cross' if len(sl['keys']) > 1 else 'slicer:single')
    elif sl['kind'] == 'within':
      f.add('slicer:within-cross' if len(sl['keys']) > 1 else 'slicer:within')
    elif sl['kind'] == 'fn':
      f.add('slicer:fn:' + sl['fn'])
    else:
      f.add('slicer:mask:' + ('none' if not sl['layout'] else 'one' if len(sl['layout']) == 1 else 'per-input'))
      for t in sl['layout']:
        f.add('mask:' + ('dict' if isinstance(t, dict) else 'np' if t.startswith('np') else 'list' if t.startswith('m') else t))
      if sl.get('twice'):
        f.add('mask:yielded-twice')
    f.add('mode:replace' if sl.get('replace') is not None else 'mode:filter')
  f |= typed_features(case)
  if case.get('carry'):
    f |= carry_features(case)
  if case['slicers'] and len(case['batches']) >= 2:
    for sl in case['slicers']:
      if sl['kind'] != 'mask':
        per = _slice_keys_per_batch(case, sl)
        seen = set()
        for i, ks in enumerate(per):
          if i > 0 and ks - seen:
            f.add('slice-first-seen-late')
          seen |= ks
  for sl in case['slicers']:
    if sl['kind'] == 'fn' and not case.get('malform'):
      for b in case['batches']:
        try:
          ems = [[v if isinstance(v, tuple) else (v,) for v in SLICE_FNS[sl['fn']](*[b[k][i] for k in sl['keys']])]
                 for i in range(nrows(b))]
        except Exception:  # pylint: disable=broad-except
          continue
        if any(len(e) != len(set(e)) for e in ems):
          f.add('fanout:row-repeats-a-value')
        if ems and any(not e for e in ems):
          f.add('fanout:row-emits-nothing')
        distinct = {v for e in ems for v in e}
        if len(distinct) == 1:
          f.add('fanout:one-distinct-value')
          if sum(len(e) for e in ems) == len(ems) and any(not e for e in ems):
            f.add('fanout:one-value,emissions==rows,some-row-empty')
  if not case['batches']:
    f.add('empty-stream')
  if any(nrows(b) == 0 for b in case['batches']):
    f.add('empty-batch')
  if case.get('call'):
    f.add('entry:__call__')
  if case.get('malform'):
    f.add('malformed:' + case['malform'])
  return f


REQUIRED = ['aggs:1', 'aggs:2', 'aggs:3', 'slicers:0', 'slicers:1', 'slicers:2', 'slicers:3', 'batches:0', 'batches:1', 'batches:6',
            'agg:meanvar', 'agg:mean', 'agg:counter', 'agg:sumcount', 'agg:total', 'agg:dot', 'agg:pr', 'agg:dictavg',
            'disable_slicing', 'input:SELF', 'input:kwargs', 'outkeys:1/2', 'outkeys:2/2',
            'slicer:single', 'slicer:cross', 'slicer:within', 'slicer:within-cross', 'slicer:fn:parity', 'slicer:fn:self_and_neg',
            'slicer:fn:both', 'slicer:fn:pair', 'slicer:fn:repeat', 'slicer:fn:twice_small', 'fanout:row-repeats-a-value',
            'fanout:row-emits-nothing', 'fanout:one-distinct-value', 'fanout:one-value,emissions==rows,some-row-empty', 'slicer:fn:small', 'slicer:mask:one', 'slicer:mask:per-input', 'slicer:mask:none',
            'mask:np', 'mask:list', 'mask:t', 'mask:dict', 'mode:replace', 'mode:filter', 'slice-first-seen-late', 'empty-stream', 'empty-batch',
            'entry:__call__', 'malformed:missing_input', 'malformed:dup_out', 'malformed:dup_slice', 'malformed:too_many_out',
            'malformed:unhashable', 'malformed:missing_feature', 'agg:bag', 'agg:dictbag', 'typed:str-promote-class']
REQUIRED += sorted({f'typed:{typed_label(c)}/{k}/{p}x{r}' for c, k, p, r in typed_matrix()})      # the dtype-pair matrix
REQUIRED += ['carry:parts:2', 'carry:parts:3+', 'carry:empty-part', 'carry:stacked-aggs', 'carry:disable_slicing']
REQUIRED += [f'carry:{h}' for h in CARRY_HOWS]
REQUIRED += [f'carry:{h}:slicer:{k}' for h in CARRY_HOWS for k in ('single', 'cross', 'within', 'fn', 'mask')]
REQUIRED += [f'carry:{h}:{k}' for h in CARRY_HOWS for k in ('handover-has-slice-entries', 'slice-only-before-handover',
                                                            'slice-first-seen-after-handover', 'slice-on-both-sides')]


def gen_cases(ctx):
  rng = ctx.rng

  def counted(it):
    for case in it:
      for f in features_of(case):
        ctx.count('feature', f)
      yield case
  yield from counted(ctx.corpus())
  yield from counted(gen_systematic(rng))
  yield from counted(gen_fanout_dups(rng))
  yield from counted(gen_strview())
  yield from counted(gen_typed_matrix(rng))
  yield from counted(gen_carried(rng, 500 if ctx.quick else 12000))
  n = 1200 if ctx.quick else 30000
  yield from counted(gen_typed_random(rng) for _ in range(n // 3))
  yield from counted(gen_random(rng) for _ in range(n))
  yield from counted(gen_malformed(rng) for _ in range(n // 9))


def extra(ctx):
  from harness.core import InfraError
  missing = [f for f in REQUIRED if f not in ctx.hist.get('feature', {})]
  if missing:
    raise InfraError(f'generator missed promised features: {missing}')


def neighbours(case, rng):
  """cases near `case` for the failing-input search: drop / permute batches, slicers, aggregates; split batches"""
  import copy
  for _ in range(40):
    c = copy.deepcopy(case)
    r = rng.random()
    if r < 0.3 and len(c['batches']) > 1:
      c['batches'].pop(rng.randrange(len(c['batches'])))
    elif r < 0.5 and len(c['slicers']) > 1:
      c['slicers'].pop(rng.randrange(len(c['slicers'])))
    elif r < 0.6 and len(c['aggs']) > 1:
      c['aggs'].pop(rng.randrange(len(c['aggs'])))
    elif r < 0.8 and c['batches']:
      rng.shuffle(c['batches'])
    else:
      for sl in c['slicers']:
        sl['replace'] = rng.choice([None, 0, 3])
    yield c
  for _ in range(60):
    yield gen_random(rng)


def shrink(case, still_fails):
  import copy
  cur = copy.deepcopy(case)
  changed = True
  while changed:
    changed = False
    for field in ('batches', 'slicers', 'aggs'):
      i = 0
      while i < len(cur[field]) and (field != 'aggs' or len(cur['aggs']) > 1):
        c = copy.deepcopy(cur)
        c[field].pop(i)
        if still_fails(c):
          cur, changed = c, True
        else:
          i += 1
    # drop rows
    for bi, b in enumerate(cur['batches']):
      n = nrows(b)
      for i in reversed(range(n)):
        c = copy.deepcopy(cur)

        def drop(v):
          if isinstance(v, dict):
            return {k: drop(x) for k, x in v.items()}
          return v[:i] + v[i + 1:]
        c['batches'][bi] = {k: drop(v) for k, v in b.items()}
        if nrows(c['batches'][bi]) == n - 1 and still_fails(c):
          cur, changed = c, True
          b = cur['batches'][bi]
  return cur
