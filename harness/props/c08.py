"""C08 — pipeline operators route data exactly as a reference interpreter.

Real code: `ml_metrics.chainable.Pipeline` (= `TreeTransform`) `.select/.apply/.assign/.filter/.batch/.sink/.aggregate`
`...make().iterate(data, ignore_error=..)`  (chainables/transform.py, tree_fns.py, tree.py, utils/iter_utils.py).
Model: lean/MlModel/Model/Pipe.lean (`Build.build`, `Impl.run`, `Ref.chain`), Model/Iter.lean; theorems:
lean/MlModel/Properties/C08.lean.  Case format: see harness/lib_pipe.py.
"""
import copy
import json

from harness import lib_pipe as L
from harness import lib_pipegen as G
from harness.core import jdump

PID = 'C08'
TITLE = 'Pipeline operators route data exactly as a reference interpreter'
LEAN_MODULES = ['MlModel.Properties.C08', 'MlModel.Witness.C08']
TRUSTED = [
    'iterators are modelled by their event lists (results of successive next() calls), generators end at their first '
    'error (Model/Iter.lean); Lemmas/Iter.lean proves the state-machine and the event-list view agree for the combinators used',
    'tree access is the part of TreeMapView the operators use (getKey/setKey in Model/Pipe.lean: str-keyed dicts, lists, '
    'tuples, Index/name paths, SELF/SKIP/Literal); masks, numpy leaves and DataFrames are outside this model (C18/C02)',
    'user callables are arbitrary functions with private state in the theorems and a fixed named library in the '
    'correspondence (Model/PipeLib.lean mirrors harness/lib_pipe.py make_fn)',
    'heap-aware part (Model/PipeHeap.lean on the C18 heap): covers the output routing _get_outputs with the function outputs given as '
    'heap objects; tied per record by the identity pattern of the real output objects vs the driver model `pipeheap` (sink/assign '
    'chains); its agreement with the functional model Pipe.getOutputs is checked per case by the driver, not proved',
    'garbage collection: a Sink generator that is dropped un-exhausted runs its finally when CPython frees it '
    '(reference counting); the harness drops the iterator and collects before it reads `closed`',
]
ASSUMPTIONS = ['records are ints, tuples, lists and str-keyed (nested) dicts of ints',
               'num_threads>=2 cases are compared as multisets and only when no error reaches the caller; num_threads=1 in order']
RULE = ('corpus; a systematic table (every operator kind x key shape); arm nested-assign (several assign keys, one a nested '
        'path into an existing dict/list/tuple of the record, dict-form keys with such record keys; alone / behind a sink / filter / '
        'assign; the same record objects twice); arm builder (17 key-producing operator forms x none|filter|sink x 16 assign key forms, '
        'constant functions); random typed chains of 1..6 operators from the '
        'grammar select|apply|assign|filter|batch|sink x key shapes (bare, Key path, nested path, Index, tuple, dict/kwargs, '
        'SELF, SKIP, Literal, dict output keys) x the named callable library x batch_size/fn_batch_size x streams of 0..8 '
        'records of 5 shapes x ignore_error x num_threads in {0,2}; ~15% "wild" chains built without looking at the records '
        '(builder checks, run-time routing errors).  non-trivial = accepted by the builder, >= 2 operators, >= 2 records; '
        'distinct = distinct canonical case JSON')


# ----------------------------------------------------------------------------- cases

def mk_case(specs, items, ignore=False, threads=0, kind='list', fail=(), src_ignore=False, tag=None):
  c = dict(specs=specs, src=dict(items=items, fail=[list(f) for f in fail], src_ignore=src_ignore, kind=kind),
           ignore=ignore, threads=threads)
  if tag:
    c['tag'] = tag
  return c


N, P, SELF, SKIP = G.N, G.P, G.SELF, G.SKIP


def systematic(rng):
  """Every operator kind with every key shape, on small fixed streams."""
  d = G.make_items(rng, 'dict', 3)
  ints = [3, 4, 7]
  t2 = [{'t': [1, 2]}, {'t': [3, 4]}]
  f = lambda n, **kw: dict(f=n, **kw)
  ins = [{'one': N('a')}, {'one': P('a')}, {'one': P('c', 'd')}, {'one': P('c', 'l', 1)}, {'many': [N('a')]},
         {'kw': [['x', N('a')]]}, {'one': {'lit': 5}}]
  outs = [{'one': N('x')}, {'one': P('x')}, {'one': P('x', 'y')}, {'many': [N('x')]}, {'one': SELF}, {'one': P('x', 0)}]
  for i in ins:
    for o in outs:
      yield mk_case([{'op': 'apply', 'fn': f('add1'), 'in': i, 'out': o}], d)
      if 'self' not in o['one'] if 'one' in o else True:
        yield mk_case([{'op': 'assign', 'fn': f('add1'), 'in': i, 'keys': o}], d)
    yield mk_case([{'op': 'filter', 'fn': f('is_even'), 'in': i}], d)
    yield mk_case([{'op': 'sink', 'fn': f('ident'), 'in': i, 'is_sink': True}], d)
  two = [{'many': [N('a'), N('b')]}, {'kw': [['x', N('a')], ['y', P('c', 'd')]]}, {'kw': [['y', N('a')], ['x', N('b')]]},
         {'many': [P('c', 'd'), {'lit': 9}]}]
  outs2 = [{'many': [N('x'), N('y')]}, {'many': [SKIP, N('y')]}, {'many': [N('x'), SKIP]}, {'one': N('x')}, {'one': SELF},
           {'many': [P('x', 'u'), P('x', 'v')]}, {'many': [N('x'), N('x')]}, {'many': [N('x'), N('y'), N('z')]}]
  for i in two:
    for o in outs2:
      yield mk_case([{'op': 'apply', 'fn': f('swap'), 'in': i, 'out': o}], d)
      if o != {'one': SELF}:
        yield mk_case([{'op': 'assign', 'fn': f('swap'), 'in': i, 'keys': o}], d)
    yield mk_case([{'op': 'apply', 'fn': f('sum2'), 'in': i, 'out': {'one': N('s')}}], d)
    yield mk_case([{'op': 'sink', 'fn': f('tup' if 'many' in i else 'sum2'), 'in': i, 'is_sink': True}], d)
  for o in [{'one': {'dk': [['s', N('u')], ['t', P('v')]]}}, {'many': [{'dk': [['s', N('u')]]}]}, {'one': N('m')},
            {'one': P('m', 'n')}]:
    yield mk_case([{'op': 'apply', 'fn': f('mk_dict'), 'in': {'one': N('a')}, 'out': o}], d)
    yield mk_case([{'op': 'assign', 'fn': f('mk_dict'), 'in': {'one': N('a')}, 'keys': o}], d)
  yield mk_case([{'op': 'apply', 'fn': f('pair'), 'in': {'one': N('a')},
                  'out': {'many': [{'dk': [['s', N('u')]]}, N('w')]}}], d)
  # selects
  for i, o in [({'one': N('a')}, None), ({'many': [N('a'), P('c', 'd')]}, None), ({'many': [N('a'), N('b')]}, {'many': [N('x'), N('y')]}),
               ({'one': N('a')}, {'one': N('x')}), ({'one': SELF}, None), ({'many': [N('a'), N('b')]}, {'one': N('x')}),
               ({'one': SKIP}, None), ({'kw': [['x', N('a')]]}, None), ({'many': []}, None), ({'one': N('zz')}, None)]:
    sp = {'op': 'select', 'in': i}
    if o is not None:
      sp['out'] = o
    yield mk_case([sp], d)
  # non-dict records
  for o in outs:
    yield mk_case([{'op': 'apply', 'fn': f('add1'), 'in': {'one': SELF}, 'out': o}], ints)
  yield mk_case([{'op': 'filter', 'fn': f('is_even'), 'in': {'one': SELF}}], ints)
  yield mk_case([{'op': 'filter', 'fn': f('gt', c=3), 'in': {'one': SELF}}, {'op': 'apply', 'fn': f('pair'), 'in': {'one': SELF}, 'out': {'one': SELF}}], ints)
  yield mk_case([{'op': 'apply', 'fn': f('swap'), 'in': {'many': [{'i': 0}, P(1)]}, 'out': {'one': SELF}}], t2)
  yield mk_case([{'op': 'assign', 'fn': f('sum2'), 'in': {'many': [{'i': 0}, {'i': 1}]}, 'keys': {'one': {'i': 2}}}], t2)
  yield mk_case([{'op': 'assign', 'fn': f('add1'), 'in': {'one': {'i': 0}}, 'keys': {'one': {'i': 0}}}], t2)
  # the same key shapes through NEGATIVE indices on the real code (lib_pipe `neg_len`: Index(k) is built as Index(k - 2);
  # model and reference keep k) - reads, in-place writes of either position, nested write below an index, chains
  # that keep the record a 2-tuple
  t2n = [{'t': [{'t': [1, 2]}, 7]}, {'t': [{'t': [3, 4]}, 9]}]
  for specs, items in [
      ([{'op': 'apply', 'fn': f('swap'), 'in': {'many': [{'i': 0}, P(1)]}, 'out': {'one': SELF}}], t2),
      ([{'op': 'assign', 'fn': f('add1'), 'in': {'one': {'i': 0}}, 'keys': {'one': {'i': 0}}}], t2),
      ([{'op': 'assign', 'fn': f('add1'), 'in': {'one': {'i': 0}}, 'keys': {'one': {'i': 1}}}], t2),
      ([{'op': 'assign', 'fn': f('add1'), 'in': {'one': P(1)}, 'keys': {'one': P(1)}}], t2),
      ([{'op': 'assign', 'fn': f('pair'), 'in': {'one': {'i': 1}}, 'keys': {'many': [{'i': 1}, {'i': 0}]}}], t2),
      ([{'op': 'assign', 'fn': f('add1'), 'in': {'one': {'i': 1}}, 'keys': {'one': P(0, 0)}}], t2n),
      ([{'op': 'assign', 'fn': f('add1'), 'in': {'one': {'i': 1}}, 'keys': {'one': P(0, 1)}}], t2n),
      ([{'op': 'select', 'in': {'many': [{'i': 1}, {'i': 0}]}}], t2),
      ([{'op': 'filter', 'fn': f('is_even'), 'in': {'one': {'i': 1}}},
        {'op': 'assign', 'fn': f('add1'), 'in': {'one': {'i': 1}}, 'keys': {'one': {'i': 1}}},
        {'op': 'assign', 'fn': f('neg'), 'in': {'one': {'i': 0}}, 'keys': {'one': {'i': 1}}}], t2 + [{'t': [5, 6]}]),
  ]:
    c = mk_case(specs, items, tag='neg-index')
    c['neg_len'] = 2
    yield c
  # batch
  for n in (0, 1, 2, 3):
    yield mk_case([{'op': 'batch', 'n': n}], ints + [1, 2])
    yield mk_case([{'op': 'select', 'in': {'many': [N('a'), N('b')]}}, {'op': 'batch', 'n': n}], d)
    yield mk_case([{'op': 'apply', 'fn': f('pair'), 'in': {'one': N('a')}, 'out': {'many': [N('x'), N('y')]}},
                   {'op': 'batch', 'n': n}], d)
  # the builder's checks
  yield mk_case([{'op': 'apply', 'fn': f('add1'), 'in': {'one': N('a')}, 'out': {'one': N('x')}, 'fn_batch': 2, 'batch': 0}], d)
  yield mk_case([{'op': 'assign', 'fn': f('add1'), 'in': {'one': N('a')}, 'keys': {'many': []}}], d)
  yield mk_case([{'op': 'assign', 'fn': f('add1'), 'in': {'one': N('a')}, 'keys': {'one': N('x')}},
                 {'op': 'assign', 'fn': f('add1'), 'in': {'one': N('a')}, 'keys': {'one': N('x')}}], d)
  yield mk_case([{'op': 'assign', 'fn': f('add1'), 'in': {'one': N('a')}, 'keys': {'many': [N('x'), SELF]}}], d)
  yield mk_case([{'op': 'assign', 'fn': f('add1'), 'in': {'one': N('a')}, 'keys': {'one': SELF}}], d)
  yield mk_case([{'op': 'sink', 'fn': f('ident'), 'in': {'one': N('a')}, 'is_sink': False}], d)
  yield mk_case([{'op': 'aggregate', 'has_fn': True, 'out': {'one': SELF}},
                 {'op': 'apply', 'fn': f('add1'), 'in': {'one': N('a')}, 'out': {'one': N('x')}}], d)
  yield mk_case([{'op': 'aggregate', 'has_fn': False, 'out': {'one': SELF}},
                 {'op': 'apply', 'fn': f('add1'), 'in': {'one': N('a')}, 'out': {'one': N('x')}}], d)
  yield mk_case([{'op': 'aggregate', 'has_fn': True, 'out': {'one': SELF}}, {'op': 'aggregate', 'has_fn': True, 'out': {'one': N('m')}}], d)
  yield mk_case([{'op': 'aggregate', 'has_fn': True, 'out': {'many': [N('m'), SELF]}}], d)
  yield mk_case([{'op': 'apply', 'fn': f('add1'), 'in': {'one': N('a')}, 'out': {'one': N('x')}}, {'op': 'aggregate', 'has_fn': True, 'out': {'one': SELF}}], d)
  # filter / sink in every position (F9: filter as the first operator)
  yield mk_case([{'op': 'filter', 'fn': f('is_even'), 'in': {'one': N('a')}},
                 {'op': 'assign', 'fn': f('add1'), 'in': {'one': N('a')}, 'keys': {'one': N('x')}}], d)
  yield mk_case([{'op': 'sink', 'fn': f('ident'), 'in': {'one': N('a')}, 'is_sink': True},
                 {'op': 'assign', 'fn': f('add1'), 'in': {'one': N('a')}, 'keys': {'one': N('x')}}], d)
  yield mk_case([{'op': 'assign', 'fn': f('add1'), 'in': {'one': N('a')}, 'keys': {'one': N('x')}},
                 {'op': 'select', 'in': {'one': N('a')}},
                 {'op': 'assign', 'fn': f('add1'), 'in': {'one': N('a')}, 'keys': {'one': N('x')}}], d)
  yield mk_case([{'op': 'apply', 'fn': f('pair'), 'in': {'one': N('a')}, 'out': {'many': [N('x'), SKIP]}}, {'op': 'batch', 'n': 2}], d)
  yield mk_case([{'op': 'apply', 'fn': f('pair'), 'in': {'one': N('a')}, 'out': {'many': [N('x'), N('y')]}},
                 {'op': 'select', 'in': {'one': N('x')}}, {'op': 'batch', 'n': 2}], d)
  # stateful function: called once per record, in order
  yield mk_case([{'op': 'assign', 'fn': f('counter'), 'in': {'one': N('a')}, 'keys': {'one': N('k')}},
                 {'op': 'filter', 'fn': f('is_even'), 'in': {'one': N('k')}},
                 {'op': 'assign', 'fn': f('counter'), 'in': {'one': N('a')}, 'keys': {'one': N('k2')}}], G.make_items(rng, 'dict', 6))
  # column batches with batch sizes
  cols = G.make_items(rng, 'cols', 5)
  for fb, b in [(0, 2), (2, 3), (3, 1), (1, 2)]:
    yield mk_case([{'op': 'apply', 'fn': f('v_add1'), 'in': {'one': N('v')}, 'out': {'one': N('o')}, 'fn_batch': fb, 'batch': b}], cols)
    yield mk_case([{'op': 'apply', 'fn': f('v_sum2'), 'in': {'kw': [['x', N('v')], ['y', N('w')]]}, 'out': {'many': [N('o')]},
                    'fn_batch': fb, 'batch': b}], cols)
    yield mk_case([{'op': 'apply', 'fn': f('v_pair'), 'in': {'one': N('v')}, 'out': {'many': [N('o'), N('o2')]}, 'fn_batch': fb, 'batch': b}], cols)
    yield mk_case([{'op': 'select', 'in': {'many': [N('v'), N('w')]}, 'batch': b}], cols)
  fix = G.make_items(rng, 'colsfix', 4)
  yield mk_case([{'op': 'assign', 'fn': f('v_add1'), 'in': {'one': N('v')}, 'keys': {'one': N('o')}, 'fn_batch': 2, 'batch': 2}], fix)
  yield mk_case([{'op': 'assign', 'fn': f('v_add1'), 'in': {'one': N('v')}, 'keys': {'one': N('o')}, 'fn_batch': 0, 'batch': 2}], fix)
  yield mk_case([{'op': 'assign', 'fn': f('v_add1'), 'in': {'one': N('v')}, 'keys': {'one': N('o')}, 'fn_batch': 0, 'batch': 2}], cols)


def nested_items(rng, n):
  """dict records with nested containers of every kind: c = {d: int, l: [..], t: (..), m: {k: int}}"""
  items = []
  for i in range(n):
    a, b = rng.randrange(0, 9), rng.randrange(0, 9)
    items.append(G.wd(a=a, b=b, c=G.wd(d=i, l=G.wl([a + 10, b + 10]), t={'t': [a, b]}, m=G.wd(k=i))))
  return items


DK = lambda *items: {'dk': [list(it) for it in items]}


def nested_assign_cases(rng):
  """`assign` with SEVERAL output keys of which at least one is a NESTED path into a container that already exists in
  the (dict) record — a dict, a list (overwrite / append at len), a tuple — also as the record key of a dict-form key;
  alone, behind a sink that keeps what it was given (the whole record / the nested container), behind a filter, behind
  another assign, followed by another nested assign; over a stream that delivers the same record objects twice.
  What is observed besides the stream: the caller's records (deep snapshot + identity of every container), what the
  sinks hold, and that no container on a written path of an output is a caller object."""
  f = lambda n, **kw: dict(f=n, **kw)
  one_a = {'one': N('a')}
  keysets = [
      ('pair', one_a, {'many': [N('x'), P('c', 'z')]}),
      ('pair', one_a, {'many': [P('c', 'z'), N('x')]}),
      ('pair', one_a, {'many': [P('c', 'l', 0), N('x')]}),
      ('pair', one_a, {'many': [P('c', 'l', 2), P('c', 'd')]}),
      ('pair', one_a, {'many': [P('c', 't', 1), N('x')]}),
      ('pair', one_a, {'many': [P('c', 'm', 'k'), P('c', 'm', 'j')]}),
      ('triple', one_a, {'many': [N('x'), P('c', 'z'), P('c', 'l', 1)]}),
      ('swap', {'many': [N('a'), N('b')]}, {'many': [P('c', 'u', 'v'), N('y')]}),
      ('mk_dict', one_a, {'one': DK(('x', N('u')), (P('c', 'z'), P('v')))}),
      ('mk_dict', one_a, {'one': DK((P('c', 'm', 'k'), N('u')), (P('c', 'l', 0), N('v')))}),
      ('tup', {'many': [N('c'), N('a')]}, {'many': [DK((P('c', 'z'), N('d'))), N('x')]}),
      ('add1', one_a, {'one': P('c', 'z')}),                       # control: one nested key
      ('pair', one_a, {'many': [N('x'), N('y')]}),                 # control: several flat keys
  ]
  before = [[], [{'op': 'sink', 'fn': f('ident'), 'in': {'one': SELF}, 'is_sink': True}],
            [{'op': 'sink', 'fn': f('ident'), 'in': {'one': N('c')}, 'is_sink': True}],
            [{'op': 'filter', 'fn': f('gt', c=-1), 'in': {'one': N('a')}}],
            [{'op': 'assign', 'fn': f('add1'), 'in': {'one': N('a')}, 'keys': {'one': N('g')}}]]
  after = [[], [{'op': 'assign', 'fn': f('add1'), 'in': {'one': N('a')}, 'keys': {'one': P('c', 'w')}}]]
  i = 0
  for fn, ins, keys in keysets:
    for b in before:
      for a in after:
        i += 1
        specs = copy.deepcopy(b) + [{'op': 'assign', 'fn': f(fn), 'in': ins, 'keys': keys}] + copy.deepcopy(a)
        c = mk_case(specs, nested_items(rng, 3), tag='nested-assign')
        if i % 2:
          c['src']['twice'] = True
        yield c


def builder_cases():
  """The builder's key-set rule, systematically: every operator kind that produces record keys x every key form
  (plain, tuple, dict-form with record key != source name, Key path, SELF) x an operator in between that leaves the keys
  alone (none / filter / sink) x an assign whose key form names a produced key, a fresh key, or mentions a produced
  key only on the SOURCE side of a dict-form key.  Every function is a constant, so accepted chains also run."""
  const = lambda v: {'f': 'const', 'c': v}
  d_uv = G.wd(u=1, v=2, x=3)
  t2 = {'t': [5, 6]}
  t_d = {'t': [5, G.wd(u=1, v=2, d=3)]}
  asg = lambda keys, v: {'op': 'assign', 'fn': const(v), 'in': {'one': SELF}, 'keys': keys}
  app = lambda out, v: {'op': 'apply', 'fn': const(v), 'in': {'one': SELF}, 'out': out}
  producers = [
      ('assign:plain', [asg({'one': N('x')}, 5)]),
      ('assign:plain-u', [asg({'one': N('u')}, 5)]),
      ('assign:tuple', [asg({'many': [N('x'), N('y')]}, t2)]),
      ('assign:dict', [asg({'one': DK(('x', N('u')), ('y', N('v')))}, d_uv)]),
      ('assign:tuple+dict', [asg({'many': [N('w'), DK(('x', N('u')))]}, t_d)]),
      ('assign:path', [asg({'one': P('x')}, 5)]),
      ('assign:nested-path', [asg({'one': P('x', 'w')}, 5)]),
      ('assign:dict-path-key', [asg({'one': DK((P('x', 'w'), N('u')))}, d_uv)]),
      ('apply:plain', [app({'one': N('x')}, 5)]),
      ('apply:tuple', [app({'many': [N('x'), N('u')]}, t2)]),
      ('apply:dict', [app({'one': DK(('x', N('u')), ('y', N('v')))}, d_uv)]),
      ('apply:self', [app({'one': SELF}, G.wd(x=1, u=2))]),
      ('select:renamed', [{'op': 'select', 'in': {'many': [N('a'), N('b')]}, 'out': {'many': [N('x'), N('u')]}}]),
      ('select:default', [{'op': 'select', 'in': {'many': [N('a'), N('b')]}}]),
      ('select+batch', [{'op': 'select', 'in': {'one': N('a')}, 'out': {'one': N('x')}}, {'op': 'batch', 'n': 2}]),
      ('assign+select-drops', [asg({'one': N('x')}, 5), {'op': 'select', 'in': {'one': N('a')}}]),
      ('none', []),
  ]
  mids = [('none', []), ('filter', [{'op': 'filter', 'fn': const(1), 'in': {'one': SELF}}]),
          ('sink', [{'op': 'sink', 'fn': const(0), 'in': {'one': SELF}, 'is_sink': True}])]
  consumers = [
      ('plain-x', {'one': N('x')}, 7), ('plain-fresh', {'one': N('q')}, 7), ('path-x', {'one': P('x')}, 7),
      ('tuple-x', {'many': [N('q'), N('x')]}, t2),
      ('dict-key-x', {'one': DK(('x', N('u')))}, d_uv),                     # record key x, read from 'u'
      ('dict-src-x', {'one': DK(('q', N('x')))}, d_uv),                     # record key q, read from 'x': legal
      ('dict-src-u', {'one': DK(('q', N('u')))}, d_uv),
      ('dict-2nd-x', {'one': DK(('q', N('u')), ('x', N('v')))}, d_uv),
      ('tuple+dict-key-x', {'many': [N('q'), DK(('x', N('d')))]}, t_d),
      ('tuple+dict-src-x', {'many': [N('q'), DK(('r', N('u')))]}, t_d),
      ('dict-path-key', {'one': DK((P('x', 'w'), N('u')))}, d_uv),
      ('self', {'one': SELF}, 7), ('self+q', {'many': [SELF, N('q')]}, t2),
      ('dict-src-self', {'one': DK(('q', SELF))}, 7),                        # the whole output under q: legal
      ('dict-key-self', {'one': DK((SELF, N('u')))}, d_uv),
      ('dict-twice-q', {'one': DK(('q', N('u')), ('q2', N('u')))}, d_uv),    # two record keys from one source: legal
  ]
  items = [G.wd(a=1, b=2), G.wd(a=3, b=4)]
  for pn, prod in producers:
    for mn, mid in mids:
      for cn, keys, v in consumers:
        c = mk_case(copy.deepcopy(prod) + copy.deepcopy(mid) + [asg(copy.deepcopy(keys), v)], copy.deepcopy(items),
                    tag=f'builder:{pn}/{mn}/{cn}')
        yield c


def reserved_name_cases(rng):
  """SC18: records whose keys are PLAIN str spelled like the reserved keys ({'SELF': .., 'SKIP': .., 'c': {'SELF': ..,
  'SKIP': [..]}}) and operators that read / write such names — bare, as Key path, nested, in tuples, as dict-form record
  key — next to the reserved keys themselves; every operator kind; the builder's key-set rules with such names (assign to
  a produced 'SKIP' / 'SELF' must be rejected, plain 'SELF' next to other keys is legal, batch after select('SKIP'))."""
  f = lambda n, **kw: dict(f=n, **kw)
  d = G.make_items(rng, 'rdict', 3)
  ins1 = [{'one': N('SELF')}, {'one': N('SKIP')}, {'one': P('SELF')}, {'one': P('c', 'SELF')}, {'one': P('c', 'SKIP', 1)},
          {'many': [N('SKIP')]}, {'kw': [['x', N('SELF')]]}, {'one': SELF}]
  outs1 = [{'one': N('SELF')}, {'one': N('SKIP')}, {'one': P('SKIP')}, {'one': P('SELF', 'SKIP')}, {'many': [N('SELF')]},
           {'one': P('c', 'SKIP')}, {'one': N('x')}, {'one': SELF}]
  for i in ins1:
    for o in outs1:
      if 'self' not in i.get('one', {}):
        yield mk_case([{'op': 'apply', 'fn': f('add1'), 'in': i, 'out': o}], d)
        if o != {'one': SELF}:
          yield mk_case([{'op': 'assign', 'fn': f('add1'), 'in': i, 'keys': o}], d)
    yield mk_case([{'op': 'filter', 'fn': f('is_even') if 'self' not in i.get('one', {}) else f('const', c=1), 'in': i}], d)
    yield mk_case([{'op': 'sink', 'fn': f('ident'), 'in': i, 'is_sink': True}], d)
  two = [{'many': [N('SELF'), N('SKIP')]}, {'kw': [['x', N('SKIP')], ['y', P('c', 'SELF')]]}, {'many': [P('c', 'SELF'), N('SELF')]}]
  outs2 = [{'many': [N('SELF'), N('SKIP')]}, {'many': [N('SKIP'), N('SELF')]}, {'many': [SKIP, N('SKIP')]}, {'many': [N('SKIP'), SKIP]},
           {'many': [N('SELF'), N('y')]}, {'many': [N('y'), N('SELF')]}, {'one': N('SELF')}, {'one': SELF}, {'many': [N('SKIP'), N('SKIP')]},
           {'many': [P('SELF', 'u'), P('SELF', 'v')]}, {'many': [SELF, N('SELF')]}]
  for i in two:
    for o in outs2:
      yield mk_case([{'op': 'apply', 'fn': f('swap'), 'in': i, 'out': o}], d)
      if o != {'one': SELF}:
        yield mk_case([{'op': 'assign', 'fn': f('swap'), 'in': i, 'keys': o}], d)
    yield mk_case([{'op': 'sink', 'fn': f('tup' if 'many' in i else 'sum2'), 'in': i, 'is_sink': True}], d)
  for o in [{'one': DK(('SELF', N('u')), ('SKIP', P('v')))}, {'many': [DK(('SKIP', N('u')))]}, {'one': DK((P('c', 'SELF'), N('u')))},
            {'one': N('SKIP')}, {'one': DK(('q', SELF))}, {'one': DK((SELF, N('u')))}]:
    yield mk_case([{'op': 'apply', 'fn': f('mk_dict'), 'in': {'one': N('SELF')}, 'out': o}], d)
    yield mk_case([{'op': 'assign', 'fn': f('mk_dict'), 'in': {'one': N('SKIP')}, 'keys': o}], d)
  for i, o in [({'one': N('SELF')}, None), ({'one': N('SKIP')}, None), ({'many': [N('SELF'), N('SKIP')]}, None),
               ({'many': [N('SKIP'), N('SELF')]}, None), ({'many': [N('SELF'), P('c', 'SKIP')]}, {'many': [N('SKIP'), N('q')]}),
               ({'many': [N('SELF'), N('SKIP')]}, {'many': [N('SKIP'), N('SELF')]}), ({'one': N('SELF')}, {'one': N('SKIP')}),
               ({'many': [N('SELF'), N('SKIP')]}, {'one': N('SELF')}), ({'many': [SELF, N('SELF')]}, {'many': [N('SKIP'), N('SELF')]}),
               ({'one': SKIP}, None)]:
    sp = {'op': 'select', 'in': i}
    if o is not None:
      sp['out'] = o
    yield mk_case([sp], d)
    for n in (0, 2):
      yield mk_case([copy.deepcopy(sp), {'op': 'batch', 'n': n}], d)
  # the builder's key-set rules
  asg = lambda keys, fn='add1', src='SELF': {'op': 'assign', 'fn': f(fn), 'in': {'one': N(src)}, 'keys': keys}
  for first in [asg({'one': N('z')}), asg({'one': N('SKIP')}), asg({'one': N('SELF')}), asg({'many': [N('SKIP'), SKIP]}, 'pair'),
                asg({'many': [SKIP, N('z')]}, 'pair'), {'op': 'select', 'in': {'many': [N('SELF'), N('SKIP')]}},
                {'op': 'apply', 'fn': f('pair'), 'in': {'one': N('SELF')}, 'out': {'many': [N('SKIP'), N('SELF')]}},
                {'op': 'apply', 'fn': f('pair'), 'in': {'one': N('SELF')}, 'out': {'many': [SKIP, N('SELF')]}}]:
    for mid in [[], [{'op': 'filter', 'fn': f('const', c=1), 'in': {'one': SELF}}]]:
      for second in [asg({'one': N('SKIP')}), asg({'one': N('SELF')}), asg({'one': P('SKIP')}), asg({'many': [N('q'), N('SELF')]}, 'pair'),
                     asg({'many': [SKIP, N('SKIP')]}, 'pair'), asg({'one': SELF}), asg({'one': DK(('SKIP', N('u')))}, 'mk_dict'),
                     asg({'one': N('q')})]:
        yield mk_case([copy.deepcopy(first)] + copy.deepcopy(mid) + [copy.deepcopy(second)], d, tag='reserved-names:builder')


def _spelled(k):
  """'SELF' / 'SKIP' if the key (wire form) is or contains a PLAIN name spelled like a reserved key"""
  out = []
  if 'n' in k and k['n'] in G.RESERVED_NAMES:
    out.append(k['n'])
  if 'p' in k:
    out += [s for s in k['p'] if s in G.RESERVED_NAMES]
  if 'dk' in k:
    for n, src in k['dk']:
      out += _spelled(L.rk_json(n)) + _spelled(src)
  return out


def arms_of(case):
  """the promised arms a case exercises (computed from the case, so random cases count too)"""
  arms = []
  for sp in case['specs']:
    for part, what in (('in', 'input'), ('out', 'output'), ('keys', 'output')):
      if sp.get(part) is not None:
        spec = sp[part]
        keys = [spec['one']] if 'one' in spec else spec.get('many', [k for _, k in spec.get('kw', [])])
        for k in keys:
          for s in _spelled(k):
            arms.append(f"{sp['op']}: {what} key with the plain name {s!r}")
  specs = case['specs']
  items = case['src']['items']
  first = items[0].get('d') if items and isinstance(items[0], dict) and 'd' in items[0] else None
  produced = []
  for sp in specs:
    op = sp['op']
    if op == 'assign':
      ks = _norm_keys(sp['keys'])
      flat = _flat(sp['keys'])
      def nested_existing(k):
        p = L._key_path(k)       # pylint: disable=protected-access
        return bool(p and len(p) >= 2 and first is not None and isinstance(first.get(p[0]), dict) and
                    any(t in first[p[0]] for t in ('d', 'l', 't')))
      if len(flat) >= 2 and any(nested_existing(k) for k in flat) and not produced_replaced(specs, sp):
        arms.append('assign: several keys, one a nested path into an existing container')
        if any('dk' in k for k in ks):
          arms.append('assign: dict-form key whose record key is a nested path into an existing container')
        if specs.index(sp) > 0 and specs[specs.index(sp) - 1]['op'] == 'sink':
          arms.append('assign (several keys, nested) directly behind a sink')
        if case['src'].get('twice'):
          arms.append('assign (several keys, nested) over record objects that occur twice')
      for k in ks:
        if 'dk' in k:
          for n, src in k['dk']:
            rk = L.rk_json(n)
            if jdump(rk) != jdump(src):
              arms.append('dict-form assign key: record key != source name')
            if jdump(rk) in produced and jdump(rk) != jdump(src):
              arms.append('dict-form assign key: record key already produced (must be rejected)')
            if jdump(src) in produced and jdump(rk) not in produced:
              arms.append('dict-form assign key: only the SOURCE name equals a produced key (legal)')
            if 'self' in src:
              arms.append('dict-form assign key: source SELF')
      produced += [jdump(k) for k in flat]
    elif op == 'apply':
      produced = [jdump(k) for k in _flat(sp['out'])]
    elif op == 'select':
      out = sp.get('out')
      produced = [jdump(k) for k in _flat(out if out is not None and _flat(out) else _in_keys(sp['in']))]
  return arms


def produced_replaced(specs, sp):
  """an apply / select / batch in front of `sp` replaced the source records (the nested containers are then not the
  caller's)"""
  return any(s['op'] in ('apply', 'select', 'batch') for s in specs[:specs.index(sp)])


def _norm_keys(spec):
  return [spec['one']] if 'one' in spec else list(spec.get('many', []))


def gen_cases(ctx):
  rng, quick = ctx.rng, ctx.quick

  def counted(it, cls):
    for c in it:
      ctx.count('class', cls)
      ctx.count('chain_length', len(c['specs']))
      ctx.count('records', len(c['src']['items']))
      for sp in c['specs']:
        ctx.count('operator', sp['op'] + ('+batch' if sp.get('batch') or sp.get('fn_batch') else ''))
        for part in ('in', 'out', 'keys'):
          if sp.get(part) is not None:
            for shape in key_shapes(sp[part]):
              ctx.count('key_shape', shape)
      if c.get('threads'):
        ctx.count('threads', c['threads'])
      for arm in arms_of(c):
        ctx.count('arm', arm)
      for arm in G.vs_arms(c):
        ctx.count('value_shape', arm)
      yield c

  yield from counted(ctx.corpus(), 'corpus')
  yield from counted(systematic(rng), 'systematic')
  yield from counted(nested_assign_cases(rng), 'nested-assign')
  yield from counted(builder_cases(), 'builder')

  def rand(n):
    for _ in range(n):
      shape = rng.choice(['dict', 'dict', 'dict', 'int', 'cols', 'colsfix', 't2'])
      nrec = rng.choice([0, 1, 2, 3, 4, 5, 6, 8])
      specs = G.gen_chain(rng, shape, 6)
      if specs:
        yield mk_case(specs, G.make_items(rng, shape, nrec), ignore=rng.random() < 0.25)
  yield from counted(rand(1500 if quick else 30000), 'typed')

  def wild(n):
    for _ in range(n):
      shape = rng.choice(['dict', 'dict', 'int', 'cols'])
      yield mk_case(G.gen_wild(rng, 4), G.make_items(rng, shape, rng.randrange(0, 4)), ignore=rng.random() < 0.2)
  yield from counted(wild(300 if quick else 6000), 'wild')

  def threaded(n):
    for _ in range(n):
      shape = rng.choice(['dict', 'int'])
      specs = [sp for sp in G.gen_chain(rng, shape, 4, batchy=0) if sp['op'] != 'batch' and not sp.get('batch')]
      if specs:
        yield mk_case(specs, G.make_items(rng, shape, rng.randrange(0, 9)), threads=2,
                      kind=rng.choice(['list', 'seq']))
  yield from counted(threaded(60 if quick else 1500), 'threads')

  # SC18 (last, so that the stages above draw what they drew before): names spelled like the reserved keys
  yield from counted(reserved_name_cases(rng), 'reserved-names')

  def rand_r(n):
    for _ in range(n):
      specs = G.gen_chain(rng, 'rdict', 5)
      if specs:
        yield mk_case(specs, G.make_items(rng, 'rdict', rng.choice([1, 2, 3, 4])), ignore=rng.random() < 0.25)
  yield from counted(rand_r(400 if quick else 8000), 'reserved-names')

  def self_mixed_select(specs):
    """Key.SELF among SEVERAL output keys of a select (explicit, or the input keys by default) or an apply.  Not this
    arm's class (nothing is spelled like a reserved key) and a separate observation reported by SC18: the builder checks
    'SELF mixed with other keys' for assign only; when SELF comes first `_normalize_outputs` wraps the outputs
    (ValueError from zip() for every record; the reference interpreter gives SELF the first output), and a following
    batch() takes `tuple(self.output_keys)` in SET order, so whether SELF comes first depends on the process's str
    hashing.  The plain wild arm draws this class with the probability it always had."""
    for sp in specs:
      if sp['op'] in ('select', 'apply'):
        spec = sp.get('out') or (sp['in'] if sp['op'] == 'select' else {})
        ks = spec.get('many') or [k for _, k in spec.get('kw', [])]
        if len(ks) > 1 and any('self' in k for k in ks):
          return True
    return False

  def wild_r(n):
    for _ in range(n):
      specs = G.gen_wild(rng, 3, reserved_names=True)
      items = G.make_items(rng, 'rdict', rng.randrange(0, 4))
      ignore = rng.random() < 0.2
      if not self_mixed_select(specs):
        yield mk_case(specs, items, ignore=ignore)
  yield from counted(wild_r(150 if quick else 3000), 'reserved-names')

  # SC08b (last again): record VALUES that are containers whose shape meets the packing conventions of the operators
  yield from counted(G.value_shape_cases(mk_case), 'value-shape')

  def rand_vs(n):
    for _ in range(n):
      specs, items = G.gen_value_shape_chain(rng)
      if specs:
        yield mk_case(specs, items, ignore=rng.random() < 0.2, tag='value-shape:random')
  yield from counted(rand_vs(400 if quick else 8000), 'value-shape-random')


REQUIRED = {
    'operator': ['select', 'apply', 'assign', 'filter', 'batch', 'sink', 'aggregate', 'apply+batch', 'select+batch', 'assign+batch'],
    'key_shape': ['single', 'kwargs', 'tuple0', 'tuple1', 'tuple2', 'tuple3', 'bare-name', 'index', 'path-1', 'path-nested',
                  'path-with-index', 'dict-output-key', 'SELF', 'SKIP', 'LIT'],
    'class': ['systematic', 'typed', 'wild', 'threads', 'nested-assign', 'builder', 'reserved-names', 'value-shape', 'value-shape-random'],
    'value_shape': G.vs_required(),
    'arm': [f'{op}: {what} key with the plain name {s!r}' for s in ('SELF', 'SKIP')
            for op, what in (('select', 'input'), ('select', 'output'), ('apply', 'input'), ('apply', 'output'),
                             ('assign', 'input'), ('assign', 'output'), ('filter', 'input'), ('sink', 'input'))] + ['assign: several keys, one a nested path into an existing container',
            'assign: dict-form key whose record key is a nested path into an existing container',
            'assign (several keys, nested) directly behind a sink',
            'assign (several keys, nested) over record objects that occur twice',
            'dict-form assign key: record key != source name',
            'dict-form assign key: record key already produced (must be rejected)',
            'dict-form assign key: only the SOURCE name equals a produced key (legal)',
            'dict-form assign key: source SELF'],
    'outcome': ['built', 'rejected:ValueError', 'rejected:KeyError', 'rejected:TypeError'],
}


def extra(ctx):
  """Coverage promise of the generator (else: infrastructure failure, not a verdict): every operator kind, key shape
  and builder outcome is exercised."""
  from harness.core import InfraError
  missing = [f'{h}:{v}' for h, vs in REQUIRED.items() if h != 'outcome' for v in vs if v not in ctx.hist.get(h, {})]
  if missing:
    # what the GENERATOR produced does not depend on the tree under test: always enforced
    raise InfraError(f'generator missed promised classes: {missing[:40]} ({len(missing)} in all)')
  export_stats(ctx)


def verdict_pending():
  """A disagreement or a new oracle failure was seen by compare() (main process).  The counters below count what the
  COMPARISON stages got through; a tree that breaks the tie early (e.g. outputs routed into a fresh record) starves
  them.  A coverage guard must never mask a verdict: the counters are enforced only for a run that is otherwise green
  (the runner then reports the VIOLATION)."""
  return sum(STATS.get('verdict', {}).values())


def export_stats(ctx):
  """coverage of the batched refinement theorems (counted by compare())"""
  for k, h in STATS.items():
    for sub, n in h.items():
      ctx.count(k, sub, n)
  from harness.core import InfraError
  if verdict_pending():
    ctx.notes.append(f"coverage counters of the comparison stages not enforced: {STATS['verdict']} (a verdict is reported instead)")
    return
  if not STATS.get('batched_theorem', {}).get('side-conditions hold'):
    raise InfraError('no generated case was inside the domain of the batched refinement theorems')
  if ctx.pid == 'C08' and STATS.get('fnless_theorem_pyref', {}).get('compared', 0) < 500:
    raise InfraError('the direct specification of fn-less chains (Ref.fnlessChain) was compared with the Python reference on fewer than 500 cases')
  if ctx.pid == 'C08' and STATS.get('heap_tie', {}).get('records compared', 0) < 100:
    raise InfraError('the heap tie (identity pattern of assign outputs vs Model/PipeHeap.lean) compared fewer than 100 records')


def key_shapes(spec):
  out = []
  keys = [spec['one']] if 'one' in spec else spec.get('many', [k for _, k in spec.get('kw', [])])
  out.append('single' if 'one' in spec else 'kwargs' if 'kw' in spec else f'tuple{min(len(keys), 3)}')
  for k in keys:
    if 'n' in k:
      out.append('bare-name')
    elif 'i' in k:
      out.append('index')
    elif 'p' in k:
      out.append('path-nested' if len(k['p']) > 1 else 'path-1')
      if any(isinstance(s, int) for s in k['p']):
        out.append('path-with-index')
    elif 'dk' in k:
      out.append('dict-output-key')
    else:
      out.append(next(iter(k)).upper())
  return out


# ----------------------------------------------------------------------------- impl / model

def run_impl(case):
  obs = L.run_case(case)
  if case.get('threads'):
    obs['threads'] = case['threads']
  if obs.get('build') is None and 'make_error' not in obs and not obs.get('agg') and not obs.get('hang'):
    try:
      ref = L.reference(case)
      obs['pyref'] = dict(out=ref['out'], err=list(ref['err']) if ref['err'] else None, logs=ref['logs'], exact=ref['exact'],
                          lenient=bool(ref.get('lenient')))
    except Exception as e:  # the reference itself must not crash
      obs['pyref'] = dict(crash=f'{type(e).__name__}: {e}')
  return obs


def model_requests(case):
  reqs = [dict(model='pipe', specs=case['specs'], src=case['src'], ignore=bool(case.get('ignore')))]
  plan = L.heap_plan(case)
  if plan:
    reqs += plan
  return reqs


def model_obs(case, resps):
  if len(resps) > 1:
    heap = list(resps[1:])
    if case['src'].get('twice'):
      heap = heap + heap
    return dict(resps[0], heap=heap)
  return resps[0]


def compare_heap(impl, model):
  """The heap-aware model of `_get_outputs` (Model/PipeHeap.lean, theorem C08_assign_no_write) against the real
  objects: per record, the containers of the output that ARE containers of the caller's record (identity), the value,
  and the functional model."""
  heap, shared = model['heap'], impl.get('shared')
  if shared is None or impl.get('err') is not None or model.get('err') is not None or len(heap) != len(shared):
    _stat('heap_tie', 'skipped (the run raised)')
    return None
  for i, (hp, sh) in enumerate(zip(heap, shared)):
    _stat('heap_tie', 'records compared')
    if 'driver_error' in hp:
      return f"pipeheap driver: {hp['driver_error']}"
    if hp['err'] is not None:
      return f"record {i}: the heap model raises {hp['err']}, the code does not"
    if not hp['agree']:
      return f'record {i}: the heap model and the functional model of _get_outputs differ'
    if hp['written']:
      return f"record {i}: the heap model wrote {hp['written']} pre-existing cells (contradicts C08_assign_no_write)"
    if hp['out'] != _unbool(impl['out'][i]):      # the heap of Model/Tree.lean has int / str / None leaves: a bool is its int
      return f"record {i}: heap model value {jdump(hp['out'])[:200]} / code {jdump(impl['out'][i])[:200]}"
    a, b = sorted(jdump(p) for p in hp['shared']), sorted(jdump(p) for p in sh)
    if a != b:
      return (f'record {i}: containers of the output that are objects of the caller\'s record: heap model {a} / '
              f'real objects {b}')
    _stat('heap_tie_shared_containers', min(len(a), 4))
  return None


def _unbool(j):
  if isinstance(j, bool):
    return int(j)
  if isinstance(j, dict):
    return {k: _unbool(v) for k, v in j.items()}
  if isinstance(j, list):
    return [_unbool(v) for v in j]
  return j


def _multiset(xs):
  return sorted(jdump(x) for x in xs)


# how often the batched refinement theorem (C08_refines_batched_partial / C12_skip_batched_partial) applied: filled by
# compare() (main process), copied into the evidence by extra()
STATS = {}


def _stat(key, sub):
  h = STATS.setdefault(key, {})
  h[str(sub)] = h.get(str(sub), 0) + 1


def compare_batched(impl, model):
  """Chains with batched operators: the Lean reference `Ref.chainEventsG` (list-level, on `Rebatch.run/online`) against
  the model of the code (an instance of C08_refines_batched_partial: must agree whenever the side conditions hold)
  and against the independent Python reference."""
  ref = impl.get('pyref') or {}
  ok = bool(model.get('refb_ok'))
  _stat('batched_theorem', 'side-conditions hold' if ok else 'outside (assign+batch, ragged / unreadable data, passed-on error)')
  if not ok:
    return None
  undefined = ref.get('err') is not None and ref['err'][0] == 'undefined'
  _stat('batched_theorem_outcome', ('error:' + str(model['refb_err'])) if model['refb_err'] else 'clean end')
  if not undefined and 'crash' not in ref:
    if model.get('out') != model['refb_out'] or model.get('err') != model['refb_err'] or model.get('cause') != model['refb_cause']:
      return (f"Lean reference for batched chains differs from the Lean model of the code although the side conditions "
              f"of C08_refines_batched_partial hold: {jdump(model['refb_out'])[:200]} / {jdump(model.get('out'))[:200]}")
  if not undefined and 'crash' not in ref and ref.get('out') is not None and not ref.get('lenient'):
    if ref['err'] is None and model['refb_err'] is None:
      _stat('batched_theorem_pyref', 'compared')
      if ref['out'] != model['refb_out']:
        return f"reference interpreters differ on a batched chain: py {jdump(ref['out'])[:300]} / lean {jdump(model['refb_out'])[:300]}"
    elif (ref['err'] is None) != (model['refb_err'] is None):
      return f"reference interpreters differ on err (batched chain): py {ref['err']} / lean {model['refb_err']}"
    elif model['refb_out'] != ref['out'][:len(model['refb_out'])]:
      return 'Lean reference output before the error is not a prefix of the failure-free Python reference'
  return None


def compare_fnless(impl, model):
  """Chains of un-batched operators WITHOUT functions: the direct specification `Ref.fnlessChainS` (Model/PipeFnless.lean:
  the value read under input key i is stored as it is under output key i; no call, no tuple packing; any source) against
  the Lean model of the code (instances of C08_fnless_chain_any_source: must agree whenever SelfAlone holds) and against
  the independent Python reference (`ref_route_values`)."""
  ok = bool(model['fnless_ok'])
  _stat('fnless_theorem', 'side-conditions hold' if ok else 'outside (SELF first of several keys)')
  if not ok:
    return None
  if model.get('out') != model['fnless_out'] or model.get('err') != model['fnless_err']:
    return (f"the direct specification Ref.fnlessChainS differs from the Lean model of the code although the side condition of "
            f"C08_fnless_chain_any_source holds: {jdump(model['fnless_out'])[:200]} / {jdump(model.get('out'))[:200]}")
  ref = impl.get('pyref') or {}
  if ref.get('exact') and 'crash' not in ref and ref.get('out') is not None:
    _stat('fnless_theorem_pyref', 'compared')
    if ref['out'] != model['fnless_out'] or (ref['err'] is None) != (model['fnless_err'] is None):
      return f"Ref.fnlessChain and the Python reference differ: py {jdump(ref['out'])[:300]} / lean {jdump(model['fnless_out'])[:300]}"
  return None


def compare(impl, model):
  d = _compare(impl, model)
  if d is not None:
    _stat('verdict', 'disagreement')
  if isinstance(impl, dict) and impl.get('oracle_new_failure'):
    _stat('verdict', 'oracle failure outside the known input classes')
  return d


def _compare(impl, model):
  if impl.get('threads'):
    return compare_threads(impl, model)
  if impl.get('build') != model.get('build'):
    return f"builder: code {impl.get('build')} / model {model.get('build')}"
  if impl.get('build') is not None:
    return None
  if 'make_error' in impl:
    return f"make()/iterate() raised {impl['make_error']}"
  if impl.get('agg'):
    return None
  if impl.get('hang'):
    return 'the pipeline did not finish'
  for k in ('out', 'err', 'cause', 'logs', 'closed'):
    if impl.get(k) != model.get(k):
      return f'{k}: code {jdump(impl.get(k))[:300]} / model {jdump(model.get(k))[:300]}'
  # the Lean reference interpreter and the Python one (written independently) must agree where both are defined
  ref = impl.get('pyref') or {}
  if 'ref_out' in model and model.get('ref_clean') and ref.get('exact') and 'crash' not in ref:
    if ref['out'] != model['ref_out']:
      return f"reference interpreters differ on out: py {jdump(ref['out'])[:300]} / lean {jdump(model['ref_out'])[:300]}"
    if (ref['err'] is None) != (model['ref_err'] is None):
      return f"reference interpreters differ on err: py {ref['err']} / lean {model['ref_err']}"
    if ref['logs'] != model['ref_logs']:
      return 'reference interpreters differ on sink logs'
  if 'fnless_ok' in model:
    d = compare_fnless(impl, model)
    if d is not None:
      return d
  if 'refb_ok' in model:
    d = compare_batched(impl, model)
    if d is not None:
      return d
  if 'heap' in model:
    d = compare_heap(impl, model)
    if d is not None:
      return d
  # the two formulations of the Lean reference (operator-major / record-major) agree on clean runs
  if 'ref_out' in model and model.get('ref_clean') and model['ref_err'] is None and model['ref2_err'] is None \
      and model['ref_out'] != model['ref2_out']:
    return 'the two formulations of the Lean reference differ'
  return None


def compare_threads(impl, model):
  if impl.get('build') != model.get('build'):
    return f"builder: code {impl.get('build')} / model {model.get('build')}"
  if impl.get('build') is not None or impl.get('agg'):
    return None
  if impl.get('hang'):
    return 'the threaded pipeline did not finish'
  if model.get('err') is not None:
    return None if impl.get('err') is not None else 'model predicts an error, the threaded run had none'
  if impl.get('err') is not None:
    return f"threaded run raised {impl['err']}"
  if impl['threads'] == 1:
    # one worker behind the lock wrapper: the in-process order (Iter.tsNext is transparent: C12_threadsafe_transparent)
    if impl['out'] != model['out']:
      return f"num_threads=1: output differs (in order): code {jdump(impl['out'])[:300]} / model {jdump(model['out'])[:300]}"
    if impl['logs'] != model['logs']:
      return 'num_threads=1: sink logs differ (in order)'
    return None
  if _multiset(impl['out']) != _multiset(model['out']):
    return 'output multisets differ'
  if [_multiset(l) for l in impl['logs']] != [_multiset(l) for l in model['logs']]:
    return 'sink log multisets differ'
  return None


# ----------------------------------------------------------------------------- oracle

def static_invalid(specs):
  """Key / option combinations that are invalid whatever the data (from the English property + the builder's
  documentation): -> reason or None."""
  produced, seen_agg = set(), False
  for sp in specs:
    op = sp['op']
    if seen_agg and op != 'aggregate':
      return 'operator after aggregate'
    if op == 'aggregate':
      if seen_agg:
        return 'two aggregates'
      if sp['has_fn']:
        seen_agg = True
        ks = [jdump(k) for k in ([sp['out']['one']] if 'one' in sp['out'] else sp['out']['many'])]
        if jdump(SELF) in ks and len(set(ks)) > 1:
          return 'SELF mixed with other aggregate keys'
      continue
    if sp.get('fn_batch') and not sp.get('batch'):
      return 'fn_batch_size without batch_size'
    if op in ('select', 'apply', 'assign') and sp.get('fn') is None and op != 'filter' and 'kw' in sp['in'] and sp['in']['kw']:
      return 'keyword input keys without a function'
    if op != 'batch':
      ins = sp['in']
      in_keys = [ins['one']] if 'one' in ins else ins.get('many', [k for _, k in ins.get('kw', [])])
      if any('skip' in k for k in in_keys):
        return 'SKIP as an input key'
      outs = sp.get('out') if op in ('select', 'apply') else sp.get('keys') if op == 'assign' else None
      if op == 'select' and (outs is None or not _flat(outs)):
        outs = {'many': in_keys}
      if outs is not None and any('lit' in k for k in ([outs['one']] if 'one' in outs else outs['many'])):
        return 'Literal as an output key'
    if op == 'sink' and not sp['is_sink']:
      return 'not a sink'
    if op == 'assign':
      ks = [sp['keys']['one']] if 'one' in sp['keys'] else sp['keys']['many']
      if not ks:
        return 'assign without keys'
  return None


def oracle(case, obs):
  what = _oracle(case, obs)
  if what is not None and isinstance(obs, dict) and mark_new_failure(case, what):
    obs['oracle_new_failure'] = True      # travels to the main process with the observation: see verdict_pending()
  return what


def mark_new_failure(case, what, finding_fn=None):
  try:
    return (finding_fn or finding)(case, what) is None
  except Exception:  # pylint: disable=broad-except
    return True


def _oracle(case, obs):
  inv = static_invalid(case['specs'])
  if obs.get('build') is not None:
    if inv is None and not builder_rule(case['specs']):
      return f"[over-reject] the builder rejected ({obs['build']}) a chain that is a valid combination"
    return None
  if inv is None and builder_rule(case['specs']):
    inv = 'an assign key that an earlier operator of the pipeline already produced, or SELF mixed with other assign keys'
  if inv is not None:
    return f'[accepted-invalid] the builder accepted an invalid combination: {inv}'
  if 'make_error' in obs:
    return f"make()/iterate() raised {obs['make_error']}"
  if obs.get('agg'):
    return None
  if obs.get('hang'):
    return '[hang] the pipeline did not finish (or built a cyclic record)'
  ref = obs.get('pyref') or {}
  if 'crash' in ref:
    return f"harness: the reference interpreter crashed: {ref['crash']}"
  if obs.get('mutated'):
    return f"[mutation] {obs['mutated']}"
  if obs.get('threads_alive'):
    return f"[threads] {obs['threads_alive']} helper threads are still alive after the iteration ended"
  if obs.get('write_after_close'):
    return '[sink] a sink was written after it had been closed'
  threads = case.get('threads')
  par = bool(threads) and threads > 1        # several workers: order across workers is not promised
  rerr = ref['err']
  if rerr is not None and rerr[0] == 'undefined':
    return None
  if ref.get('lenient'):
    # the reference left out records that could not enter a batched operator: binding only if the run ended silently
    if obs['err'] is not None or rerr is not None or threads:
      return None
    if obs['out'] != ref['out']:
      return (f"[lost] skipping on, the run ended without an error, but the output is not the reference over the elements "
              f"that can be processed: {jdump(obs['out'])[:300]} != {jdump(ref['out'])[:300]}")
    return None
  if rerr is None:
    if obs['err'] is not None:
      return f"the reference evaluates without error, the pipeline raised {obs['err']} ({obs.get('msg')})"
    if (par and _multiset(obs['out']) != _multiset(ref['out'])) or (not par and obs['out'] != ref['out']):
      return f"output differs from the reference: {jdump(obs['out'])[:400]} != {jdump(ref['out'])[:400]}"
    logs_ok = [_multiset(l) for l in obs['logs']] == [_multiset(l) for l in ref['logs']] if par else obs['logs'] == ref['logs']
    if not logs_ok:
      return f"[sink] sink contents differ from the reference: {jdump(obs['logs'])[:300]} != {jdump(ref['logs'])[:300]}"
    if any(c < 1 for c in obs['closed']) or (not threads and any(c != 1 for c in obs['closed'])):
      return f"[sink] close() calls per sink: {obs['closed']}"
    return None
  # the reference ends in an error: the pipeline has to raise too, after exactly the reference's output
  if obs['err'] is None:
    return f'the reference raises {rerr}, the pipeline ended silently with {len(obs["out"])} outputs'
  if rerr[0] == 'call' and not threads and ref['exact']:
    if obs['err'] != 'ValueError' or obs['cause'] != rerr[1]:
      return f"a failing function ({rerr[1]}) must surface as ValueError from it, got {obs['err']} from {obs['cause']}"
  if rerr[0] == 'source' and not threads and ref['exact'] and obs['err'] != rerr[1]:
    return f"the source's {rerr[1]} must surface, got {obs['err']}"
  if ref['exact'] and not threads:
    if obs['out'] != ref['out']:
      return f"outputs before the error differ from the reference: {jdump(obs['out'])[:300]} != {jdump(ref['out'])[:300]}"
    if obs['logs'] != ref['logs']:
      return f"[sink] sink contents before the error differ: {jdump(obs['logs'])[:300]} != {jdump(ref['logs'])[:300]}"
  elif ref['out'] is not None and not threads:
    if obs['out'] != ref['out'][:len(obs['out'])]:
      return 'outputs before the error are not a prefix of the reference output'
  if any(c != 1 for c in obs['closed']) and not threads:
    return f"[sink] close() calls per sink after an error: {obs['closed']}"
  return None


def builder_rule(specs):
  """The builder's documented extra rule: an assign key must not have been produced earlier in the pipeline (no
  accidental overwrite), SELF cannot be mixed with other assign keys."""
  produced = []
  for sp in specs:
    op = sp['op']
    if op == 'apply':
      produced = [jdump(k) for k in _flat(sp['out']) if 'skip' not in k]
    elif op == 'select':
      out = sp.get('out')
      produced = [jdump(k) for k in _flat(out if out is not None and _flat(out) else _in_keys(sp['in']))]
    elif op == 'batch':
      produced = produced or [jdump(SELF)]       # `keys = tuple(self.output_keys) or Key.SELF`, applied
    elif op == 'assign':
      new = [jdump(k) for k in _flat(sp['keys'])]
      if set(new) & set(produced):
        return True
      allk = set(new) | set(produced)
      if jdump(SELF) in allk and len(allk) > 1:
        return True
      produced += [k for k in new if k != jdump(SKIP)]
  return False


def _in_keys(spec):
  if 'kw' in spec:
    return {'many': [k for _, k in spec['kw']]}
  return spec


def _flat(spec):
  ks = [spec['one']] if 'one' in spec else list(spec.get('many', []))
  out = []
  for k in ks:
    if 'dk' in k:
      out += [L.rk_json(n) for n, _ in k['dk']]
    else:
      out.append(k)
  return out


def nontrivial(case, obs):
  return obs.get('build') is None and len(case['specs']) >= 2 and len(case['src']['items']) >= 2


def assign_misaligned(case):
  """an `assign` with batch_size whose incoming column batches do not all have exactly batch_size rows (the last one
  may be shorter): the class of C19's finding F-C19-assign"""
  specs = case['specs']
  for i, sp in enumerate(specs):
    if sp['op'] == 'assign' and sp.get('batch'):
      sub = dict(case, specs=specs[:i], ignore=False)
      try:
        ref = L.reference(sub)
      except Exception:  # pylint: disable=broad-except
        return True
      if ref['err'] is not None or ref['out'] is None:
        return True
      sizes = []
      names, keys = L._norm_in(sp['in'])
      for r in ref['out']:
        try:
          cols = [L.ref_get(L.dec(r), k) for k in keys]
          sizes.append(len(cols[0]) if cols and isinstance(cols[0], (list, tuple)) else -1)
        except Exception:  # pylint: disable=broad-except
          return True
      b = sp['batch']
      if not (all(x == b for x in sizes[:-1]) and (not sizes or 1 <= sizes[-1] <= b)):
        return True
  return False


def finding(case, what):
  if what.startswith('[sink] a sink was written after') and case.get('threads'):
    return 'F-C08-sink-threads'
  if assign_misaligned(case):
    return 'F-C08-assign-rebatch'
  if fnbatch_unreadable(case):
    return 'F-C12-fnbatch-lost'
  return None


def fnbatch_unreadable(case):
  """skipping on, and a record that cannot enter an apply/select with fn_batch_size (inputs unreadable or not equally
  long columns): the input class of finding F-C12-fnbatch-lost"""
  if not case.get('ignore') or not any(sp['op'] in ('apply', 'select') and sp.get('fn_batch') for sp in case['specs']):
    return False
  try:
    return bool(L.reference(case).get('fnbatch_skipped'))
  except Exception:  # pylint: disable=broad-except
    return False


def neighbours(case, rng):
  for i in range(len(case['specs'])):
    c = copy.deepcopy(case); del c['specs'][i]; yield c
  for i in range(len(case['src']['items'])):
    c = copy.deepcopy(case); del c['src']['items'][i]; c['src']['fail'] = []; yield c
  for ig in (False, True):
    c = copy.deepcopy(case); c['ignore'] = ig; yield c
  for _ in range(150):
    shape = rng.choice(['dict', 'int', 'cols'])
    yield mk_case(G.gen_chain(rng, shape, 4), G.make_items(rng, shape, rng.randrange(0, 5)), ignore=rng.random() < 0.3)


def shrink(case, fails0):
  cls = finding(case, fails0(case) or '')
  fails = lambda c: (w := fails0(c)) is not None and finding(c, w) == cls
  cur, changed = case, True
  while changed:
    changed = False
    for i in range(len(cur['specs'])):
      c = copy.deepcopy(cur); del c['specs'][i]
      if c['specs'] and fails(c):
        cur, changed = c, True
        break
    else:
      for i in range(len(cur['src']['items'])):
        if cur['src'].get('fail'):
          break
        c = copy.deepcopy(cur); del c['src']['items'][i]
        if fails(c):
          cur, changed = c, True
          break
  return cur
