"""C14 — remote evaluation is observationally the same as local evaluation.

Real code: ml_metrics._src.chainables.courier_server (PrefetchedCourierServer/CourierServer handlers
`maybe_make`, `shutdown`, `init_generator`), ml_metrics._src.utils.courier_utils (CourierClient.get_result /
call, RemoteObject __call__/__getattr__/__getitem__/__iter__/result_, RemoteIterator, RemoteIteratorQueue)
over ml_metrics._src.chainables.lazy_fns, run over the in-process fake of the courier transport
(harness/fakecourier; 'inline' mode for the sequential cases, 'threaded' for the concurrent ones).
Model: lean/MlModel/Model/Remote.lean (over Model/Lazy.lean); theorems: lean/MlModel/Properties/C14.lean.

A case is a list of client threads, each a list of ops against one server:
  get            client.get_result(prog)                      (+ transport fate / aliveness of the worker)
  chain          handle.<attr|item|call links>.result_()      on the RemoteObject an earlier op returned
  call           client.call(prog, **flags) — the raw reply of the handler (pickled bytes are inspected)
  bg             wait for the server's thread pool (after a return_immediately call)
  shutdown       another party asks the server to shut down (the server keeps answering: the window
                 between the request and the transport going away)
  init_iterator  the prefetch server's `init_generator` method
prog: a C17 expression tree / an exception-instance constructor / a raising function / a generator or a
finished queue with lazy_result_ / iter(H) / next(H) / H.get() / H.get_batch()  (H = handle of an earlier op).

The oracle is local evaluation: the same ops are evaluated a second time in the same process without
server and client (lazy_fns.maybe_make on the program, plain Python on the local objects) from a fresh
lazy_fns state, and the client-visible results / exceptions / call logs are compared.
"""
import copy
import itertools
import os
import re
import threading
import time

from harness import lib_c14 as lib14
from harness import lib_c14_hist as hist
from harness import lib_c14_multi as multi
from harness import lib_c17 as lib
from harness.core import InfraError, err_kind, jdump
from harness.props import c17

PID = 'C14'
TITLE = 'Remote evaluation is observationally the same as local evaluation'
LEAN_MODULES = ['MlModel.Properties.C14', 'MlModel.Properties.C14State', 'MlModel.Properties.C14Opts',
                'MlModel.Properties.C14Multi', 'MlModel.Witness.C14']
TRUSTED = [
    'the real DeepMind courier transport is absent: harness/fakecourier supplies the assumed contract (a call runs '
    'its handler at most once and completes with the handler\'s value, or fails with a status whose code is 4 for '
    'a deadline, or never completes); the Lean model takes the same fates as a parameter',
    'modelled, not verified: cloudpickle + gzip (a structural copy; library callables travel by reference; the '
    'check inspects the real reply bytes for the value of a lazy result), the LazyObject cache bound (1024) is not '
    'reached, CPython generators and the finished IteratorQueue (sequential view) as the objects iterated remotely',
    'the callable library harness/lib_c17.py + harness/lib_c14.py is written twice (Python, Lean); its agreement is '
    'part of the differential tie',
]
ASSUMPTIONS = [
    'WF of C14_eval: the locally returned value is not itself an Exception instance (reproduced as known finding C14-F1 '
    'with a Lean witness); the former second condition (no attribute code == 4 on a raised exception, C14-F2) is repaired '
    'in the code and dropped from the theorems',
    'arguments of handle calls are plain values (a RemoteObject passed as an argument would make the server call '
    'itself; not generated)',
    'messages of exceptions raised inside the C17 callable library are not modelled in Lean (kind only); the '
    'oracle compares them between remote and local evaluation',
    'concurrent clients work on thread-disjoint objects and pure callables (what C14_concurrent covers); a shared '
    'iterator or queue consumed by several threads is the subject of C04/C13',
]
RULE = ('sequential cases (fake courier inline, virtual clock): 3-14 ops drawn from get / chain / call / bg / shutdown / '
        'init_iterator over C17 expression trees (depth<=4, every cache/lazy flag combination, ~10% ill-typed), '
        'exception-instance values, raising programs with random type/message/code, generators and finished queues '
        '(normal end, return value, failure) iterated past their end, chains of 1-3 attr/item/call links on handles '
        '(incl. missing attributes, bad indices, non-callables), transport fates ok/deadline/deadline_after/app_error/'
        'die and a dead worker on ~10% of the ops, a shutdown request at a random position in ~30% of the cases; '
        'concurrent cases (fake courier threaded): 1-3 client threads with thread-disjoint programs (pure callables, own '
        'handles / iterators), and 2-3 threads consuming ONE remote tuple iterator or remote queue (oracle only: each '
        'element exactly once, order per consumer, StopIteration for every call beyond the end).  Coverage is gated on the '
        'reference (local) pass.  '
        'non-trivial = at least two evaluated ops of which one returns a remote handle, propagates an exception or '
        'passes the end of an iterator; distinct = distinct canonical case JSON.  span cases: 1-4 calls whose handlers block '
        'inside the evaluation, every start<finish interleaving, a shutdown request at a random position (model + oracle).  '
        'arr cases: a cache_result_ call with an ndarray / list / dict / ambiguous-== / tuple argument evaluated 2-6 times '
        'through the client (same or re-traced expression), attr/index chains on it and on a remote handle (oracle only).  '
        'hist cases: 4-16 ops on 1-3 MUTABLE remote objects (Counter / Account / Store of harness/lib_c14_state.py): attribute, '
        'property, item reads, calls that re-bind attributes or mutate a nested container, lazy_result_ calls giving a second '
        'handle to the same object, live generators and tuple iterators through RemoteObject.__iter__ / RemoteIterator, whole-object '
        'copies, bound methods, raising members, and (half of the cases) explicit cache_result_ / lazy_result_ flags on any link + '
        'clear_cache; three passes: remote (client + server), the same lazy expressions by lazy_fns.maybe_make in process, ordinary '
        'Python on ordinary objects (+ textbook LRU for cache_result links); model = Model/RemoteState.lean incl. cache_info.  '
        'OPTIONS: the constructor options of CourierClient / CourierServer / PrefetchedCourierServer are read off the working '
        'tree with inspect at run time; every option is sampled at its default and at non-default values (enforced per option); '
        'half of the seq / hist / arr / shared / conc cases run with sampled client and server options.  multi cases: 1-3 clients '
        '(own options each) on one server (own options), 6-17 requests: the hist ops, generators with 0-6 elements ending '
        'normally / with a return value / with a failure iterated through RemoteIterator past their end (small-exhaustive: '
        'iterate_batch_size 2,3,4,7 x 0-6 elements x three ends), handles re-bound to another client (RemoteObject.new with a '
        'client / a ClientConfig), the courier methods clear_cache / cache_info / heartbeat by any client at any position, a '
        'shutdown by a third party or by client.shutdown(); three passes (remote, maybe_make in process, ordinary Python + '
        'textbook LRU); model = Model/RemoteMulti.lean.')

HB = 100.0          # heartbeat threshold of the client (virtual seconds)
KINDS = ['ValueError', 'TypeError', 'KeyError', 'IndexError', 'RuntimeError', 'AssertionError',
         'AttributeError', 'NotImplementedError', 'ZeroDivisionError', 'Exception', 'TimeoutError']

V_int, V_str, V_tup, V_rec, V_fn = c17.V_int, c17.V_str, c17.V_tup, c17.V_rec, c17.V_fn
const, traced, call, getattr_, getitem_ = c17.const, c17.traced, c17.call, c17.getattr_, c17.getitem_


# ----------------------------------------------------------------------------- generation

def P_expr(e): return {'p': 'expr', 'e': e}
def X(kind, msg, code=0): return {'kind': kind, 'msg': msg, 'code': code}


def gen_values(rng, n=None):
  n = rng.randrange(0, 4) if n is None else n
  return [rng.choice([V_int(rng.randrange(0, 6)), V_str(rng.choice('ab')), V_tup([V_int(rng.randrange(3))])])
          for _ in range(n)]


def gen_fin(rng):
  k = rng.random()
  if k < 0.5:
    return {'stop': []}
  if k < 0.75:
    return {'stop': [V_int(rng.randrange(10, 20))]}
  return {'fail': X(rng.choice(KINDS[:8]), rng.choice(['boom', 'gen failed']))}


def gen_env(rng, p=0.1):
  if rng.random() >= p:
    return {}
  k = rng.random()
  if k < 0.15:
    return {'alive0': False}
  fate = rng.choice(['deadline', 'deadline', 'deadline_after', 'app_error', 'die'])
  env = {'fate': fate}
  if fate.startswith('deadline') and rng.random() < 0.4:
    env['alive_err'] = False
  return env


def handle_links(rng, shape):
  """1-3 links suited to the object behind a handle (shape: 'rec' | 'tup' | 'fn' | None)."""
  r = rng
  out = []
  if shape == 'rec':
    k = r.random()
    if k < 0.35:
      out.append({'l': 'attr', 'name': r.choice(['x', 'y', 'z', 'q'])})
    elif k < 0.6:
      out.append({'l': 'item', 'key': r.choice([V_str('x'), V_str('y'), V_str('q'), V_int(0)])})
    else:
      out.append({'l': 'attr', 'name': 'f'})
      out.append({'l': 'call', 'args': [V_int(r.randrange(4)), V_int(r.randrange(4))][:r.choice([2, 2, 2, 1])],
                  'kw': []})
    if r.random() < 0.3:
      out.append({'l': 'item', 'key': V_int(r.choice([0, 1, -1, 5]))})
  elif shape == 'tup':
    out.append({'l': 'item', 'key': r.choice([V_int(0), V_int(1), V_int(-1), V_int(7), V_str('x')])})
    if r.random() < 0.3:
      out.append({'l': 'item', 'key': V_int(0)})
  elif shape == 'fn':
    a, b = V_int(r.randrange(4)), V_int(r.randrange(4))
    k = r.random()
    if k < 0.6:
      out.append({'l': 'call', 'args': [a, b], 'kw': []})
    elif k < 0.8:
      out.append({'l': 'call', 'args': [a], 'kw': [['b', b]]})
    else:
      out.append({'l': 'call', 'args': [a, b, a], 'kw': []})
    if r.random() < 0.4:
      out.append({'l': 'item', 'key': V_int(r.choice([0, 1, 2]))})
  else:
    out.append(r.choice([{'l': 'attr', 'name': 'x'}, {'l': 'item', 'key': V_int(0)},
                         {'l': 'call', 'args': [V_int(1)], 'kw': []}]))
  return out


def lazy_root(rng, g, pure=False):
  """An expression with lazy_result_ at the root and the shape of the object it denotes."""
  r = rng
  k = r.random()
  one, two = const(V_int(1)), const(V_int(2))
  if k < 0.4:
    fs = [('x', const(V_int(r.randrange(5)))), ('y', const(V_str(lib14.MARKER))),
          ('z', const(V_tup([V_int(7), V_int(8)]))), ('f', const(V_fn(r.choice(['add', 'pair', 'mul']))))]
    r.shuffle(fs)
    return call('mkrec', [], fs[:r.randrange(2, 5)], lazy=True), 'rec'
  if k < 0.6:
    return call('pair', [g.int_(1) if not pure else one, const(V_str(lib14.MARKER))], lazy=True), 'tup'
  if k < 0.75:
    return traced(V_fn(r.choice(['add', 'pair', 'mul', 'failneg'])), lazy=True), 'fn'
  if k < 0.85:
    return traced(V_tup([V_int(3), V_str(lib14.MARKER)]), lazy=True), 'tup'
  e = g.root(r.randrange(1, 4), lazy_root=True)
  return e, None


def gen_thread(rng, n_ops, pure=False, faults=True, shutdown_ok=True):
  g = c17.Gen(rng, cache_p=rng.choice([0.0, 0.3]), lazy_p=0.0, counter_p=0.0 if pure else rng.choice([0.0, 0.2]))
  ops = []
  handles = []       # (op index, shape)
  iters = []         # op index of iter_of results, remaining budget
  queues = []
  shut = False
  p_fault = 0.1 if faults else 0.0
  want_shutdown = shutdown_ok and rng.random() < 0.3
  shut_at = rng.randrange(1, n_ops) if want_shutdown and n_ops > 1 else -1
  while len(ops) < n_ops:
    if len(ops) == shut_at and not shut:
      ops.append({'op': 'shutdown'})
      shut = True
      continue
    env = gen_env(rng, p_fault)
    menu = [('expr', 20), ('lazy', 12), ('raise', 7), ('exc_value', 0.4), ('mk_gen', 7), ('mk_queue', 4)]
    if handles:
      menu += [('chain', 20), ('handle_leaf', 5)]
      if any(sh in ('tup', 'fn') for _, sh in handles):
        menu.append(('iter_plain', 3))
    if iters:
      menu.append(('next', 15))
    if queues:
      menu.append(('qop', 8))
    if not pure:
      menu.append(('call', 5))
      if faults:
        menu.append(('bgcall', 1.5))
    what = rng.choices([m for m, _ in menu], [w for _, w in menu])[0]
    if what == 'expr':
      ops.append(dict(op='get', prog=P_expr(g.root(rng.randrange(1, 5))), **env))
    elif what == 'lazy':
      e, shape = lazy_root(rng, g, pure)
      ops.append(dict(op='get', prog=P_expr(e), **env))
      if not env:
        handles.append((len(ops) - 1, shape))
    elif what == 'chain':
      h, shape = rng.choice(handles)
      ops.append(dict(op='chain', h=h, links=handle_links(rng, shape), **env))
    elif what == 'raise':
      prog = {'p': 'raise', 'x': X(rng.choice(KINDS), rng.choice(['boom', 'bad input', '']),
                                    4 if rng.random() < 0.03 else rng.choice([0, 0, 0, 2, 7]))}
      ops.append(dict(op='get', prog=prog, **env))
    elif what == 'exc_value':
      ops.append(dict(op='get', prog={'p': 'exc_value', 'x': X(rng.choice(KINDS), 'as a value')}, **env))
    elif what == 'mk_gen':
      ops.append(dict(op='get', prog={'p': 'mk_gen', 'items': gen_values(rng), 'fin': gen_fin(rng)}))
      ops.append(dict(op='get', prog={'p': 'iter_of', 'h': len(ops) - 1}))
      iters.append(len(ops) - 1)
    elif what == 'iter_plain':
      # iter() of a plain remote object (tuple: a fresh iterator each time; callable: TypeError)
      h, shape = rng.choice([x for x in handles if x[1] in ('tup', 'fn')])
      ops.append(dict(op='get', prog={'p': 'iter_of', 'h': h}, **env))
      if not env and shape == 'tup':
        iters.append(len(ops) - 1)
    elif what == 'handle_leaf':
      # the handle itself as a leaf of a new expression (the server dereferences it)
      h, shape = rng.choice(handles)
      leaf = const({'res': h})
      e = rng.choice([call('ident', [leaf]), call('pair', [leaf, const(V_int(1))], cache=rng.random() < 0.3),
                      getitem_(leaf, rng.choice([V_int(0), V_str('x')])), getattr_(leaf, 'x'),
                      call(leaf, [const(V_int(2)), const(V_int(3))])])
      ops.append(dict(op='get', prog=P_expr(e), **env))
    elif what == 'next':
      ops.append(dict(op='get', prog={'p': 'next', 'h': rng.choice(iters)}, **env))
    elif what == 'mk_queue':
      ops.append(dict(op='get', prog={'p': 'mk_queue', 'buf': gen_values(rng), 'fin': gen_fin(rng)}))
      queues.append(len(ops) - 1)
    elif what == 'qop':
      q = rng.choice(queues)
      fails = 'fail' in ops[q]['prog']['fin']
      which = 'qget' if fails or rng.random() < 0.6 else 'qbatch'     # (get_batch on a failed queue: C15/F7)
      ops.append(dict(op='get', prog={'p': which, 'h': q}, **env))
    elif what == 'call':
      flags = rng.choice([{'return_exception': True, 'compress': True},
                          {'return_exception': True, 'compress': False},
                          {'return_exception': False, 'compress': False},
                          {'return_exception': True, 'compress': True, 'return_none': True}])
      e = rng.choice([lazy_root(rng, g)[0], g.root(2), g.root(3)])
      ops.append(dict(op='call', prog=P_expr(e), flags=flags))
    elif what == 'bgcall':
      ops.append(dict(op='call', prog=P_expr(call('counter', [])),
                      flags={'return_exception': True, 'compress': True, 'return_immediately': True}))
      ops.append({'op': 'bg'})
    if shut and rng.random() < 0.25:
      prog = rng.choice([P_expr(traced(V_tup([V_int(1), V_int(2)]))), {'p': 'raise', 'x': X('ValueError', 'boom')}])
      ops.append({'op': 'init_iterator', 'prog': prog})
  # iterate every iterator past its end at least sometimes
  for it in iters:
    if rng.random() < 0.5:
      for _ in range(rng.randrange(2, 6)):
        ops.append({'op': 'get', 'prog': {'p': 'next', 'h': it}})
  return ops


def fixed_cases():
  one, two = const(V_int(1)), const(V_int(2))
  out = []
  rec = call('mkrec', [], [('x', one), ('y', const(V_str(lib14.MARKER))), ('f', const(V_fn('add'))),
                           ('z', const(V_tup([V_int(7), V_int(8)]))), ('_u', const(V_tup([V_int(5), V_int(6)])))], lazy=True)

  def seq(ops, fn_max=128):
    return {'kind': 'seq', 'fn_max': fn_max, 'threads': [ops]}
  # values, exceptions, handle + every link kind
  out.append(seq([
      {'op': 'get', 'prog': P_expr(call('add', [one, call('mul', [two], [('b', const(V_int(3)))])], cache=True))},
      {'op': 'get', 'prog': P_expr(call('failneg', [const(V_int(-1))]))},
      {'op': 'get', 'prog': P_expr(rec)},
      {'op': 'chain', 'h': 2, 'links': [{'l': 'attr', 'name': 'x'}]},
      {'op': 'chain', 'h': 2, 'links': [{'l': 'item', 'key': V_str('y')}]},
      {'op': 'chain', 'h': 2, 'links': [{'l': 'attr', 'name': 'f'}, {'l': 'call', 'args': [V_int(3), V_int(4)], 'kw': []}]},
      {'op': 'chain', 'h': 2, 'links': [{'l': 'attr', 'name': 'z'}, {'l': 'item', 'key': V_int(-1)}]},
      {'op': 'chain', 'h': 2, 'links': [{'l': 'attr', 'name': 'q'}]},
      {'op': 'chain', 'h': 2, 'links': [{'l': 'attr', 'name': 'x'}, {'l': 'call', 'args': [], 'kw': []}]},
      {'op': 'chain', 'h': 2, 'links': []},
      # single-underscore names are ordinary attributes of the remote object (seeded change C14-m7); an absent one fails remotely
      {'op': 'chain', 'h': 2, 'links': [{'l': 'attr', 'name': '_u'}]},
      {'op': 'chain', 'h': 2, 'links': [{'l': 'attr', 'name': '_u'}, {'l': 'item', 'key': V_int(-1)}]},
      {'op': 'chain', 'h': 2, 'links': [{'l': 'attr', 'name': '_w'}]},
      {'op': 'call', 'prog': P_expr(rec), 'flags': {'return_exception': True, 'compress': True}},
  ]))
  # the two WF exclusions of C14_eval (known findings)
  out.append(seq([{'op': 'get', 'prog': {'p': 'exc_value', 'x': X('ValueError', 'as a value')}}]))
  out.append(seq([{'op': 'get', 'prog': {'p': 'raise', 'x': X('RuntimeError', 'boom', 4)}}]))
  out.append(seq([{'op': 'get', 'prog': {'p': 'raise', 'x': X('KeyError', 'k', 7)}}]))
  # iterators: normal end, return value, failure; next after exhaustion; iter() of plain objects
  for fin in ({'stop': []}, {'stop': [V_int(42)]}, {'fail': X('ValueError', 'gen failed')}):
    for n in (0, 2):
      ops = [{'op': 'get', 'prog': {'p': 'mk_gen', 'items': [V_int(i) for i in range(n)], 'fin': fin}},
             {'op': 'get', 'prog': {'p': 'iter_of', 'h': 0}}]
      ops += [{'op': 'get', 'prog': {'p': 'next', 'h': 1}} for _ in range(n + 3)]
      out.append(seq(ops))
      ops = [{'op': 'get', 'prog': {'p': 'mk_queue', 'buf': [V_int(i) for i in range(n)], 'fin': fin}}]
      ops += [{'op': 'get', 'prog': {'p': 'qget', 'h': 0}} for _ in range(n + 2)]
      out.append(seq(ops))
      if 'fail' not in fin:
        ops = [{'op': 'get', 'prog': {'p': 'mk_queue', 'buf': [V_int(i) for i in range(n)], 'fin': fin}}]
        ops += [{'op': 'get', 'prog': {'p': 'qbatch', 'h': 0}} for _ in range(3)]
        out.append(seq(ops))
  out.append(seq([
      {'op': 'get', 'prog': P_expr(traced(V_tup([V_int(5), V_int(6)]), lazy=True))},
      {'op': 'get', 'prog': {'p': 'iter_of', 'h': 0}}, {'op': 'get', 'prog': {'p': 'iter_of', 'h': 0}},
      {'op': 'get', 'prog': {'p': 'next', 'h': 1}}, {'op': 'get', 'prog': {'p': 'next', 'h': 2}},
      {'op': 'get', 'prog': {'p': 'next', 'h': 1}}, {'op': 'get', 'prog': {'p': 'next', 'h': 1}},
      {'op': 'get', 'prog': {'p': 'next', 'h': 1}}, {'op': 'get', 'prog': {'p': 'next', 'h': 0}},
      {'op': 'get', 'prog': P_expr(traced(V_int(5), lazy=True))}, {'op': 'get', 'prog': {'p': 'iter_of', 'h': 9}},
  ]))
  # two handles of one generator share it
  out.append(seq([
      {'op': 'get', 'prog': {'p': 'mk_gen', 'items': [V_int(1), V_int(2), V_int(3)], 'fin': {'stop': []}}},
      {'op': 'get', 'prog': {'p': 'iter_of', 'h': 0}}, {'op': 'get', 'prog': {'p': 'iter_of', 'h': 0}},
      {'op': 'get', 'prog': {'p': 'next', 'h': 1}}, {'op': 'get', 'prog': {'p': 'next', 'h': 2}},
      {'op': 'get', 'prog': {'p': 'next', 'h': 1}}, {'op': 'get', 'prog': {'p': 'next', 'h': 2}},
  ]))
  # shutdown: failing calls answer TimeoutError, succeeding ones their value, the end of an iterator is a timeout,
  # iterator initialisation is refused
  out.append(seq([
      {'op': 'get', 'prog': {'p': 'mk_gen', 'items': [V_int(1)], 'fin': {'stop': []}}},
      {'op': 'get', 'prog': {'p': 'iter_of', 'h': 0}},
      {'op': 'init_iterator', 'prog': P_expr(traced(V_tup([V_int(1), V_int(2)])))},
      {'op': 'shutdown'},
      {'op': 'get', 'prog': P_expr(call('add', [one, two]))},
      {'op': 'get', 'prog': P_expr(call('failneg', [const(V_int(-1))]))},
      {'op': 'get', 'prog': {'p': 'next', 'h': 1}}, {'op': 'get', 'prog': {'p': 'next', 'h': 1}},
      {'op': 'init_iterator', 'prog': P_expr(traced(V_tup([V_int(1), V_int(2)])))},
      {'op': 'call', 'prog': P_expr(call('failneg', [const(V_int(-1))])), 'flags': {'return_exception': False}},
      {'op': 'get', 'prog': {'p': 'raise', 'x': X('KeyError', 'k')}},
  ]))
  # every fate, with the worker alive / not alive at the time of the error; a dead worker
  for env in ({'fate': 'deadline'}, {'fate': 'deadline', 'alive_err': False}, {'fate': 'deadline_after'},
              {'fate': 'deadline_after', 'alive_err': False}, {'fate': 'app_error'}, {'fate': 'die'},
              {'alive0': False}):
    out.append(seq([
        {'op': 'get', 'prog': P_expr(call('counter', []))},
        dict(op='get', prog=P_expr(call('counter', [])), **env),
        {'op': 'get', 'prog': P_expr(call('counter', []))},
    ]))
  # handler flags
  for flags in ({'return_exception': True, 'compress': True, 'return_none': True},
                {'return_exception': False, 'compress': False}, {'return_exception': True, 'compress': False}):
    out.append(seq([
        {'op': 'call', 'prog': P_expr(call('pair', [one, call('counter', [])])), 'flags': flags},
        {'op': 'call', 'prog': P_expr(call('failneg', [const(V_int(-1))])), 'flags': flags},
        {'op': 'call', 'prog': P_expr(call('counter', [])),
         'flags': {'return_exception': True, 'compress': True, 'return_immediately': True}},
        {'op': 'bg'},
        {'op': 'get', 'prog': P_expr(call('counter', []))},
    ]))
  # concurrent clients on disjoint objects
  th = lambda i: [
      {'op': 'get', 'prog': P_expr(call('mkrec', [], [('x', const(V_int(i))), ('f', const(V_fn('add')))], lazy=True))},
      {'op': 'chain', 'h': 0, 'links': [{'l': 'attr', 'name': 'x'}]},
      {'op': 'chain', 'h': 0, 'links': [{'l': 'attr', 'name': 'f'}, {'l': 'call', 'args': [V_int(i), V_int(1)], 'kw': []}]},
      {'op': 'get', 'prog': {'p': 'mk_gen', 'items': [V_int(10 * i + j) for j in range(3)], 'fin': {'stop': []}}},
      {'op': 'get', 'prog': {'p': 'iter_of', 'h': 3}},
  ] + [{'op': 'get', 'prog': {'p': 'next', 'h': 4}} for _ in range(5)]
  out.append({'kind': 'conc', 'fn_max': 128, 'threads': [th(1), th(2), th(3)]})
  return out


def gen_span_case(rng):
  """1-4 calls whose handlers are in flight (blocked inside the evaluation) while other steps happen: every
  interleaving of start_i < finish_i, with a shutdown request at a random position (or none)."""
  n = rng.randrange(1, 5)
  progs = []
  for i in range(n):
    if rng.random() < 0.6:
      progs.append({'p': 'raise', 'x': X(rng.choice(KINDS[:8]), rng.choice(['boom', 'torn down']))})
    else:
      progs.append(P_expr(traced(rng.choice([V_int(rng.randrange(9)), V_str('ab'), V_tup([V_int(1), V_int(2)])]))))
  tokens = [('start', i) for i in range(n)] + [('finish', i) for i in range(n)]
  while True:
    rng.shuffle(tokens)
    if all(tokens.index(('start', i)) < tokens.index(('finish', i)) for i in range(n)):
      break
  steps = [{'s': 'start', 'id': i, 'prog': progs[i]} if k == 'start' else {'s': 'finish', 'id': i} for k, i in tokens]
  if rng.random() < 0.8:
    steps.insert(rng.randrange(0, len(steps) + 1), {'s': 'shutdown'})
  return {'kind': 'span', 'fn_max': 128, 'steps': steps}


def gen_arr_case(rng):
  """A cached lazy call (`cache_result_=True`) whose argument is unhashable and/or has an ambiguous `==`,
  evaluated through the client several times, with attribute/index chains on the cached object."""
  kind = rng.choice(['ndarray', 'ndarray', 'ndarray2d', 'list', 'dict', 'amb', 'tuple'])
  steps = []
  for _ in range(rng.randrange(2, 7)):
    k = rng.random()
    if k < 0.45:
      steps.append(['call', rng.randrange(1, 4)])
    elif k < 0.65:
      steps.append(['attr', rng.choice([0, -1, 1, 7])])
    elif k < 0.8:
      steps.append(['hcall', rng.randrange(1, 4)])
    elif k < 0.92:
      steps.append(['hattr', rng.choice([0, -1, 7])])
    else:
      steps.append(['clear'])
  return {'kind': 'arr', 'fn_max': 128, 'argkind': kind, 'weights': [rng.randrange(1, 5) for _ in range(3)],
          'reuse': rng.random() < 0.8, 'steps': steps}


def fixed_span_arr_cases():
  boom = {'p': 'raise', 'x': X('ValueError', 'boom')}
  val = P_expr(traced(V_int(7)))
  out = []
  # started before the shutdown request, finished after it: failing -> TimeoutError, succeeding -> value
  out.append({'kind': 'span', 'fn_max': 128, 'steps': [
      {'s': 'start', 'id': 0, 'prog': boom}, {'s': 'start', 'id': 1, 'prog': val}, {'s': 'start', 'id': 2, 'prog': boom},
      {'s': 'shutdown'}, {'s': 'finish', 'id': 2}, {'s': 'finish', 'id': 1}, {'s': 'finish', 'id': 0}]})
  # finished before / started after the request; no request at all
  out.append({'kind': 'span', 'fn_max': 128, 'steps': [
      {'s': 'start', 'id': 0, 'prog': boom}, {'s': 'finish', 'id': 0}, {'s': 'shutdown'},
      {'s': 'start', 'id': 1, 'prog': boom}, {'s': 'finish', 'id': 1}]})
  out.append({'kind': 'span', 'fn_max': 128, 'steps': [
      {'s': 'start', 'id': 0, 'prog': boom}, {'s': 'start', 'id': 1, 'prog': val}, {'s': 'finish', 'id': 1},
      {'s': 'finish', 'id': 0}]})
  for kind in ('ndarray', 'ndarray2d', 'list', 'dict', 'amb', 'tuple'):
    for reuse in (True, False):
      out.append({'kind': 'arr', 'fn_max': 128, 'argkind': kind, 'weights': [1, 2, 3], 'reuse': reuse,
                  'steps': [['call', 2], ['call', 2], ['attr', -1], ['call', 3], ['hcall', 2], ['hattr', 0],
                            ['clear'], ['call', 2], ['attr', 7]]})
  return out


_SIG = {}


def _sig():
  """constructor options read off the working tree (inspect), once per process"""
  if not _SIG:
    E = _setup()
    _SIG.update(multi.signatures(E['cu'], E['cs']))
  return _SIG


def with_options(rng, case, p=0.5):
  """the same case run by a client / on a server built with sampled constructor options"""
  if rng.random() < p:
    sig = _sig()
    case = dict(case, client_opts=dict(multi.sample_opts(rng, sig, 'CourierClient'), heartbeat_threshold_secs=HB))
    cls = rng.choice(['CourierServer', 'PrefetchedCourierServer'])
    if any(op.get('op') == 'init_iterator' for t in case.get('threads', []) for op in t):
      cls = 'PrefetchedCourierServer'
    case['server'] = {'cls': cls, 'opts': multi.sample_opts(rng, sig, cls)}
  return case


def gen_cases(ctx):
  for c in _gen_cases(ctx):
    yield c


def multi_cases(ctx):
  rng = ctx.rng
  sig = _sig()
  yield from multi.fixed_multi_cases(sig)
  fins = ({'stop': []}, {'stop': [{'i': 77}]}, {'fail': {'kind': 'ValueError', 'msg': 'boom'}})
  for b in (2, 3, 4, 7):
    for n in range(0, 7):
      for fin in fins:
        yield multi.gen_multi_case(rng, sig, n_ops=rng.randrange(4, 10), force={'batch': b, 'n': n, 'fin': fin})
  for i in range(350 if ctx.quick else 5000):
    yield multi.gen_multi_case(rng, sig)


def _gen_cases(ctx):
  rng = ctx.rng
  yield from ctx.corpus()
  yield from fixed_cases()
  yield from multi_cases(ctx)
  n_seq = 3500 if ctx.quick else 40000
  for i in range(n_seq):
    yield with_options(rng, {'kind': 'seq', 'fn_max': rng.choice([128, 128, 0, 1, 2]),
                             'threads': [gen_thread(rng, rng.randrange(3, 15))]})
  for i in range(100 if ctx.quick else 1500):
    n = rng.randrange(0, 9)
    yield with_options(rng, {'kind': 'shared', 'fn_max': 128, 'source': rng.choice(['tuple', 'queue']),
                             'items': list(range(100, 100 + n)), 'n_threads': rng.randrange(2, 4),
                             'per_thread': rng.randrange(1, 6)})
  yield from fixed_span_arr_cases()
  for i in range(60 if ctx.quick else 800):
    yield gen_span_case(rng)
  for i in range(150 if ctx.quick else 2000):
    yield with_options(rng, gen_arr_case(rng))
  for name, ops, flags in hist.fixed_hist_ops():
    for fn_max in ((128, 0, 1) if flags else (128,)):
      yield {'kind': 'hist', 'fn_max': fn_max, 'ops': ops}
  for i in range(700 if ctx.quick else 8000):
    flags = i % 2 == 1
    yield with_options(rng, {'kind': 'hist', 'fn_max': rng.choice([128, 128, 0, 1, 2]) if flags else 128,
                             'ops': hist.gen_hist_ops(rng, rng.randrange(4, 17), flags=flags)})
  n_conc = 250 if ctx.quick else 3000
  for i in range(n_conc):
    yield with_options(rng, {'kind': 'conc', 'fn_max': 128,
                             'threads': [gen_thread(rng, rng.randrange(3, 10), pure=True, faults=False, shutdown_ok=False)
                                         for _ in range(rng.randrange(1, 4))]})


# ----------------------------------------------------------------------------- real code

_ENV = {}
_N = itertools.count()


def _setup():
  if _ENV:
    return _ENV
  import logging
  import signal
  from harness import fakecourier
  fakecourier.install(mode='inline')
  logging.disable(logging.CRITICAL)          # the server logs every captured exception with its traceback
  from ml_metrics._src.chainables import courier_server, lazy_fns
  from ml_metrics._src.utils import courier_utils
  clock = fakecourier.VirtualClock(start=1e6, spin_tick=0.5)
  fakecourier.patch_time(clock)
  _ENV.update(fc=fakecourier, cs=courier_server, lf=lazy_fns, cu=courier_utils, clock=clock, signal=signal)
  return _ENV


def c14_err(ex):
  lf = _ENV['lf']
  if isinstance(ex, lf.LazyObjectMissingError):
    return 'LazyObjectMissingError'
  return err_kind(ex)


_STATUS = re.compile(r'^([\w.]+)\.(\w+): (.*)$', re.S)


class Side:
  """Shared encoding for the two passes (remote / local)."""

  def __init__(self):
    E = _ENV
    self.lf, self.cu = E['lf'], E['cu']

  def is_handle(self, x):
    lf = self.lf
    return isinstance(x, lf.LazyObject) and not isinstance(x, lf.LazyFn) and x.cache_result

  def enc_val(self, x):
    return c17.enc(x, self.is_handle, lambda h: h.id)

  def enc_exc(self, e):
    kind = c14_err(e)
    code = getattr(e, 'code', 0)
    code = code if isinstance(code, int) and not isinstance(code, bool) else 0
    if isinstance(e, StopIteration):
      return {'kind': kind, 'msg': '', 'code': code, 'args': [self.enc_val(a) for a in e.args]}
    msg = re.sub(r'id=\d+', 'id=#', str(e.args[0])) if e.args else ''
    if type(e).__name__ == 'StatusNotOk':
      msg = {4: 'Deadline Exceeded', 2: 'application error'}.get(code, getattr(e, 'message', msg))
    for pre in ('Try longer timeout on', 'Failed to connect to worker', 'Worker disconnected'):
      if msg.startswith(pre):
        msg = pre
    return {'kind': kind, 'msg': msg, 'code': code, 'args': []}

  def enc_pval(self, x):
    if isinstance(x, BaseException):
      return {'exc': self.enc_exc(x)}
    if isinstance(x, list):
      return {'list': [self.enc_val(y) for y in x]}
    return {'v': self.enc_val(x)}

  def dec(self, v, results):
    """JSON value -> Python value; {'res': k} = the LazyObject handle op k returned."""
    if v is None:
      return None
    if 'i' in v:
      return v['i']
    if 's' in v:
      return v['s']
    if 'f' in v:
      return lib.LIB[v['f']]
    if 't' in v:
      return tuple(self.dec(x, results) for x in v['t'])
    if 'r' in v:
      return lib.Rec(**{k: self.dec(x, results) for k, x in v['r']})
    if 'res' in v:
      k = v['res']
      x = results[k] if k < len(results) else None
      x = x.value if isinstance(x, self.cu.RemoteObject) else x
      if not self.is_handle(x):
        raise _SkipOp()          # the op referred to did not return a handle
      return x
    raise ValueError(v)

  def fin_args(self, fin, results):
    if 'fail' in fin:
      x = fin['fail']
      return None, (x['kind'], x.get('msg', ''), x.get('code', 0))
    return [self.dec(v, results) for v in fin['stop']], None

  def build(self, prog, results):
    """The lazy program a client sends (built through the public tracing API)."""
    lf = self.lf
    p = prog['p']
    if p == 'expr':
      side = self

      class O:
        def dec(self, v):
          return side.dec(v, results)
      return c17.build(prog['e'], O())
    if p == 'exc_value':
      x = prog['x']
      if x.get('code', 0):
        return lf.trace(lib14.make_exc)(x['kind'], x['msg'], x['code'])
      return lf.trace(lib14.EXC[x['kind']])(x['msg'])
    if p == 'raise':
      x = prog['x']
      return lf.trace(lib14.raise_)(x['kind'], x['msg'], x.get('code', 0))
    if p in ('mk_gen', 'mk_queue'):
      items = [self.dec(v, results) for v in prog['items' if p == 'mk_gen' else 'buf']]
      stop, fail = self.fin_args(prog['fin'], results)
      fn = lib14.gen if p == 'mk_gen' else lib14.make_queue
      return lf.trace(fn)(items, stop, fail, lazy_result_=True)
    raise ValueError(p)


class _SkipOp(BaseException):
  pass


def outcome(thunk, enc_ok):
  try:
    r = thunk()
  except Exception as e:  # pylint: disable=broad-except
    return None, e
  return r, None


class Remote(Side):
  """One server, one client; runs op lists through the public client API."""

  def __init__(self, case, mode):
    super().__init__()
    E = _ENV
    fc, cs, cu, clock = E['fc'], E['cs'], E['cu'], E['clock']
    self.fc, self.clock = fc, clock
    clock.spin_tick = 0.5 if mode == 'inline' else 0.0
    fc.reset(mode=mode, time_fn=clock.time)
    self.name = f'c14_{os.getpid()}_{next(_N)}'
    sig = E['signal']
    saved = [(s, sig.getsignal(s)) for s in (sig.SIGINT, sig.SIGTERM, sig.SIGABRT)]
    srv = (case or {}).get('server') or {'cls': 'PrefetchedCourierServer', 'opts': {}}
    try:
      self.server = getattr(cs, srv['cls'])(self.name, **srv['opts'])
    finally:
      if threading.current_thread() is threading.main_thread():
        for s, h in saved:
          sig.signal(s, h)
    self.server.build_server().Start()          # serve, without the thread that tears the transport down
    self.client = cu.CourierClient(self.name, **dict({'heartbeat_threshold_secs': HB}, **(case or {}).get('client_opts', {})))
    self.plan = {'fate': 'ok', 'advance': 0.0}
    fc.set_fault_plan(self.name, self._fate)
    self.bg_log0, self.bg_n = None, 0
    self.lock = threading.Lock()

  def _fate(self, i, method):
    if method not in ('maybe_make',):
      return 'ok'
    f, self.plan['fate'] = self.plan['fate'], 'ok'
    adv, self.plan['advance'] = self.plan['advance'], 0.0
    if adv:
      self.clock.advance(adv)
    return f

  def with_env(self, op, thunk):
    alive0, fate = op.get('alive0', True), op.get('fate', 'ok')
    if not alive0:
      self.fc.kill(self.name)
      self.clock.advance(HB + 1)
    else:
      self.plan['fate'] = fate
    if alive0 and not op.get('alive_err', True):
      self.plan['advance'] = HB + 1
    try:
      return thunk()
    finally:
      self.plan['fate'], self.plan['advance'] = 'ok', 0.0
      if not alive0 or fate == 'die':
        self.fc.revive(self.name)

  def close(self):
    try:
      self.fc.world().servers.get(self.name) and self.fc.Client(self.name).stop_prefetch()
    except Exception:  # pylint: disable=broad-except
      pass
    try:
      self.server.build_server().Stop()
    except Exception:  # pylint: disable=broad-except
      pass

  def enc_res(self, r):
    cu = self.cu
    if isinstance(r, cu.RemoteObject):
      return {'remote': r.id}
    if isinstance(r, cu.RemoteIterator):
      return {'remote': r.iterator.id}
    return self.enc_pval(r)

  def run_ops(self, ops, track_calls=True):
    cu, lf = self.cu, self.lf
    results, obs = [], []
    for op in ops:
      n0 = len(lib.LOG)
      ob, res = {'skip': True}, None
      kind = op['op']
      if kind in ('get', 'chain'):
        thunk = None
        if kind == 'chain':
          h = results[op['h']] if op['h'] < len(results) else None
          if isinstance(h, cu.RemoteObject):
            def thunk(h=h, op=op):
              x = h
              for l in op['links']:
                if l['l'] == 'attr':
                  x = getattr(x, l['name'])
                elif l['l'] == 'item':
                  x = x[self.dec(l['key'], results)]
                else:
                  x = x(*[self.dec(a, results) for a in l['args']],
                        **{k: self.dec(a, results) for k, a in l['kw']})
              return x.result_()
        else:
          prog = op['prog']
          p = prog['p']
          if p in ('iter_of', 'next', 'qget', 'qbatch'):
            h = results[prog['h']] if prog['h'] < len(results) else None
            if p == 'iter_of' and isinstance(h, cu.RemoteObject):
              thunk = lambda h=h: iter(h)
            elif p == 'next' and isinstance(h, (cu.RemoteObject, cu.RemoteIterator)):
              it = h if isinstance(h, cu.RemoteIterator) else cu.RemoteIterator(h)
              thunk = lambda it=it: next(it)
            elif p == 'qget' and isinstance(h, cu.RemoteObject):
              thunk = lambda h=h: cu.RemoteIteratorQueue(h, name='c14').get()
            elif p == 'qbatch' and isinstance(h, cu.RemoteObject):
              thunk = lambda h=h: cu.RemoteIteratorQueue(h, name='c14').get_batch()
          else:
            def thunk(prog=prog):
              return self.client.get_result(self.build(prog, results))
        if thunk is not None:
          try:
            r = self.with_env(op, thunk)
            ob, res = {'ok': self.enc_res(r)}, r
          except _SkipOp:
            pass
          except Exception as e:  # pylint: disable=broad-except
            ob = {'err': self.enc_exc(e)}
      elif kind == 'call':
        fl = op['flags']
        try:
          lazy = self.build(op['prog'], results)
          if fl.get('return_immediately'):
            with self.lock:
              if self.bg_log0 is None:
                self.bg_log0 = len(lib.LOG)
              self.bg_n += 1
          raw = self.client.call(lazy, **fl).result()
          if isinstance(raw, bytes):
            import gzip
            plain = gzip.decompress(raw) if fl.get('compress') else raw
            val = lf.pickler.loads(raw, compress=bool(fl.get('compress')))
            ob = {'payload': self.enc_pval(val), 'gz': bool(fl.get('compress')),
                  'leak': lib14.MARKER.encode() in plain}
            if self.is_handle(val):
              res = cu.RemoteObject.new(val, worker=self.client)
          else:
            ob = {'payload': self.enc_pval(raw), 'gz': False, 'leak': False}
        except _SkipOp:
          pass
        except Exception as e:  # pylint: disable=broad-except
          m = _STATUS.match(getattr(e, 'message', '') or '')
          if type(e).__name__ == 'StatusNotOk' and m:
            ob = {'raised': {'kind': {'TimeoutError': 'TimeoutError'}.get(m.group(2), m.group(2)),
                             'msg': m.group(3)}}
          else:
            ob = {'raised': {'kind': c14_err(e), 'msg': str(e)}}
      elif kind == 'bg':
        t0 = time.time()
        while self.bg_log0 is not None and len(lib.LOG) < self.bg_log0 + self.bg_n and time.time() - t0 < 10:
          time.sleep(0.001)
        ob = {'bg': True}
        if self.bg_log0 is not None:
          n0 = self.bg_log0
        self.bg_log0, self.bg_n = None, 0
      elif kind == 'shutdown':
        self.fc.Client(self.name).shutdown()
        ob = {'shutdown': True}
      elif kind == 'init_iterator':
        try:
          lazy = self.build(op['prog'], results)
          r = self.client.call(lazy, courier_method='init_generator').result()
          if isinstance(r, Exception):
            ob = {'refused': self.enc_exc(r)}
          else:
            ob = {'accepted': True}
        except Exception as e:  # pylint: disable=broad-except
          ob = {'raised': True}
      results.append(res)
      calls = lib.LOG[n0:] if track_calls else []
      if kind == 'call' and op['flags'].get('return_immediately'):
        calls = []
      ob['calls'] = calls
      obs.append(ob)
    return obs


class Local(Side):
  """The same ops evaluated without server and client."""

  def obj_of(self, h):
    return self.lf.maybe_make(h) if self.is_handle(h) else h

  def run_ops(self, ops, track_calls=True):
    lf = self.lf
    results, obs = [], []
    pending = []
    for op in ops:
      n0 = len(lib.LOG)
      ob, res = {'skip': True}, None
      kind = op['op']
      evaluated = op.get('alive0', True) and op.get('fate', 'ok') in ('ok', 'deadline_after')
      dropped = op.get('fate', 'ok') == 'deadline_after' and op.get('alive0', True)
      if kind in ('get', 'chain'):
        thunk = None
        if kind == 'chain':
          h = results[op['h']] if op['h'] < len(results) else None
          if self.is_handle(h):
            def apply(x, op=op):
              for l in op['links']:
                if l['l'] == 'attr':
                  x = getattr(x, l['name'])
                elif l['l'] == 'item':
                  x = x[self.dec(l['key'], results)]
                else:
                  x = x(*[self.dec(a, results) for a in l['args']],
                        **{k: self.dec(a, results) for k, a in l['kw']})
              return x
            if evaluated:
              # (1) the chain on the local *object* by plain Python (state of the library restored afterwards)
              n_log, cnt = len(lib.LOG), lib.STATE['counter']
              try:
                py = {'ok': self.enc_local(apply(self.obj_of(h)))}
              except Exception as e:  # pylint: disable=broad-except
                py = {'err': self.enc_exc(e)}
              del lib.LOG[n_log:]
              lib.STATE['counter'] = cnt
            # (2) the same chain traced on the local handle and made locally
            thunk = lambda h=h: lf.maybe_make(apply(h))
        else:
          prog = op['prog']
          p = prog['p']
          if p in ('iter_of', 'next', 'qget', 'qbatch'):
            h = results[prog['h']] if prog['h'] < len(results) else None
            is_it = isinstance(h, _LocalIter)
            if p == 'iter_of' and self.is_handle(h):
              thunk = lambda h=h: _LocalIter(iter(self.obj_of(h)))
            elif p == 'next' and (self.is_handle(h) or is_it):
              thunk = (lambda h=h: next(h.it)) if is_it else (lambda h=h: next(self.obj_of(h)))
            elif p == 'qget' and self.is_handle(h):
              thunk = lambda h=h: self.obj_of(h).get()
            elif p == 'qbatch' and self.is_handle(h):
              thunk = lambda h=h: self.obj_of(h).get_batch()
          else:
            try:
              lazy = self.build(prog, results)           # tracing happens on the client, before any call
              thunk = lambda lazy=lazy: lf.maybe_make(lazy)
            except _SkipOp:
              pass
            except Exception as e:  # pylint: disable=broad-except
              ob = {'err': self.enc_exc(e), 'trace': True}
        if thunk is not None:
          if not evaluated:
            ob = {'noeval': True}
          else:
            try:
              r = thunk()
              ob, res = {'ok': self.enc_local(r)}, r
            except Exception as e:  # pylint: disable=broad-except
              ob = {'err': self.enc_exc(e)}
            if kind == 'chain':
              ob['py'] = py
            if dropped:
              ob, res = {'dropped': True}, None
      elif kind == 'call':
        fl = op['flags']
        try:
          lazy = self.build(op['prog'], results)
          thunk = lambda lazy=lazy: lf.maybe_make(lazy)
        except _SkipOp:
          thunk = None
        except Exception as e:  # pylint: disable=broad-except
          thunk = None
          ob = {'err': self.enc_exc(e), 'trace': True}
        if thunk is None:
          pass
        elif fl.get('return_immediately'):
          pending.append(thunk)
          ob = {'payload': {'v': None}}
        else:
          try:
            r = thunk()
            ob = {'payload': {'v': None} if fl.get('return_none') else self.enc_pval(r)}
            if self.is_handle(r):
              res = r
          except Exception as e:  # pylint: disable=broad-except
            ob = {'err': self.enc_exc(e)}
      elif kind == 'bg':
        for t in pending:
          try:
            t()
          except Exception:  # pylint: disable=broad-except
            pass
        pending = []
        ob = {'bg': True}
      elif kind == 'shutdown':
        ob = {'shutdown': True}
      elif kind == 'init_iterator':
        ob = {'init': True}
      results.append(res)
      ob['calls'] = lib.LOG[n0:] if track_calls else []
      obs.append(ob)
    return obs

  def enc_local(self, r):
    if isinstance(r, _LocalIter):
      return {'remote': id(r)}
    if self.is_handle(r):
      return {'remote': r.id}
    return self.enc_pval(r)


class _LocalIter:
  def __init__(self, it):
    self.it = it


def renumber(obs):
  """Handle ids -> index of first appearance in the observation stream (per thread)."""
  seen = {}

  def go(v):
    if isinstance(v, dict):
      if 'h' in v and len(v) == 1:
        return {'h': seen.setdefault(v['h'], len(seen))}
      if 'remote' in v and len(v) == 1:
        return {'remote': seen.setdefault(v['remote'], len(seen))}
      return {k: go(x) for k, x in v.items()}
    if isinstance(v, list):
      return [go(x) for x in v]
    return v
  out = []
  for ob in obs:
    new = go({k: v for k, v in ob.items() if k not in ('calls', 'py')})
    new['calls'] = ob['calls']
    if 'py' in ob:
      new['py'] = ob['py']        # plain values (a chain has no lazy_result_ flag)
    out.append(new)
  return out


def run_shared(case):
  """Several client threads consume ONE remote iterator / remote queue."""
  E = _setup()
  lf, cu = E['lf'], E['cu']
  lf.clear_cache()
  lf.clear_object()
  lib.reset()
  rem = Remote(case, 'threaded')
  try:
    items = tuple(case['items'])
    try:
      if case['source'] == 'tuple':
        h = rem.client.get_result(lf.trace(items, lazy_result=True))
        it = iter(h)
        step = lambda: next(it)
      else:
        h = rem.client.get_result(lf.trace(lib14.make_queue)(list(items), None, None, lazy_result_=True))
        q = cu.RemoteIteratorQueue(h, name='c14')
        step = q.get
    except Exception as e:  # pylint: disable=broad-except
      return {'shared': [], 'hung': False, 'setup_error': f'{type(e).__name__}: {e}'[:200], 'remote': [], 'local': []}
    res = [[] for _ in range(case['n_threads'])]

    def work(i):
      for _ in range(case['per_thread']):
        try:
          v = step()
          res[i].append({'ok': v if isinstance(v, int) and not isinstance(v, bool) else repr(v)[:40]})
        except Exception as e:  # pylint: disable=broad-except
          res[i].append({'err': c14_err(e)})
    ts = [threading.Thread(target=work, args=(i,), daemon=True) for i in range(len(res))]
    for t in ts:
      t.start()
    for t in ts:
      t.join(60)
    return {'shared': res, 'hung': any(t.is_alive() for t in ts), 'remote': [], 'local': []}
  finally:
    rem.close()
    lf.clear_cache()
    lf.clear_object()


def oracle_shared(case, obs):
  """Exactly the underlying elements, each once, in order within every consumer; exhaustion is signalled to every
  call that finds nothing left; no value after a consumer saw the end."""
  if obs.get('hung'):
    return 'a consumer thread did not finish (hang)'
  if obs.get('setup_error'):
    return f'creating the remote iterator / queue failed: {obs["setup_error"]}'
  items = case['items']
  got = []
  for i, seq in enumerate(obs['shared']):
    vals = [r['ok'] for r in seq if 'ok' in r]
    if any(not isinstance(v, int) for v in vals):
      return f'consumer {i} received {vals}: not elements of the underlying sequence {items}'
    if any('err' in r and r['err'] != 'StopIteration' for r in seq):
      return f'consumer {i}: unexpected exception in {seq}'
    if vals != sorted(vals):
      return f'consumer {i} received {vals}: not in the order of the underlying sequence'
    ended = False
    for r in seq:
      if 'err' in r:
        ended = True
      elif ended:
        return f'consumer {i}: a value after StopIteration: {seq}'
    got += vals
  calls = case['n_threads'] * case['per_thread']
  if sorted(got) != sorted(items)[:len(got)] or len(got) != min(len(items), calls):
    return (f'consumers received {sorted(got)} with {calls} calls; the underlying sequence is {items} '
            f'(each element exactly once, none invented, none lost)')
  return None


def _span_lazy(side, lf, prog, token, i):
  if prog['p'] == 'raise':
    x = prog['x']
    return lf.trace(lib14.blocked)(token, i, (x['kind'], x['msg'], x.get('code', 0)), None)
  assert prog['p'] == 'expr' and prog['e']['t'] == 'traced', prog
  return lf.trace(lib14.blocked)(token, i, None, side.dec(prog['e']['v'], []))


def run_span(case):
  """Calls in flight: each `start` launches a client thread whose handler blocks inside the evaluation; `finish`
  releases it and waits for the client; `shutdown` is requested by another party in between."""
  E = _setup()
  lf = E['lf']
  lf.clear_cache()
  lf.clear_object()
  lib.reset()
  rem = Remote(case, 'threaded')
  token = f'{os.getpid()}_{next(_N)}'
  n = 1 + max([st['id'] for st in case['steps'] if 'id' in st] + [0])
  gates = lib14.make_gates(token, n)
  threads, results, out, hung = {}, {}, [], False
  try:
    for st in case['steps']:
      if st['s'] == 'start':
        i = st['id']
        lazy = _span_lazy(rem, lf, st['prog'], token, i)

        def work(i=i, lazy=lazy):
          try:
            results[i] = {'ok': rem.enc_res(rem.client.get_result(lazy))}
          except Exception as e:  # pylint: disable=broad-except
            results[i] = {'err': rem.enc_exc(e)}
        threads[i] = threading.Thread(target=work, daemon=True)
        threads[i].start()
        if not gates['started'][i].wait(20):
          hung = True
          break
      elif st['s'] == 'finish':
        i = st['id']
        gates['release'][i].set()
        threads[i].join(20)
        if threads[i].is_alive():
          hung = True
          break
        out.append(dict(results[i], id=i))
      else:
        rem.fc.Client(rem.name).shutdown()
  finally:
    for ev in gates['release']:
      ev.set()
    for t in threads.values():
      t.join(5)
    lib14.GATES.pop(token, None)
    rem.close()
  # reference: the same programs evaluated locally (nothing blocks, nothing shuts down)
  loc = Local()
  local = {}
  for st in case['steps']:
    if st['s'] == 'start':
      try:
        local[st['id']] = {'ok': loc.enc_local(lf.maybe_make(loc.build(st['prog'], [])))}
      except Exception as e:  # pylint: disable=broad-except
        local[st['id']] = {'err': loc.enc_exc(e)}
  lf.clear_cache()
  lf.clear_object()
  return {'span': out, 'span_local': [dict(local[o['id']], id=o['id']) for o in out], 'hung': hung,
          'remote': [], 'local': []}


def oracle_span(case, obs):
  """A call answers what local evaluation answers — unless a shutdown was requested before its evaluation
  ended (even if the call had started earlier): then a failing call answers the retriable TimeoutError and a
  succeeding call still answers its value.  Nothing hangs."""
  if obs.get('hung'):
    return 'a call in flight did not finish (hang)'
  shut_at = next((k for k, st in enumerate(case['steps']) if st['s'] == 'shutdown'), None)
  fin_at = {st['id']: k for k, st in enumerate(case['steps']) if st['s'] == 'finish'}
  start_at = {st['id']: k for k, st in enumerate(case['steps']) if st['s'] == 'start'}
  for r, l in zip(obs['span'], obs['span_local']):
    i = r['id']
    during = shut_at is not None and shut_at < fin_at[i]
    where = (f'call {i} (started {"before" if shut_at is None or start_at[i] < shut_at else "after"} and finished '
             f'{"after" if during else "before/without"} the shutdown request)')
    if 'ok' in l:
      if r.get('ok') != l['ok']:
        return f'{where}: local evaluation returns {jdump(l["ok"])[:100]}, the client got {jdump(r)[:140]}'
    elif 'ok' in r:
      return f'{where}: local evaluation raises {l["err"]}, the client returned {jdump(r["ok"])[:100]}'
    elif during:
      if r['err']['kind'] != 'TimeoutError':
        return (f'{where}: the evaluation failed while the server was shutting down; the client must get the '
                f'retriable TimeoutError, got {r["err"]}')
    elif not _same_exc(r['err'], l['err'], False):
      return f'{where}: local evaluation raises {l["err"]}, the client raised {r["err"]}'
  if len(obs['span']) != len(fin_at):
    return 'not every call finished'
  return None


def run_arr(case):
  """A cached call with an unhashable / ambiguous-== argument evaluated several times remotely vs locally."""
  from harness.core import canon
  E = _setup()
  lf = E['lf']

  def enc(thunk):
    try:
      return {'ok': canon(thunk())}
    except Exception as e:  # pylint: disable=broad-except
      return {'err': {'kind': c14_err(e), 'msg': re.sub(r'id=\d+', 'id=#', str(e))[:120]}}

  rem = Remote(case, 'inline')
  try:
    # remote: the handle ops go through the RemoteObject
    def remote_pass():
      lf.clear_cache(); lf.clear_object()
      arg = lib14.as_arg(case['argkind'], case['weights'])
      mk = lambda: lf.trace(lib14.Scaler)(arg, cache_result_=True)
      model, out, h = mk(), [], None
      for st in case['steps']:
        if not case['reuse']:
          model = mk()
        if st[0] == 'call':
          out.append(enc(lambda: rem.client.get_result(model(st[1]))))
        elif st[0] == 'attr':
          out.append(enc(lambda: rem.client.get_result(model.weights[st[1]])))
        elif st[0] == 'clear':
          lf.clear_cache()
          out.append({'ok': 'cleared'})
        else:
          if h is None:
            h = rem.client.get_result(lf.trace(lib14.Scaler)(arg, lazy_result_=True))
          if st[0] == 'hcall':
            out.append(enc(lambda: h(st[1]).result_()))
          else:
            out.append(enc(lambda: h.weights[st[1]].result_()))
      return out

    def local_pass():
      lf.clear_cache(); lf.clear_object()
      arg = lib14.as_arg(case['argkind'], case['weights'])
      mk = lambda: lf.trace(lib14.Scaler)(arg, cache_result_=True)
      model, out, obj = mk(), [], None
      for st in case['steps']:
        if not case['reuse']:
          model = mk()
        if st[0] == 'call':
          out.append(enc(lambda: lf.maybe_make(model(st[1]))))
        elif st[0] == 'attr':
          out.append(enc(lambda: lf.maybe_make(model.weights[st[1]])))
        elif st[0] == 'clear':
          lf.clear_cache()
          out.append({'ok': 'cleared'})
        else:
          if obj is None:
            obj = lf.maybe_make(lf.maybe_make(lf.trace(lib14.Scaler)(arg, lazy_result_=True)))
          if st[0] == 'hcall':
            out.append(enc(lambda: obj(st[1])))
          else:
            out.append(enc(lambda: obj.weights[st[1]]))
      return out
    try:
      r = remote_pass()
    except Exception as e:  # pylint: disable=broad-except
      r = [{'err': {'kind': 'crash', 'msg': f'{type(e).__name__}: {e}'[:160]}}]
  finally:
    rem.close()
  l = local_pass()
  lf.clear_cache()
  lf.clear_object()
  return {'arr': r, 'arr_local': l, 'remote': [], 'local': []}


def oracle_arr(case, obs):
  """Remote evaluation = local evaluation, step by step (value, or exception type and message)."""
  r, l = obs['arr'], obs['arr_local']
  if len(r) != len(l):
    return f'remote pass gave {jdump(r)[:200]}, local pass {jdump(l)[:200]}'
  for i, (a, b) in enumerate(zip(r, l)):
    if a != b:
      return (f'step {i} {case["steps"][i]} (argument kind {case["argkind"]}, cached call evaluated before: '
              f'{sum(1 for s in case["steps"][:i] if s[0] in ("call", "attr"))}x): the client got {jdump(a)[:160]}, '
              f'local evaluation gives {jdump(b)[:160]}')
  return None


def run_hist(case):
  """A history on mutable remote objects: through the client, by maybe_make in process, on ordinary objects."""
  E = _setup()
  lf, cu = E['lf'], E['cu']
  fn_cache = lf.LazyFn.result_.cache_info.__self__
  saved = fn_cache.maxsize
  out = {'remote': [], 'local': []}
  try:
    lf.clear_cache(); lf.clear_object()
    fn_cache.maxsize = case['fn_max']
    rem = Remote(case, 'inline')
    try:
      try:
        out['hist'] = hist.renumber(hist.run_lazy(case['ops'], lf, cu, rem.client, c14_err))
      except Exception as e:  # pylint: disable=broad-except
        out['hist'] = [{'err': 'crash', 'msg': f'{type(e).__name__}: {e}'[:160]}]
    finally:
      rem.close()
    lf.clear_cache(); lf.clear_object()
    out['hist_local'] = hist.renumber(hist.run_lazy(case['ops'], lf, cu, None, c14_err))
    out['hist_twin'] = hist.renumber(hist.run_twin(case['ops'], case['fn_max'], c14_err))
    out['hist_flagged_from'] = next((i for i, op in enumerate(case['ops']) if not hist.plain_op(op)), None)
  finally:
    fn_cache.maxsize = saved
    lf.clear_cache(); lf.clear_object()
  return out


def oracle_hist(case, obs):
  """Remote evaluation = local evaluation of the same lazy expressions, and = the same history on local objects."""
  ops = case['ops']
  return (hist.first_difference(ops, obs['hist'], obs['hist_local'], 'the client', 'local evaluation (maybe_make)') or
          hist.first_difference(ops, obs['hist'], obs['hist_twin'], 'the client', 'the same history on a local object'))


def run_multi(case):
  """Several clients (own options) on one server (own options): through the clients, by maybe_make in process, on
  ordinary objects."""
  E = _setup()
  lf, cu = E['lf'], E['cu']
  fn_cache = lf.LazyFn.result_.cache_info.__self__
  saved = fn_cache.maxsize
  out = {'remote': [], 'local': []}
  try:
    lf.clear_cache(); lf.clear_object()
    fn_cache.maxsize = case['fn_max']
    rem = Remote(case, 'inline')
    try:
      try:
        clients = [cu.CourierClient(rem.name, **o) for o in case['clients']]
        out['multi'] = multi.renumber(multi.run_remote(case, rem, clients, E, c14_err))
      except Exception as e:  # pylint: disable=broad-except
        out['multi'] = [{'err': 'crash', 'msg': f'{type(e).__name__}: {e}'[:160]}]
    finally:
      rem.close()
    lf.clear_cache(); lf.clear_object()
    out['multi_local'] = multi.renumber(multi.run_lazy_local(case, E, c14_err))
    out['multi_twin'] = multi.renumber(multi.run_twin(case, c14_err))
  finally:
    fn_cache.maxsize = saved
    lf.clear_cache(); lf.clear_object()
  return out


def oracle_multi(case, obs):
  return multi.oracle(case, _sig(), obs)


def run_impl(case):
  if case['kind'] == 'multi':
    return run_multi(case)
  if case['kind'] == 'hist':
    return run_hist(case)
  if case['kind'] == 'shared':
    return run_shared(case)
  if case['kind'] == 'span':
    return run_span(case)
  if case['kind'] == 'arr':
    return run_arr(case)
  E = _setup()
  lf = E['lf']
  fn_cache = lf.LazyFn.result_.cache_info.__self__
  saved = fn_cache.maxsize
  conc = case['kind'] == 'conc'
  out = {}
  try:
    # ---- remote pass
    lf.clear_cache()
    lf.clear_object()
    fn_cache.maxsize = case['fn_max']
    lib.reset()
    rem = Remote(case, 'threaded' if conc else 'inline')
    try:
      if not conc:
        try:
          out['remote'] = [renumber(rem.run_ops(case['threads'][0]))]
        except Exception as e:  # pylint: disable=broad-except
          # every per-op exception is an observation; anything escaping here means the client/server API itself
          # misbehaved in a way the harness has no observation for: reported by the oracle, not swallowed
          import traceback
          out['remote'] = [[]]
          out['crash'] = traceback.format_exc()[-600:]
      else:
        res = [None] * len(case['threads'])
        errs = []

        def work(i):
          try:
            res[i] = renumber(rem.run_ops(case['threads'][i], track_calls=False))
          except BaseException as e:  # pylint: disable=broad-except
            errs.append(e)
        ts = [threading.Thread(target=work, args=(i,), daemon=True) for i in range(len(res))]
        for t in ts:
          t.start()
        for t in ts:
          t.join(60)
        if errs:
          raise errs[0]
        if any(t.is_alive() for t in ts):
          out['hung'] = True
          res = [r if r is not None else [] for r in res]
        out['remote'] = res
    finally:
      rem.close()
    # ---- local pass (the oracle's reference): fresh lazy_fns state, no server, no client
    lf.clear_cache()
    lf.clear_object()
    lib.reset()
    loc = Local()
    out['local'] = [renumber(loc.run_ops(t, track_calls=not conc)) for t in case['threads']]
  finally:
    fn_cache.maxsize = saved
    lf.clear_cache()
    lf.clear_object()
  return out


# ----------------------------------------------------------------------------- model

def model_requests(case):
  if case['kind'] == 'multi':
    return [multi.model_request(case, _sig()), multi.model_request(case, _sig(), local=True)]
  if case['kind'] == 'hist':
    return [hist.model_request(case), hist.model_request(case, local=True)]
  if case['kind'] == 'span':
    return [dict(model='remote', fn_max=128, obj_max=1024, steps=case['steps'])]
  if case['kind'] == 'arr':
    # `__eq__` / `__hash__` of call arguments are outside the Lean model (C17 keys the cache structurally);
    # these cases are decided by the oracle (remote = local) alone
    return [dict(model='remote', fn_max=128, obj_max=1024, threads=[])]
  if case['kind'] == 'shared':
    # any serialisation of the calls is a C14_iter / C14_iter_queue run; the sequential behaviour is tied by the
    # 'seq' cases, the concurrent one is decided by the oracle
    return [dict(model='remote', fn_max=128, obj_max=1024, threads=[])]
  return [dict(model='remote', fn_max=case['fn_max'], obj_max=1024, threads=case['threads'])]


def model_obs(case, resps):
  if case['kind'] == 'multi':
    return {'multi': multi.renumber(resps[0]['obs']), 'multi_twin': multi.renumber(resps[1]['obs']), 'case': case}
  if case['kind'] == 'hist':
    return {'hist': hist.renumber(resps[0]['obs']), 'hist_twin': hist.renumber(resps[1]['obs'])}
  if case['kind'] == 'span':
    return {'span': resps[0]['replies']}
  conc = case['kind'] == 'conc'
  out = []
  for t in resps[0]['threads']:
    obs = []
    for ob in t:
      ob = dict(ob)
      if conc:
        ob['calls'] = []
      obs.append(ob)
    out.append(renumber(obs))
  return {'remote': out}


def _same_exc(a, b, lenient_msg):
  if a['kind'] != b['kind'] or a.get('code', 0) != b.get('code', 0) or a.get('args', []) != b.get('args', []):
    return False
  return lenient_msg or a.get('msg', '') == b.get('msg', '')


def compare(impl, model):
  if 'shared' in impl or 'arr' in impl:
    return None
  if 'multi' in impl:
    case = model['case']
    d = multi.compare_model(case, impl['multi'], model['multi'], 'clients + server')
    if d:
      return d
    # the model's local side (ordinary Python in Lean) vs ordinary Python, while no cache_result link was met
    # (and up to a client.shutdown(): the local side of the model has no notion of a worker declared dead)
    flagged = next((i for i, op in enumerate(case['ops'])
                    if not hist.plain_op(op) or (op['op'] == 'shutdown' and op['how'] == 'client')), len(case['ops']))
    return multi.compare_model(case, impl['multi_twin'][:flagged], model['multi_twin'][:flagged], 'ordinary Python')
  if 'hist' in impl:
    return _compare_hist(impl, model)
  if 'span' in impl:
    if impl.get('hung'):
      return 'a call in flight did not finish'
    a, b = impl['span'], model['span']
    if len(a) != len(b):
      return f'{len(a)} replies (code) vs {len(b)} (model)'
    for x, y in zip(a, b):
      if x['id'] != y['id'] or ('ok' in x) != ('ok' in y) or ('ok' in x and x['ok'] != y['ok']) or \
          ('err' in x and not _same_exc(x['err'], y['err'], y['err'].get('msg', '') == '')):
        return f'call {x["id"]}: {jdump(x)[:200]} (code) vs {jdump(y)[:200]} (model)'
    return None
  if impl.get('crash'):
    return 'the remote pass raised outside any client call: ' + impl['crash'][-300:]
  if impl.get('hung'):
    return 'a client thread did not finish'
  for ti, (a, b) in enumerate(zip(impl['remote'], model['remote'])):
    if len(a) != len(b):
      return f'thread {ti}: different number of observations'
    for i, (x, y) in enumerate(zip(a, b)):
      where = f'thread {ti} op {i}'
      if x.get('calls') != y.get('calls'):
        return f'{where}: callables entered {x.get("calls")} (code) vs {y.get("calls")} (model)'
      xe, ye = x.get('err'), y.get('err')
      if (xe is None) != (ye is None):
        return f'{where}: {jdump(x)[:200]} (code) vs {jdump(y)[:200]} (model)'
      if xe is not None:
        # the C17 evaluator's errors carry no message in the model
        if not _same_exc(xe, ye, lenient_msg=ye.get('msg', '') == ''):
          return f'{where}: raised {jdump(xe)[:200]} (code) vs {jdump(ye)[:200]} (model)'
        continue
      for k in ('ok', 'skip', 'shutdown', 'bg', 'accepted', 'gz'):
        if x.get(k) != y.get(k):
          return f'{where}: {k}: {jdump(x.get(k))[:200]} (code) vs {jdump(y.get(k))[:200]} (model)'
      for k in ('payload',):
        xp, yp = x.get(k), y.get(k)
        if (xp is None) != (yp is None):
          return f'{where}: {k}: {jdump(xp)[:200]} (code) vs {jdump(yp)[:200]} (model)'
        if xp is not None:
          if 'exc' in xp and 'exc' in yp:
            if not _same_exc(xp['exc'], yp['exc'], lenient_msg=yp['exc'].get('msg', '') == ''):
              return f'{where}: payload {jdump(xp)[:200]} (code) vs {jdump(yp)[:200]} (model)'
          elif xp != yp:
            return f'{where}: payload {jdump(xp)[:200]} (code) vs {jdump(yp)[:200]} (model)'
      for k in ('refused',):
        if (x.get(k) is None) != (y.get(k) is None) or (x.get(k) and not _same_exc(x[k], y[k], False)):
          return f'{where}: {k}: {jdump(x.get(k))[:200]} (code) vs {jdump(y.get(k))[:200]} (model)'
      if ('raised' in x) != ('raised' in y):
        return f'{where}: {jdump(x)[:200]} (code) vs {jdump(y)[:200]} (model)'
      if 'raised' in x and isinstance(x['raised'], dict) and isinstance(y['raised'], dict):
        if x['raised']['kind'] != y['raised']['kind']:
          return f'{where}: handler raised {x["raised"]} (code) vs {y["raised"]} (model)'
  return None


def _compare_hist(impl, model):
  ops = [{}] * len(impl['hist'])
  d = hist.compare_model(ops, impl['hist'], model['hist'], 'client + server')
  if d:
    return d
  # the model's `localStep` (ordinary Python in Lean) vs ordinary Python: only while no cache_result link was met
  # (localStep ignores the flags; C14_state_history is about flag-free histories)
  for i, (a, b) in enumerate(zip(impl['hist_twin'], model['hist_twin'])):
    a = {k: v for k, v in a.items() if k not in ('msg', 'fn')}
    b = {k: v for k, v in b.items() if k != 'fn'}
    if impl.get('hist_flagged_from') is not None and i >= impl['hist_flagged_from']:
      break
    if a != b:
      return f'step {i}: ordinary Python gives {jdump(a)[:200]}, the model of ordinary Python {jdump(b)[:200]}'
  return None


# ----------------------------------------------------------------------------- oracle

F1 = 'C14-F1'    # a returned Exception instance is raised by the client
F2 = 'C14-F2'    # (fixed) an application exception with attribute code == 4 became TimeoutError


def _failures(case, obs):
  """Remote = local.  Written from the English statement: same value, or same exception type and message;
  handles stay handles; iterators yield the same elements and end once; after a shutdown request a failing
  call is a TimeoutError and no call returns a different value; a transport fault never yields a value."""
  if obs.get('hung'):
    yield 'a client thread did not finish (hang)'
    return
  if obs.get('crash'):
    yield 'the remote pass raised outside any client call: ' + obs['crash'][-300:]
    return
  for ti, (ops, rem, loc) in enumerate(zip(case['threads'], obs['remote'], obs['local'])):
    shut = False
    for i, (op, r, l) in enumerate(zip(ops, rem, loc)):
      where = f'thread {ti} op {i} ({op["op"]})'
      kind = op['op']
      if kind == 'shutdown':
        shut = True
        continue
      if kind == 'bg':
        if r['calls'] != l['calls']:
          yield f'{where}: background call entered {r["calls"]}, local evaluation {l["calls"]}'
          continue
        continue
      if kind == 'init_iterator':
        if shut and not ('refused' in r and r['refused']['kind'] == 'TimeoutError'):
          yield f'{where}: after a shutdown request iterator initialisation must answer TimeoutError, got {jdump(r)[:160]}'
          continue
        if not shut and 'refused' in r:
          yield f'{where}: iterator initialisation refused without shutdown: {jdump(r)[:160]}'
          continue
        continue
      if r.get('skip') or l.get('skip'):
        if bool(r.get('skip')) != bool(l.get('skip')):
          yield f'{where}: remote {jdump(r)[:120]} but local {jdump(l)[:120]} (a handle exists on one side only)'
          continue
        continue
      if kind == 'call':
        w = _oracle_call(op, r, l, shut)
        if w:
          yield f'{where}: {w}'
          continue
        continue
      # get / chain
      if l.get('trace'):
        # raised while tracing, on the client: nothing is sent, so neither faults nor shutdown matter
        if 'err' not in r or not _same_exc(r['err'], l['err'], False):
          yield f'{where}: tracing raises {l["err"]}, the client gave {jdump(r)[:160]}'
          continue
        continue
      alive0, fate = op.get('alive0', True), op.get('fate', 'ok')
      if 'ok' in r and (not alive0 or fate != 'ok'):
        yield f'{where}: a transport fault ({fate}, alive0={alive0}) produced a value {jdump(r["ok"])[:120]}'
        continue
      if not alive0:
        if r['err']['kind'] != 'RuntimeError':
          yield f'{where}: dead worker must raise RuntimeError, got {r["err"]}'
          continue
        continue
      if fate in ('deadline', 'deadline_after'):
        want_timeout = op.get('alive_err', True)
        if want_timeout != (r['err']['kind'] == 'TimeoutError'):
          yield (f'{where}: deadline with worker alive={want_timeout} must '
                  f'{"raise TimeoutError" if want_timeout else "re-raise the transport error"}, got {r["err"]}')
          continue
        if not want_timeout and r['err'].get('code') != 4:
          yield f'{where}: the original deadline error (code 4) must surface, got {r["err"]}'
          continue
        if fate == 'deadline_after' and r['calls'] != l['calls']:
          yield f'{where}: handler ran with calls {r["calls"]}, local {l["calls"]}'
          continue
        continue
      if fate == 'app_error':
        if r['err']['kind'] == 'TimeoutError':
          yield f'{where}: a non-deadline transport error must not become TimeoutError'
          continue
        continue
      if fate == 'die':
        if r['err']['kind'] != 'RuntimeError':
          yield f'{where}: lost worker must raise RuntimeError, got {r["err"]}'
          continue
        continue
      if r['calls'] != l['calls']:
        yield f'{where}: remote evaluation entered {r["calls"]}, local evaluation enters {l["calls"]}'
        continue
      if kind == 'chain' and not shut:
        py = l['py']
        if ('ok' in py) != ('ok' in r) or ('ok' in py and _top(py['ok']) != r['ok']) or \
            ('err' in py and py['err']['kind'] != r['err']['kind']):
          yield (f'{where}: the chain on the local object gives {jdump(py)[:160]}, '
                  f'on the remote handle {jdump({k: v for k, v in r.items() if k != "calls"})[:160]}')
          continue
      if 'ok' in l:
        if 'ok' not in r:
          if 'exc' in l['ok']:
            yield (f'{where}: [{F1}] local evaluation returns the exception instance {jdump(l["ok"]["exc"])[:120]} '
                    f'as a value, the client raised it')
            continue
          yield f'{where}: local evaluation returns {jdump(l["ok"])[:120]}, the client raised {r["err"]}'
          continue
        if r['ok'] != _top(l['ok']):
          yield f'{where}: client got {jdump(r["ok"])[:160]}, local evaluation gives {jdump(l["ok"])[:160]}'
          continue
      else:
        le = l['err']
        if 'ok' in r:
          yield f'{where}: local evaluation raises {le}, the client returned {jdump(r["ok"])[:120]}'
          continue
        re_ = r['err']
        if shut:
          if re_['kind'] != 'TimeoutError':
            yield f'{where}: after a shutdown request a failing call must answer TimeoutError, got {re_}'
            continue
        elif not _same_exc(re_, le, False):
          # (an application exception with attribute code == 4 used to come back as TimeoutError: C14-F2, repaired
          # in the code — a recurrence is a violation like any other)
          yield f'{where}: local evaluation raises {le}, the client raised {re_}'
          continue



def oracle(case, obs):
  if case['kind'] == 'multi':
    return oracle_multi(case, obs)
  if case['kind'] == 'hist':
    return oracle_hist(case, obs)
  if case['kind'] == 'shared':
    return oracle_shared(case, obs)
  if case['kind'] == 'span':
    return oracle_span(case, obs)
  if case['kind'] == 'arr':
    return oracle_arr(case, obs)
  return _oracle_main(case, obs)


def _oracle_main(case, obs):
  """First failure that is not an instance of a known finding class, else the first failure."""
  first = None
  for w in _failures(case, obs):
    if finding(case, w) is None:
      return w
    first = first or w
  return first


def _top(v):
  """a top-level local handle corresponds to a remote handle"""
  if isinstance(v, dict) and 'v' in v and isinstance(v['v'], dict) and set(v['v']) == {'h'}:
    return {'remote': v['v']['h']}
  return v


def _oracle_call(op, r, l, shut):
  fl = op['flags']
  if l.get('trace'):
    return None if 'raised' in r and r['raised']['kind'] == l['err']['kind'] else \
        f'tracing raises {l["err"]}, the call gave {jdump(r)[:160]}'
  lp = l.get('payload')
  if r.get('leak') and isinstance(lp, dict) and isinstance(lp.get('v'), dict) and set(lp['v']) == {'h'}:
    return 'the pickled reply to a lazy_result_ call contains the value of the object (it must stay on the server)'
  if fl.get('return_immediately'):
    return None if r.get('payload') == {'v': None} else f'return_immediately must answer None, got {jdump(r)[:120]}'
  if 'err' in l:
    le = l['err']
    if fl.get('return_exception'):
      p = r.get('payload')
      if not p or 'exc' not in p:
        return f'local evaluation raises {le}; the reply is {jdump(r)[:160]}'
      if shut:
        return None if p['exc']['kind'] == 'TimeoutError' else f'after shutdown the reply must be TimeoutError, got {p["exc"]}'
      return None if _same_exc(p['exc'], le, False) else f'local evaluation raises {le}, the reply carries {p["exc"]}'
    if 'raised' not in r:
      return f'local evaluation raises {le}; without return_exception the call must fail, got {jdump(r)[:160]}'
    want = 'TimeoutError' if shut else le['kind']
    return None if r['raised']['kind'] == want else f'the failed call reports {r["raised"]}, expected {want}'
  if 'payload' not in r:
    return f'local evaluation returns {jdump(l["payload"])[:120]}; the call gave {jdump(r)[:160]}'
  if r['gz'] != bool(fl.get('compress')):
    return 'compress flag not honoured'
  return None if r['payload'] == l['payload'] else \
      f'reply {jdump(r["payload"])[:160]}, local evaluation {jdump(l["payload"])[:160]}'


# ----------------------------------------------------------------------------- bookkeeping

STATS = {}


def _stat(key, sub, n=1):
  h = STATS.setdefault(key, {})
  h[str(sub)] = h.get(str(sub), 0) + n


def collect(case, obs):
  """Coverage is measured on the case and on the *reference* (local) pass, so that a change of the code under
  test cannot hide a branch from the generator-quality gate; results of the remote pass are histogrammed only."""
  _stat('kind', case['kind'])
  if 'client_opts' in case:
    for k, d in multi.options(_sig(), 'CourierClient').items():
      _stat('branch', f'CourierClient.{k} ' + ('default' if case['client_opts'].get(k, d) == d else 'non-default') +
            ' (' + case['kind'] + ')')
  if case['kind'] == 'multi':
    for b in multi.branches(case, _sig(), obs['multi_twin']):
      _stat('branch', 'multi: ' + b)
    for op in case['ops']:
      _stat('multi op', op['op'] + (' via ' + op['via'] if 'via' in op else ''))
    if oracle_multi(case, obs):
      STATS['failed'] = {'1': 1}
    return
  if case['kind'] == 'hist':
    for b in hist.branches(case['ops'], obs['hist_twin']):
      _stat('branch', 'hist: ' + b)
    for op in case['ops']:
      _stat('hist op', op['op'] + ('' if hist.plain_op(op) else ' (cache_result)'))
    _stat('hist length', len(case['ops']))
    if oracle_hist(case, obs):
      STATS['failed'] = {'1': 1}
    return
  if case['kind'] == 'span':
    shut_at = next((k for k, st in enumerate(case['steps']) if st['s'] == 'shutdown'), None)
    for k, st in enumerate(case['steps']):
      if st['s'] == 'finish' and shut_at is not None:
        k0 = next(j for j, s2 in enumerate(case['steps']) if s2['s'] == 'start' and s2['id'] == st['id'])
        fails = case['steps'][k0]['prog']['p'] == 'raise'
        if k0 < shut_at < k:
          _stat('branch', 'in flight across the shutdown request: ' + ('fails' if fails else 'succeeds'))
    if oracle_span(case, obs):
      STATS['failed'] = {'1': 1}
    return
  if case['kind'] == 'arr':
    _stat('arr argument', case['argkind'] + ('' if case['reuse'] else ' (re-traced)'))
    n = sum(1 for st in case['steps'] if st[0] in ('call', 'attr'))
    if n >= 2 and case['reuse'] and case['argkind'].startswith('ndarray'):
      _stat('branch', 'cached call with an array argument evaluated remotely twice')
    if oracle_arr(case, obs):
      STATS['failed'] = {'1': 1}
    return
  if case['kind'] == 'shared':
    _stat('shared source', case['source'])
    _stat('shared consumers', case['n_threads'])
    _stat('branch', 'shared iterator over-consumed' if case['n_threads'] * case['per_thread'] > len(case['items'])
          else 'shared iterator partly consumed')
    if oracle_shared(case, obs):
      STATS['failed'] = {'1': 1}
    return
  _stat('threads', len(case['threads']))
  if not STATS.get('failed'):
    for w in _failures(case, obs):
      if finding(case, w) is None:
        STATS['failed'] = {'1': 1}
        break
  for ops, rem, loc in zip(case['threads'], obs['remote'], obs['local']):
    shut = False
    exhausted = set()
    for op, r, l in zip(ops, rem, loc):
      k = op['op']
      if k == 'shutdown':
        shut = True
      name = k if k != 'get' else 'get:' + op['prog']['p']
      _stat('op', name)
      faulty = 'fate' in op or 'alive0' in op
      if faulty:
        _stat('fault', op.get('fate', 'dead') + ('' if op.get('alive_err', True) else '+not-alive'))
      res = 'skip' if r.get('skip') else 'err:' + r['err']['kind'] if 'err' in r else \
          'remote' if 'ok' in r and 'remote' in r['ok'] else 'value' if 'ok' in r else k
      _stat('result', res)
      lerr = l.get('err', {}).get('kind')
      if k == 'get' and op['prog']['p'] in ('next', 'qget') and lerr == 'StopIteration':
        key = (op['prog']['p'], op['prog']['h'])
        _stat('branch', 'StopIteration again after exhaustion' if key in exhausted else 'end of iteration')
        exhausted.add(key)
      if k == 'chain' and 'py' in l:
        _stat('branch', 'chain ok' if 'ok' in l['py'] else 'chain raises')
        _stat('chain length', len(op['links']))
      if shut and k in ('get', 'chain') and not faulty and 'err' in l and not l.get('trace'):
        _stat('branch', 'failing call after shutdown')
      if shut and k in ('get', 'chain') and not faulty and 'ok' in l:
        _stat('branch', 'value after shutdown')
      if k == 'init_iterator':
        _stat('branch', 'init_iterator after shutdown' if shut else 'init_iterator before shutdown')
      if 'ok' in l and 'remote' in l['ok']:
        _stat('branch', 'remote handle')
      if 'ok' in l and 'list' in l['ok']:
        _stat('branch', 'queue batch')
      if l.get('trace'):
        _stat('branch', 'tracing error')
      if k == 'call':
        _stat('branch', 'raw reply' + (' (handler raises)' if 'err' in l and not op['flags'].get('return_exception')
                                       else ''))
        if isinstance(l.get('payload'), dict) and isinstance(l['payload'].get('v'), dict) and \
            set(l['payload']['v']) == {'h'}:
          _stat('branch', 'raw reply is a handle (bytes inspected)')


def nontrivial(case, obs):
  collect(case, obs)
  if case['kind'] == 'multi':
    return len(case['ops']) >= 4 and any('remote' in t for t in obs['multi_twin'])
  if case['kind'] == 'hist':
    return any(b.startswith('re-read after mutation') or b.startswith('next after') or b.startswith('cached link')
               for b in hist.branches(case['ops'], obs['hist_twin']))
  if case['kind'] == 'shared':
    return len(case['items']) >= 2
  if case['kind'] == 'span':
    return len(case['steps']) >= 3
  if case['kind'] == 'arr':
    return len(case['steps']) >= 2
  n_eval, interesting = 0, False
  for ops, loc in zip(case['threads'], obs['local']):
    for op, l in zip(ops, loc):
      if 'ok' in l or 'err' in l or 'payload' in l:
        n_eval += 1
      if ('ok' in l and 'remote' in l['ok']) or 'err' in l:
        interesting = True
  return n_eval >= 2 and interesting


def extra(ctx):
  for k, h in STATS.items():
    if k == 'failed':
      continue
    for sub, n in h.items():
      ctx.count(k, sub, n)
  need = ['end of iteration', 'StopIteration again after exhaustion', 'chain ok', 'chain raises',
          'failing call after shutdown', 'value after shutdown', 'init_iterator after shutdown', 'remote handle',
          'queue batch', 'raw reply', 'raw reply (handler raises)', 'raw reply is a handle (bytes inspected)',
          'tracing error', 'in flight across the shutdown request: fails',
          'in flight across the shutdown request: succeeds',
          'cached call with an array argument evaluated remotely twice']
  need += ['hist: ' + b for b in hist.NEED_PLAIN + hist.NEED_FLAGS]
  need += ['multi: ' + b for b in multi.NEED + multi.need_arms(_sig())]
  missing = [b for b in need if not STATS.get('branch', {}).get(b)]
  for f in ('deadline', 'deadline+not-alive', 'deadline_after', 'app_error', 'die', 'dead'):
    if not STATS.get('fault', {}).get(f):
      missing.append('fault ' + f)
  if missing and not STATS.get('failed'):
    # (with an oracle failure in hand the verdict is a violation, not a generator-quality problem)
    import sys
    raise getattr(sys.modules.get('__main__'), 'InfraError', InfraError)(
        f'C14 generator did not exercise: {missing}')


def finding(case, what):
  if f'[{F1}]' in what:
    return F1
  return None


# ----------------------------------------------------------------------------- search helpers

def neighbours(case, rng):
  if case['kind'] == 'multi':
    for i in range(len(case['ops'])):
      c = hist.drop_op(case, i)
      if c is not None and c['ops']:
        yield c
    for _ in range(300):
      yield multi.gen_multi_case(rng, _sig())
    return
  if case['kind'] == 'hist':
    for i in range(len(case['ops'])):
      c = hist.drop_op(case, i)
      if c is not None and c['ops']:
        yield c
    for _ in range(300):
      yield {'kind': 'hist', 'fn_max': 128, 'ops': hist.gen_hist_ops(rng, rng.randrange(4, 12))}
    return
  if case['kind'] in ('shared', 'span', 'arr'):
    return
  for t in range(len(case['threads'])):
    for i in range(len(case['threads'][t])):
      c = _drop(case, t, i)
      if c is not None:
        yield c
  for _ in range(300):
    yield {'kind': 'seq', 'fn_max': 128, 'threads': [gen_thread(rng, rng.randrange(3, 10))]}


def _refs(op):
  if 'h' in op:
    yield op, 'h'
  p = op.get('prog')
  if isinstance(p, dict):
    if 'h' in p:
      yield p, 'h'
    for d in c17._res_nodes(p):
      yield d, 'res'
  for l in op.get('links', []):
    for d in c17._res_nodes(l):
      yield d, 'res'


def _drop(case, t, i):
  c = copy.deepcopy(case)
  ops = c['threads'][t]
  if ops[i]['op'] == 'bg':
    return None            # a background call and the wait for it stay together
  if ops[i]['op'] == 'call' and ops[i]['flags'].get('return_immediately'):
    return None
  del ops[i]
  for op in ops[i:]:
    for d, k in _refs(op):
      if d[k] == i:
        return None
      if d[k] > i:
        d[k] -= 1
  return c


def shrink(case, fails):
  if case['kind'] in ('hist', 'multi'):
    return hist.shrink(case, fails)
  if case['kind'] in ('shared', 'span'):
    return case
  if case['kind'] == 'arr':
    cur, changed = case, True
    while changed:
      changed = False
      for i in reversed(range(len(cur['steps']))):
        c = dict(cur, steps=cur['steps'][:i] + cur['steps'][i + 1:])
        if c['steps'] and fails(c):
          cur, changed = c, True
          break
    return cur
  cur = case
  changed = True
  while changed:
    changed = False
    for t in range(len(cur['threads'])):
      for i in reversed(range(len(cur['threads'][t]))):
        c = _drop(cur, t, i)
        if c is not None and fails(c):
          cur, changed = c, True
          break
      if changed:
        break
  return cur
