"""C15 — the prefetching generator protocol delivers the generator faithfully.

Real code: `courier_server.PrefetchedCourierServer` (`init_generator`, `next_batch_from_generator`,
`stop_prefetch`, `shutdown` RPCs + its own thread `run_until_shutdown`), `iter_utils.IteratorQueue`
(prefetch thread, blocking `get_batch`) and the client loop `courier_utils.CourierClient.async_iterate`,
run over the in-process fake courier ('inline': the handler runs on the requesting thread) with every
request thread, the server thread and every prefetch thread managed by the deterministic scheduler
(harness/sched/shim.py; machinery in harness/lib_prefetch.py).
Model: lean/MlModel/Model/Prefetch.lean on top of Model/Queue.lean; theorems: Properties/C15.lean.

Case: {prefetch, threads:[client|init|next|stop|shutdown ...], sched} — see lib_prefetch.  Element values are
100*i + j for the generator of thread i, its return value is 900 + i, so every observed value / marker
identifies its generator.  An `init` / `client` thread with build='raise'|'noniter' carries a lazy object
that cannot be turned into a generator on the server (its constructor raises / it builds a non-iterable):
the class of histories "init_generator FAILS, then requests go on" (seeded change C15-m1).
"""
import collections
import copy

from harness import lib_prefetch as lp
from harness import lib_prefetch_values as lv

PID = 'C15'
TITLE = 'The prefetching generator protocol delivers the generator faithfully'
LEAN_MODULES = ['MlModel.Properties.C15', 'MlModel.Properties.C15Multi', 'MlModel.Properties.C15Shutdown',
                'MlModel.Properties.C15Values', 'MlModel.Witness.C15', 'MlModel.Witness.C15Values']
TRUSTED = [
    'scheduler shim (harness/sched/shim.py) implements CPython Lock/RLock/Condition(FIFO notify, no spurious wake-up)/'
    'queue.Queue/Thread.start+join semantics; one atomic step = one synchronisation operation, the thread-local code after it '
    '(incl. GIL-atomic reads/writes of _generator, _enqueue_thread, _shutdown_requested, _exception, _exhausted) is fused into the step, '
    'in the model and under the shim alike; pre-emption between two plain attribute accesses is not explored',
    'fake courier (harness/fakecourier) in inline mode: a request is synchronous and its handler runs on the requesting thread; '
    'a call to a stopped server fails with a deadline status at once; arguments/results pass through the repo\'s own pickler',
    'the 60 s heartbeat time-out of run_until_shutdown is never taken (it only re-runs the statistics logging)',
]
ASSUMPTIONS = ['value level (C15_failure_any_exception, C15_faithful_any_return): the generator\'s ELEMENTS are not Exception instances '
               '(open finding C15-F-inband-exception otherwise); exception classes do not override __eq__ / __bool__; pickling preserves class and args',
               'C15_faithful / C15_failure / C15_no_deadlock / C15_variant / C15_terminates: one client whose requests are sequential '
               '(it awaits every reply), nobody else talks to the server (no shutdown request: the server thread legitimately stays parked in run_until_shutdown)',
               'IteratorQueue of the server: no time-out configured, ignore_error=False (the constructor defaults)']
PROVED_LIVENESS = (
    'liveness of the one-client system is a Lean theorem (not only scheduler + exploration): C15_no_deadlock (a reachable configuration '
    'without enabled step has the client loop and the prefetch thread at their final pc and the server thread parked in run_until_shutdown), '
    'C15_progress, C15_no_lost_wakeup (J1 J2 K1 K2 of C04 on the generator queue, transferred through the embedding: Lemmas/QueueLiveView.lean, '
    'Lemmas/PrefetchLive.lean), C15_variant (a lexicographic measure, 3*Queue.Phi of the queue view + protocol ranks, decreases on every step of '
    'every thread), C15_terminates (no infinite execution), C15_run_ends / C15_faithful_run / C15_failure_run (every scheduler: the execution is '
    'finite and ends with the client loop ended on exactly the generator / its exception); for configurations with several concurrent requests '
    '(healthy and FAILING init_generator / next / stop / shutdown) Properties/C15Multi.lean proves: every installed queue has its prefetch thread '
    '(C15_installed_has_producer, C15_no_orphan_queue), a failing init_generator installs nothing (C15_failed_init_installs_nothing), a skipped stop '
    'finds the prefetch thread past its last put (C15_skipped_stop_producer_past), and the server-level protocol blocks nobody '
    '(C15_multi_dead_shape_partial: in a configuration without enabled step every blocked thread is inside an IteratorQueue operation or waits for one '
    'that is; C15_shutdown_not_missed); the queue-level half of "no request stays blocked" for several concurrent consumers is still decided by the '
    'scheduler on the real code and by exhaustive exploration')
RULE = ('one-client cases: generator length 0..6 x failure position (none or any) x prefetch in {1,2,3} x batch in {1,2,3,5} (all combinations, '
        'thorough: x3 schedules); re-init / shutdown cases: a client plus 1-3 of {init_generator (0-2 elements), next_batch (1-3), '
        'stop_prefetch, shutdown} as concurrent request threads, so the re-initialisation / shutdown point is a scheduler choice; '
        'FAILED init_generator cases: (nothing | a healthy init_generator | a healthy client) + an init_generator / client whose lazy object '
        'raises at construction or builds a non-iterable + 1-2 next_batch requests (+ optionally shutdown / stop_prefetch / a second failing or '
        'healthy init_generator), all small combinations x 3 schedules plus random ones; the run classifies what it exercised from the trace '
        '(a request issued after the failed call on a fresh server / after a failed call that stopped a live generator / failed call of a '
        'client loop / shutdown already requested) and the check exits 2 if one of these arms was not exercised; '
        'schedules: seeded uniform-random and PCT-style priorities chosen on the REAL code, replayed choice by choice on the Lean LTS '
        'comparing every executed operation label, the enabled thread set before every step and all outcomes; '
        'WINDOW schedules (lib_prefetch.hold_chooser): one request (init_generator healthy / failing / of a client loop; next_batch; '
        'stop_prefetch; shutdown) is taken to the lock acquisition that follows its unlocked look at a flag / attribute and held there while '
        'every other thread (shutdown + the server thread\'s whole callback, re-initialisation, stop, client loop) runs until nothing else can, '
        'x what precedes it (nothing / generator installed / partly consumed / exhausted / failed) x prefetch; the windows a run went through '
        'are classified from the ORDER of operations in its trace and four of them are enforced (exit 2 if not exercised); '
        'VALUE level (stage "values", real OS threads, Model/PrefetchClient.lean): every exception class / constructed exception / compared '
        'constant that the functions under the property name is read off the working tree with ast at run time and used as the generator\'s '
        'failure, as one of its elements and as its return value x batch 1,2,3 x 0/3 preceding elements (every (value, role) enforced); '
        'non-trivial = threads took turns at least 10 times; plus an end-to-end stage: the real client loop against the real server '
        'on real OS threads in the fake\'s threaded and inline modes')


def gen_src(i, n, fail_at):
  src = [100 * i + j for j in range(n)]
  if fail_at is not None:
    src.insert(fail_at, 'fail')
  return src


def sched_spec(rng):
  return dict(kind=rng.choice(['random', 'pct']), seed=rng.randrange(10**9), changes=rng.randrange(1, 6),
              horizon=rng.choice([50, 150, 400]))


def gen_cases(ctx):
  yield from ctx.corpus()
  rng = ctx.rng
  # ---- one client, nobody else: all (length, failure position, prefetch, batch)
  reps = 1 if ctx.quick else 3
  for n in range(0, 7):
    for fail_at in [None] + list(range(0, n + 1)):
      for prefetch in (1, 2, 3):
        for batch in (1, 2, 3, 5):
          for _ in range(reps):
            ctx.count('kind', 'one-client' + ('' if fail_at is None else '+failure'))
            yield dict(prefetch=prefetch, sched=sched_spec(rng),
                       threads=[dict(kind='client', src=gen_src(0, n, fail_at), ret=900, batch=batch)])
  # ---- init_generator whose lazy object cannot be turned into a generator (constructor raises / not iterable)
  yield from gen_failed_init(ctx)
  # ---- windows between an unlocked look at a flag / attribute and the lock: everybody else runs inside the gap
  yield from gen_windows(ctx)
  # ---- value level: generators that RAISE / YIELD / RETURN exactly the values the protocol code special-cases
  yield from gen_values(ctx)
  # ---- re-initialisation / stop / shutdown at a scheduler-chosen point
  m = 3000 if ctx.quick else 40000
  for _ in range(m):
    n = rng.randrange(0, 5 if ctx.quick else 7)
    fail_at = rng.choice([None, None, None] + list(range(n + 1)))
    ths = [dict(kind='client', src=gen_src(0, n, fail_at), ret=900, batch=rng.choice([1, 2, 3, 5]))]
    mode = rng.choice(['init', 'init', 'init2', 'next', 'next2', 'stop', 'shutdown', 'shutdown+init', 'client2', 'stop+next',
                       'init+next', 'init+next', 'shutdown+next'])
    def add(p):
      i = len(ths)
      if 'src' in p:
        p = dict(p, src=gen_src(i, p.pop('n'), p.pop('fail_at', None)), ret=900 + i)
      ths.append(p)
    if mode in ('init', 'init2', 'shutdown+init', 'init+next'):
      add(dict(kind='init', src=None, n=rng.randrange(0, 3), fail_at=None))
    if mode == 'init2':
      add(dict(kind='init', src=None, n=rng.randrange(0, 2)))
    if mode in ('next', 'next2', 'stop+next', 'init+next', 'shutdown+next'):
      add(dict(kind='next', batch=rng.choice([1, 2, 3])))
    if mode in ('next2', 'init+next'):
      add(dict(kind='next', batch=rng.choice([1, 2])))
    if mode in ('stop', 'stop+next'):
      add(dict(kind='stop', fatal=rng.random() < 0.4))
    if mode in ('shutdown', 'shutdown+init', 'shutdown+next'):
      add(dict(kind='shutdown'))
    if mode == 'client2':
      k = rng.randrange(0, 3)
      add(dict(kind='client', src=None, n=k, fail_at=rng.choice([None, None] + list(range(k + 1))), batch=rng.choice([1, 2])))
    ctx.count('kind', mode)
    yield dict(prefetch=rng.choice([1, 2, 3]), threads=ths, sched=sched_spec(rng))


def _renumber(ths):
  """element values / return values identify the thread that owns the generator"""
  out = []
  for i, p in enumerate(ths):
    p = dict(p)
    if 'n' in p:
      p['src'] = gen_src(i, p.pop('n'), p.pop('fail_at', None))
      p['ret'] = 900 + i
    out.append(p)
  return out


def gen_failed_init(ctx):
  """histories with an init_generator that FAILS on the server: what precedes it (nothing / a live generator),
  how it fails, who issues it (bare request / client loop) and what follows (next_batch, shutdown, stop, another
  init) — the order of the concurrent requests is the scheduler's choice."""
  rng = ctx.rng
  reps = 3 if ctx.quick else 8
  bases = [[], [dict(kind='init', n=2)], [dict(kind='init', n=0)], [dict(kind='client', n=3, batch=2)],
           [dict(kind='init', n=3, fail_at=1)]]
  for base in bases:
    for build in ('raise', 'noniter'):
      for who in ('init', 'client'):
        for nb in (1, 3):
          for prefetch in (1, 2):
            for _ in range(reps):
              bad = dict(kind=who, build=build, **({'batch': 1} if who == 'client' else {}))
              ths = _renumber(base + [bad, dict(kind='next', batch=nb)])
              ctx.count('kind', f'failed-init:{build}:{who}')
              yield dict(prefetch=prefetch, threads=ths, sched=sched_spec(rng))
  for _ in range(500 if ctx.quick else 6000):
    base = copy.deepcopy(rng.choice(bases + [[dict(kind='client', n=rng.randrange(0, 5), batch=rng.choice([1, 2, 3]))]]))
    build = rng.choice(['raise', 'noniter'])
    who = rng.choice(['init', 'init', 'client'])
    ths = base + [dict(kind=who, build=build, **({'batch': rng.choice([1, 2])} if who == 'client' else {})),
                  dict(kind='next', batch=rng.choice([1, 2, 3]))]
    more = rng.choice(['', '', 'next', 'shutdown', 'shutdown', 'stop', 'bad2', 'init-after', 'init-after'])
    if more == 'next':
      ths.append(dict(kind='next', batch=rng.choice([1, 2])))
    elif more == 'shutdown':
      ths.append(dict(kind='shutdown'))
    elif more == 'stop':
      ths.append(dict(kind='stop', fatal=rng.random() < 0.4))
    elif more == 'bad2':
      ths.append(dict(kind='init', build=rng.choice(['raise', 'noniter'])))
    elif more == 'init-after':
      ths.append(dict(kind='init', n=rng.randrange(0, 3)))
    rng.shuffle(ths)
    ctx.count('kind', f'failed-init:{build}:{who}' + (f'+{more}' if more else ''))
    yield dict(prefetch=rng.choice([1, 2, 3]), threads=_renumber(ths), sched=sched_spec(rng))


def gen_windows(ctx):
  """WINDOW schedules (lib_prefetch.hold_chooser): one request is taken up to the lock acquisition that follows its
  unlocked check — `_init_iterator`: `if self._shutdown_requested` … unpickle … `with self._generator_lock`;
  `_next_batch`: `generator = self._generator` … `get_batch`'s dequeue lock; `_stop_prefetch` / `_request_shutdown`: the
  lock itself — and is held there while every other thread (a shutdown with the server thread's callback, a
  re-initialisation, a stop, a client loop) runs until nothing else can; then it resumes.  What precedes the request
  (`lead` random steps of the others: nothing / a generator installed / partly consumed / exhausted) is drawn too."""
  rng = ctx.rng
  reps = 2 if ctx.quick else 12
  def spec(hold, at):
    return dict(kind='hold', seed=rng.randrange(10**9), hold=hold, at=at, lead=rng.choice([0, 0, 3, 8, 15, 25, 40]))
  bases = [[], [dict(kind='client', n=3, batch=1)], [dict(kind='client', n=4, batch=2)], [dict(kind='init', n=2)],
           [dict(kind='init', n=0)], [dict(kind='client', n=2, fail_at=1, batch=1)]]
  # -- init_generator (bare request / client loop; healthy / failing construction) held at the generator lock
  helds = [dict(kind='init', n=3), dict(kind='init', n=0), dict(kind='client', n=2, batch=1),
           dict(kind='init', build='raise'), dict(kind='client', build='noniter', batch=1)]
  rivals = [[dict(kind='shutdown')], [dict(kind='shutdown'), dict(kind='next', batch=1)], [dict(kind='stop', fatal=False)],
            [dict(kind='init', n=1)], []]
  for base in bases:
    for held in helds:
      for rv in rivals:
        for prefetch in (1, 2):
          for _ in range(reps if rv and rv[0]['kind'] == 'shutdown' else 1):
            ths = _renumber(copy.deepcopy(base) + [copy.deepcopy(held)] + copy.deepcopy(rv))
            ctx.count('kind', 'window:init' + ('+shutdown' if rv and rv[0]['kind'] == 'shutdown' else ''))
            yield dict(prefetch=prefetch, threads=ths, sched=spec(len(base) + 1, 'acquire gen'))
  # -- next_batch held between reading self._generator and get_batch's dequeue lock
  for base in ([dict(kind='init', n=3)], [dict(kind='init', n=1)], [dict(kind='client', n=4, batch=1)]):
    for rv in ([dict(kind='init', n=2)], [dict(kind='stop', fatal=True)], [dict(kind='shutdown')],
               [dict(kind='init', build='raise')], [dict(kind='init', n=1), dict(kind='shutdown')]):
      for prefetch in (1, 2):
        for _ in range(reps):
          ths = _renumber(copy.deepcopy(base) + [dict(kind='next', batch=rng.choice([1, 2, 3]))] + copy.deepcopy(rv))
          ctx.count('kind', 'window:next')
          sp = spec(len(base) + 1, 'acquire cond1#')
          sp['lead'] = rng.choice([8, 12, 20, 30, 45])      # the generator has to exist when the request arrives
          yield dict(prefetch=prefetch, threads=ths, sched=sp)
  # -- stop_prefetch / shutdown held at their lock
  for base in ([dict(kind='client', n=3, batch=1)], [dict(kind='init', n=2)]):
    for held, at in ((dict(kind='stop', fatal=False), 'acquire gen'), (dict(kind='shutdown'), 'acquire shut')):
      for rv in ([dict(kind='init', n=1)], [dict(kind='shutdown')], [dict(kind='next', batch=2)]):
        for _ in range(reps):
          ths = _renumber(copy.deepcopy(base) + [copy.deepcopy(held)] + copy.deepcopy(rv))
          ctx.count('kind', 'window:' + held['kind'])
          yield dict(prefetch=rng.choice([1, 2]), threads=ths, sched=spec(len(base) + 1, at))


def gen_values(ctx):
  """every special value read off the source (lib_prefetch_values.special_literals: exception classes named in isinstance /
  except / raise, exceptions constructed to compare with, string / tuple constants of comparisons, None) in every ROLE —
  the generator's failure, one of its elements, its return value — x batch size x how much precedes it"""
  from harness.core import REPO
  rng = ctx.rng
  lit = lv.special_literals(REPO)
  excs, plains = lv.derived_specials(lit), lv.plain_specials(lit)
  k = 0
  for t in excs + plains:
    for role in ('raise', 'yield', 'return'):
      if role == 'raise' and t[0] != 'exc':
        continue
      for batch in (1, 2, 3):
        for npre in ((0, 3) if ctx.quick else (0, 1, 2, 3, 5)):
          pre = [['int', 10 + j] for j in range(npre)]
          k += 1
          case = dict(stage='values', prefetch=1 + k % 3, batch=batch, mode=('inline', 'threaded')[k % 2], yields=pre,
                      fin={'ret': [['int', 77]]}, role=role, special=t)
          if role == 'raise':
            case['fin'] = {'raise': t}
          elif role == 'yield':
            case['yields'] = pre + [t, ['int', 99]]
          else:
            case['fin'] = {'ret': [t]}
          ctx.count('kind', f'values:{role}')
          yield case
  # a few mixed scripts
  for _ in range(60 if ctx.quick else 1500):
    ys = [rng.choice(plains + [['int', rng.randrange(100)]] * 3) for _ in range(rng.randrange(0, 6))]
    fin = {'raise': rng.choice(excs)} if rng.random() < 0.5 else {'ret': [rng.choice(plains + excs)]}
    ctx.count('kind', 'values:mixed')
    yield dict(stage='values', prefetch=rng.choice([1, 2, 3]), batch=rng.choice([1, 2, 3, 5]),
               mode=rng.choice(['inline', 'threaded']), yields=ys, fin=fin, role='mixed', special=None)


def _is_values(case):
  return case.get('stage') == 'values'


def run_impl(case):
  if _is_values(case):
    return lv.run_values(case, timeout=4.0)
  return lp.run_real(case)


model_requests = None


def model_requests_obs(case, obs):
  if _is_values(case):
    return [lv.model_request(case)]
  return lp.model_requests_obs(case, obs)


def model_obs(case, resps):
  if _is_values(case):
    return lv.model_obs(case, resps[0])
  return lp.model_obs(case, resps)


def compare(obs, m):
  if obs.get('stage') == 'values':
    return lv.compare(obs, m)
  return lp.compare(obs, m)


# ------------------------------------------------------------------ the property, on the real run

def _gens(case):
  """generator index -> (values before the first failure, fails?, return value)"""
  out = {}
  for i, p in enumerate(case['threads']):
    if 'src' in p and not _bad_build(p):
      vals = []
      fails = False
      for v in p['src']:
        if v == 'fail':
          fails = True
          break
        vals.append(v)
      out[i] = (vals, fails, p['ret'])
  return out


def _bad_build(p):
  return p.get('build', 'ok') != 'ok'


_BUILD_ERR = {'raise': 'ValueError', 'noniter': 'TypeError'}


def _newest_queue(obs):
  if obs.get('nqueues') is not None:
    return obs['nqueues'] - 1 if obs['nqueues'] else None
  ks = [int(l.rsplit('#', 1)[1]) for _, l in obs['trace'] if '#' in l]
  return max(ks) if ks else None


def _after_shutdown(case, obs):
  """read off the TRACE of synchronisation operations (the order of events) and the requests' answers only"""
  trace = obs.get('trace') or []
  ths, n = case['threads'], len(case['threads'])
  done_at = next((k for k, (tid, lbl) in enumerate(trace) if tid == lp.MAIN and lbl == 'release gen'), None)
  if done_at is None:
    return None
  for k in range(done_at + 1, len(trace)):
    tid, lbl = trace[k]
    if lbl == 'thread_start thread':
      return (f'request thread {tid} ({ths[tid - 1]["kind"] if 1 <= tid <= n else "?"}) installed a generator and started its '
              f'prefetch thread at step {k}, AFTER the server\'s shutdown callback had completed (step {done_at}): nothing will '
              f'ever stop that generator')
  for i, p in enumerate(ths):
    if p['kind'] not in ('init', 'client'):
      continue
    took = next((k for k, (tid, lbl) in enumerate(trace) if tid == i + 1 and lbl == 'acquire gen'), None)
    if took is None or took < done_at:
      continue
    o = obs['threads'][i]
    if not o['done']:
      continue     # reported by the blocked-thread clause
    if o.get('outcome') != {'raise': 'TimeoutError'}:
      return (f'{p["kind"]} request {i + 1} took the generator lock at step {took}, after the shutdown callback had completed '
              f'(step {done_at}), and was answered with {o.get("outcome")} instead of the shutdown TimeoutError')
    if o.get('yielded'):
      return f'client {i + 1} yielded {o["yielded"]} from a server that had shut down before its generator could be installed'
  if any(not pr['done'] for pr in obs.get('producers', [])):
    return (f'a prefetch thread is still alive after the shutdown callback completed at step {done_at}: {obs["producers"]} '
            f'(left: {obs["left"]})')
  return None


def oracle(case, obs):
  if _is_values(case):
    return lv.oracle(case, obs)
  gens = _gens(case)
  ths, n = case['threads'], len(case['threads'])
  if obs['outcome'] not in ('done', 'deadlock'):
    return f"run did not finish: {obs['outcome']} {obs.get('err')}"
  newest = _newest_queue(obs)
  has_shutdown = any(p['kind'] == 'shutdown' for p in ths)
  # -- nothing stays blocked: requests, old prefetch threads, (after a shutdown) everything
  for tid, name, label in obs['left']:
    if tid == lp.MAIN and label in ('wake shut', 'wait shut') and not has_shutdown:
      continue   # the idle server loop
    if 1 <= tid <= n:
      return f'request thread {tid} ({ths[tid - 1]["kind"]}) stays blocked at "{label}" (left: {obs["left"]})'
    if tid > n:
      k = int(label.rsplit('#', 1)[1]) if label and '#' in label else None
      if has_shutdown or k != newest or not (label or '').startswith('wake cond2'):
        return (f'prefetch thread {tid} of generator queue #{k} was never stopped: blocked at "{label}" '
                f'(newest queue #{newest}, shutdown={has_shutdown}; left: {obs["left"]})')
      continue
    if tid == lp.MAIN:
      return f'the server thread stays blocked at "{label}" after the shutdown request (left: {obs["left"]})'
  # -- shutting down stops the generator FOR GOOD: once the server thread's shutdown callback (the locked stop inside
  #    `_shutdown_server`) has completed, no generator is installed any more — an init_generator request that gets the
  #    generator lock afterwards (it passed its entry check earlier and was delayed: slow unpickling, waiting for the
  #    lock) is answered with the shutdown TimeoutError, starts no prefetch thread, and no prefetch thread survives
  w = _after_shutdown(case, obs)
  if w is not None:
    return w
  # -- an init_generator whose lazy object cannot be turned into a generator FAILS (with the constructor's exception /
  #    a TypeError; with the shutdown time-out when the server is shutting down; with a transport error when it has
  #    stopped), its client loop yields nothing, and afterwards the server answers as if that call had never installed
  #    anything: from no generator at all, or from the previous, stopped one (never from a generator nobody feeds)
  for i, p in enumerate(ths):
    if not _bad_build(p):
      continue
    o = obs['threads'][i]
    if not o['done']:
      return f'the failing {p["kind"]} request {i + 1} never returned: {o}'
    out = o.get('outcome')
    ok_outs = [{'raise': 'rpc_error', 'code': 2, 'cause': _BUILD_ERR[p['build']]}, {'raise': 'TimeoutError'},
               {'raise': 'rpc_error', 'code': 4}]
    if out not in ok_outs:
      return (f'init_generator of request {i + 1} (lazy object: {p["build"]}) ended with {out}; it has to fail with '
              f'{_BUILD_ERR[p["build"]]} (or the shutdown time-out / a transport error of a stopped server)')
    if out == {'raise': 'TimeoutError'} and not has_shutdown:
      return f'init_generator of request {i + 1} answered with the shutdown time-out although nobody requested a shutdown'
    if out == {'raise': 'rpc_error', 'code': 4} and not has_shutdown:
      return f'init_generator of request {i + 1} met a stopped server although nobody requested a shutdown'
    if p['kind'] == 'client' and o.get('yielded'):
      return f'client {i + 1}, whose generator could not be constructed, yielded {o["yielded"]}'
  if not gens:
    # no generator ever exists: every next_batch is answered at once with the "generator is not set" time-out
    for i, p in enumerate(ths):
      o = obs['threads'][i]
      if p['kind'] == 'next' and o.get('reply') is not None:
        r = o['reply']
        if r['elems'] or r['marker'] != {'raise': 'TimeoutError'}:
          return (f'no init_generator of this history succeeds, yet request {i + 1} was answered with {r} instead of the '
                  f'"generator is not set" time-out')
  # -- collect what every consumer was given
  given = []      # (thread index, elems, marker)
  for i, p in enumerate(ths):
    o = obs['threads'][i]
    if p['kind'] == 'client' and _bad_build(p):
      continue
    if p['kind'] == 'client':
      given.append((i, list(o.get('yielded', [])), o.get('outcome')))
    elif p['kind'] == 'next' and o.get('reply') is not None:
      r = o['reply']
      if r['nmarkers'] > 1 or not r['marker_last']:
        return f'reply of request {i + 1} has {r["nmarkers"]} markers / a marker before an element: {r}'
      given.append((i, list(r['elems']), r['marker']))
  allv = [v for _, el, _ in given for v in el]
  if len(set(allv)) != len(allv):
    return f'an element was delivered twice: {sorted(allv)}'
  known = {v for vals, _, _ in gens.values() for v in vals}
  if not set(allv) <= known:
    return f'an element was invented: {sorted(set(allv) - known)}'
  delivered = {k: sorted(v for v in allv if v // 100 == k) for k in gens}
  for i, el, mk in given:
    kind = ths[i]['kind']
    gs = sorted({v // 100 for v in el})
    if kind == 'next' and len(gs) > 1:
      return f'one reply mixes elements of generators {gs}: {el}'
    for k in gs:
      sub = [v for v in el if v // 100 == k]
      if sub != sorted(sub):
        return f'thread {i + 1} got generator {k} out of order: {sub}'
    if mk and mk.get('raise') == 'StopIteration':
      args = mk.get('args', [])
      owner = [k for k, (_, _, ret) in gens.items() if args == [ret]]
      if not owner:
        return f'end marker of thread {i + 1} carries {args}, which is no generator\'s return value'
      k = owner[0]
      vals, fails, _ = gens[k]
      if fails:
        return f'thread {i + 1} got a clean end marker of generator {k}, which fails'
      if delivered[k] != vals:
        return (f'end marker of generator {k} delivered although only {delivered[k]} of its elements {vals} were delivered')
      if kind == 'next' and gs and gs != [k]:
        return f'reply carries elements of generator {gs} with the end marker of generator {k}: {el} + StopIteration({args})'
    if kind == 'next' and not el and mk is None:
      return f'request {i + 1} was answered with an empty batch and no marker'
  # -- a generator failure is delivered after everything produced before it
  failing = [k for k, (_, fails, _) in gens.items() if fails]
  if len(failing) == 1 and len(gens) == 1 and not has_shutdown and not any(p['kind'] == 'stop' for p in ths):
    k = failing[0]
    saw = [i for i, _, mk in given if mk and mk.get('raise') == 'ValueError']
    if saw and delivered[k] != gens[k][0]:
      return (f'the failure of generator {k} was delivered but only {delivered[k]} of the elements {gens[k][0]} '
              f'produced before it')
  # -- one undisturbed client: exactly the generator
  if n == 1 and ths[0]['kind'] == 'client' and not _bad_build(ths[0]):
    vals, fails, ret = gens[0]
    o = obs['threads'][0]
    if not o['done']:
      return f'the client never finished: {o}'
    if o['yielded'] != vals:
      return f'client yielded {o["yielded"]} != generator {vals}'
    want = {'raise': 'ValueError'} if fails else {'raise': 'StopIteration', 'args': [ret]}
    if o['outcome'] != want:
      return f'client ended with {o["outcome"]}, expected {want}'
    if not all(pr['done'] for pr in obs['producers']):
      return f'prefetch thread still alive after the generator ended: {obs["producers"]}'
  # -- a client only ever sees its own generator (its stream may be cut short by a re-init / stop / shutdown)
  for i, p in enumerate(ths):
    if p['kind'] != 'client' or _bad_build(p):
      continue
    o = obs['threads'][i]
    vals, fails, ret = gens[i]
    y = o.get('yielded', [])
    if any(v // 100 != i for v in y):
      return f'client {i + 1} (generator {i}) was given elements of another generator: {y}'
    competitors = any(q['kind'] in ('next', 'client') for j, q in enumerate(ths) if j != i)
    if not competitors and y != vals[:len(y)]:
      return f'client {i + 1} yielded {y}, not a prefix of its generator {vals}'
    mk = o.get('outcome')
    if mk and mk.get('raise') == 'StopIteration' and mk.get('args') != [ret]:
      return f'client {i + 1} ended on {mk}, the end marker of another generator; its own returns {ret}'
  return None


_COV = collections.Counter()     # what the runs exercised, classified from their traces (filled in the parent process)
PROMISED = ['failed-init: construction raises', 'failed-init: not iterable', 'failed-init: issued by a client loop',
            'failed-init: a request is issued after it, no generator was ever installed',
            'failed-init: it stopped a live generator, a request is issued after it',
            'failed-init: shutdown already requested', 'failed-init: waits for the generator lock / in a locked stop']


def _cover(case, obs):
  """classifies what a run exercised from the CASE and the TRACE of synchronisation operations only (never from the
  outcomes, which a broken implementation changes)"""
  ths = case.get('threads')
  if not ths or not any(_bad_build(p) for p in ths) or 'trace' not in obs:
    return
  trace = obs['trace']
  first, last, ops, where = {}, {}, collections.defaultdict(list), collections.defaultdict(dict)
  for k, (tid, lbl) in enumerate(trace):
    first.setdefault(tid, k)
    last[tid] = k
    ops[tid].append(lbl)
    where[tid].setdefault(lbl, k)
  installs = [k for k, (tid, lbl) in enumerate(trace) if lbl == 'thread_start thread']
  shutdowns = [where[j + 1]['acquire shut'] for j, q in enumerate(ths)
               if q['kind'] == 'shutdown' and 'acquire shut' in where[j + 1]]
  for i, p in enumerate(ths):
    if not _bad_build(p):
      continue
    tid = i + 1
    if tid not in first:
      continue
    decided = where[tid].get('acquire gen', first[tid])     # where the handler sees the shutdown flag for the last time
    if any(k < decided for k in shutdowns):
      _COV['failed-init: shutdown already requested'] += 1
      continue
    if 'release gen' not in ops[tid]:
      continue                                               # cut short / still inside
    _COV['failed-init: construction raises' if p['build'] == 'raise' else 'failed-init: not iterable'] += 1
    if p['kind'] == 'client':
      _COV['failed-init: issued by a client loop'] += 1
    stopped = any('#' in l for l in ops[tid])          # it ran maybe_stop on a live generator's queue
    if stopped or 'join thread' in ops[tid]:
      _COV['failed-init: waits for the generator lock / in a locked stop'] += 1
    end = where[tid]['release gen']
    later = [j for j, q in enumerate(ths) if q['kind'] == 'next' and first.get(j + 1, -1) > end]
    if later:
      if not any(k < end for k in installs):
        _COV['failed-init: a request is issued after it, no generator was ever installed'] += 1
      if stopped:
        _COV['failed-init: it stopped a live generator, a request is issued after it'] += 1


W_INIT_AFTER = ('window: an init_generator passed its entry check of the shutdown flag BEFORE the flag was set and took the '
                'generator lock AFTER the shutdown callback had completed')
W_INIT_BETWEEN = ('window: an init_generator passed its entry check before the shutdown flag was set and took the generator lock '
                  'after it was set, before the shutdown callback')
W_NEXT_REPLACED = ('window: a next_batch request read self._generator, the generator was stopped / replaced / shut down, then the '
                   'request entered get_batch on the old queue')
W_INIT_LATE = 'window: an init_generator arrived after the shutdown callback had completed (entry check answers)'
PROMISED += [W_INIT_AFTER, W_INIT_BETWEEN, W_NEXT_REPLACED, W_INIT_LATE]


def _cover_windows(case, obs):
  """which check-to-lock windows a run went through: from the ORDER of synchronisation operations only"""
  ths = case.get('threads')
  trace = obs.get('trace') if isinstance(obs, dict) else None
  if not ths or not trace:
    return
  where = collections.defaultdict(dict)
  for k, (tid, lbl) in enumerate(trace):
    where[tid].setdefault(lbl, k)
    if '#' in lbl:
      where[tid].setdefault('#first', k)
  flag = min((where[j + 1]['acquire shut'] for j, q in enumerate(ths)
              if q['kind'] == 'shutdown' and 'acquire shut' in where[j + 1]), default=None)
  cb_start, cb_end = where[lp.MAIN].get('acquire gen'), where[lp.MAIN].get('release gen')
  for i, p in enumerate(ths):
    w = where[i + 1]
    if p['kind'] in ('init', 'client') and 'start' in w:
      took = w.get('acquire gen')
      if flag is not None and w['start'] < flag and took is not None:
        if cb_end is not None and took > cb_end:
          _COV[W_INIT_AFTER] += 1
        elif took > flag and (cb_start is None or took < cb_start):
          _COV[W_INIT_BETWEEN] += 1
      if cb_end is not None and w['start'] > cb_end:
        _COV[W_INIT_LATE] += 1
    if p['kind'] == 'next' and 'start' in w and '#first' in w:
      # somebody else's locked stop (maybe_stop takes the queue's states lock) ran entirely inside the gap
      others = [k for k, (tid, lbl) in enumerate(trace)
                if w['start'] < k < w['#first'] and tid != i + 1 and lbl.startswith('release gen')]
      if others:
        _COV[W_NEXT_REPLACED] += 1


_COV_VAL = collections.Counter()


def nontrivial(case, obs):
  if _is_values(case):
    if case.get('special') is not None:
      _COV_VAL[(case['role'], lv.json.dumps(case['special']))] += 1
    return bool(case['yields']) or 'raise' in case['fin']
  ths = case.get('threads') or []
  if 'trace' in obs and (any(_bad_build(p) for p in ths) or case.get('sched', {}).get('kind') == 'hold'):
    w = oracle(case, obs)
    if w is not None and finding(case, w) is None:
      _COV['(runs that failed the oracle)'] += 1      # the promised arms are enforced on runs that pass the oracle only
  _cover(case, obs)
  _cover_windows(case, obs)
  ch = obs['choices']
  return sum(1 for a, b in zip(ch, ch[1:]) if a != b) >= 10


def finding(case, what):
  """C15-F27: the protocol has no session identity — a client whose generator is replaced between two of
  its requests continues on the new generator (needs a client plus another init_generator/client)."""
  if _is_values(case):
    # C15-F-inband-exception: an ELEMENT of the generator that is itself an Exception instance is read as a marker
    if any(t[0] == 'exc' for t in case['yields']) and what and ('yielded' in what or 'did not end' in what or 'raised' in what):
      return 'C15-F-inband-exception'
    return None
  if 'threads' not in case:
    return None
  ths = case['threads']
  inits = sum(1 for p in ths if p['kind'] in ('client', 'init'))
  if any(p['kind'] == 'client' for p in ths) and inits >= 2 and (
      'another generator' in what or 'not a prefix' in what):
    return 'C15-F27'
  return None


def neighbours(case, rng):
  if _is_values(case):
    for b in (1, 2, 3, 5):
      for pf in (1, 2, 3):
        for mode in ('inline', 'threaded'):
          yield dict(case, batch=b, prefetch=pf, mode=mode)
    return
  for k in range(400):
    c = copy.deepcopy(case)
    c['sched'] = sched_spec(rng)
    if k % 4 == 0:
      c['prefetch'] = rng.choice([1, 2, 3])
    if k % 5 == 0:
      for p in c['threads']:
        if 'batch' in p:
          p['batch'] = rng.choice([1, 2, 3, 5])
    yield c


def shrink(case, fails):
  if _is_values(case):
    cur = case
    changed = True
    while changed:
      changed = False
      for i in range(len(cur['yields'])):
        c = dict(cur, yields=cur['yields'][:i] + cur['yields'][i + 1:])
        if fails(c) is not None:
          cur, changed = c, True
          break
    return cur

  def bad(c):
    """a genuine failure of the candidate (a schedule that no longer fits the smaller case is not one)"""
    w = fails(c)
    return w is not None and not w.startswith('run did not finish')

  def variants(c):
    """the candidate itself; with a recorded schedule also under a few fresh schedules (the recorded choices do not
    fit a case with fewer threads / shorter generators)"""
    yield c
    if c.get('sched', {}).get('kind') == 'replay':
      for k in range(12):
        yield dict(c, sched=dict(kind='random', seed=1000 + k))

  cur = case
  changed = True
  while changed:
    changed = False
    # drop request threads (a healthy first client is kept), then trailing source items
    keep0 = cur['threads'][0]['kind'] == 'client' and not _bad_build(cur['threads'][0])
    for i in range(len(cur['threads']) - 1, 0 if keep0 else -1, -1):
      if len(cur['threads']) <= 1:
        break
      c = copy.deepcopy(cur)
      del c['threads'][i]
      for j, p in enumerate(c['threads']):
        if 'src' in p:
          p['src'] = [v if v == 'fail' else 100 * j + (v % 100) for v in p['src']]
          p['ret'] = 900 + j
      hit = next((v for v in variants(c) if bad(v)), None)
      if hit is not None:
        cur, changed = hit, True
        break
    if changed:
      continue
    for i, p in enumerate(cur['threads']):
      if p.get('src'):
        c = copy.deepcopy(cur)
        c['threads'][i]['src'].pop()
        hit = next((v for v in variants(c) if bad(v)), None)
        if hit is not None:
          cur, changed = hit, True
          break
  return cur


# ------------------------------------------------------------------ end-to-end stage (real OS threads)

def _e2e_one(mode, prefetch, batch, n, fail_at, ret):
  """the real client loop against the real server, real threads, fake courier in `mode`"""
  import asyncio
  import queue as _queue
  from harness import fakecourier
  fakecourier.install()
  fakecourier.reset(mode=mode)
  from ml_metrics._src.chainables import courier_server, lazy_fns
  from ml_metrics._src.utils import courier_utils
  server = courier_server.PrefetchedCourierServer(prefetch_size=prefetch)
  lp._KEEP.append(server)
  server.start()
  try:
    cl = courier_utils.CourierClient(server.address, iterate_batch_size=batch)
    lp._KEEP.append(cl)
    task = courier_utils.GeneratorTask.new(lazy_fns.trace(plain_generator)(n, fail_at, ret))
    rq = _queue.SimpleQueue()
    got = []

    async def consume():
      async for x in cl.async_iterate(task, generator_result_queue=rq):
        got.append(x)
    try:
      asyncio.run(asyncio.wait_for(consume(), timeout=20))
      rets = []
      while not rq.empty():
        rets.append(rq.get())
      return got, {'raise': 'StopIteration', 'args': rets}
    except Exception as e:  # pylint: disable=broad-except
      from harness.core import err_kind
      return got, {'raise': err_kind(e)}
  finally:
    server.stop().join(timeout=10)


def plain_generator(n, fail_at, ret):
  for i in range(n):
    if i == fail_at:
      raise ValueError(f'generator failed at {i}')
    yield i
  if fail_at == n:
    raise ValueError(f'generator failed at {n}')
  return ret


def _e2e_guarded(args, timeout=30):
  """runs one end-to-end case on a daemon thread (the server must not install signal handlers in the check
  process, and a blocked request must not hang the check); returns None when it does not finish"""
  import threading
  box = {}

  def body():
    try:
      box['r'] = _e2e_one(*args)
    except BaseException as e:  # pylint: disable=broad-except
      box['e'] = e
  th = threading.Thread(target=body, daemon=True)
  th.start()
  th.join(timeout)
  if th.is_alive():
    return None
  if 'e' in box:
    raise box['e']
  return box['r']


def _explore_stage(ctx):
  """exhaustive exploration of the Lean LTS (ALL schedules) for small configurations: every configuration in
  which no thread is enabled is handed to the same oracle as a real run (so a model-level deadlock, a lost
  element or a wrong marker is reported with its schedule, which is a replayable case for the real code), and
  no reachable configuration may have a prefetch thread of a replaced generator that is still feeding."""
  rng = ctx.rng
  one = [(n, f, p, b) for n in range(0, 4) for f in [None] + list(range(n + 1)) for p in (1, 2) for b in (1, 2, 3)]
  rng.shuffle(one)
  cases = [dict(prefetch=p, threads=[dict(kind='client', src=gen_src(0, n, f), ret=900, batch=b)])
           for n, f, p, b in one[:24 if ctx.quick else len(one)]]
  multi = [
      [dict(kind='client', src=[0, 1], ret=900, batch=2), dict(kind='shutdown')],
      [dict(kind='client', src=[0, 'fail'], ret=900, batch=2), dict(kind='stop', fatal=False)],
      [dict(kind='client', src=[0, 1], ret=900, batch=1), dict(kind='next', batch=1)],
      [dict(kind='init', src=[0, 1], ret=900), dict(kind='shutdown'), dict(kind='next', batch=2)],
      # a failing init_generator (all schedules): on a fresh server, after / racing with a healthy one, with a shutdown
      [dict(kind='init', build='raise'), dict(kind='next', batch=1)],
      [dict(kind='client', build='noniter', batch=1), dict(kind='next', batch=2), dict(kind='next', batch=1)],
      [dict(kind='init', src=[0, 1], ret=900), dict(kind='init', build='noniter'), dict(kind='next', batch=1)],
      [dict(kind='init', src=[0], ret=900), dict(kind='init', build='raise'), dict(kind='shutdown')],
      [dict(kind='client', src=[0, 1], ret=900, batch=1), dict(kind='init', build='raise')],
      [dict(kind='init', build='raise'), dict(kind='init', build='noniter'), dict(kind='next', batch=1), dict(kind='shutdown')],
  ]
  # 0.3-1 M states each (10-40 s): thorough tier only, so that the quick tier's wall time does not depend on the seed
  heavy = [
      [dict(kind='client', src=[0], ret=900, batch=1), dict(kind='init', src=[100], ret=901)],
      [dict(kind='init', src=[0], ret=900), dict(kind='init', src=[100], ret=901), dict(kind='next', batch=1)],
  ]
  for ths in multi + ([] if ctx.quick else heavy):
    if any(_bad_build(p) for p in ths):
      ctx.count('explore', 'configurations with a failing init_generator')
    cases.append(dict(prefetch=rng.choice([1, 2]), threads=ths))
  reqs = [dict(model='prefetch', op='explore', prefetch=c['prefetch'], threads=c['threads'], schedule=[],
               limit=1500000 if ctx.quick else 6000000) for c in cases]
  resps = ctx.lean.ask_many(reqs)
  states = 0
  for c, r in zip(cases, resps):
    if 'driver_error' in r:
      ctx.extra_disagreements.append(('explore', c, str(r)))
      continue
    states += r['states']
    ctx.count('explore', 'configurations')
    ctx.count('explore', 'states', r['states'])
    ctx.count('explore', 'quiescent observations', len(r['quiescent']))
    if not r['complete']:
      ctx.count('explore', 'incomplete (state limit)')
    for sch in r['bad_old']:
      ctx.extra_oracle_failures.append((dict(c, sched=dict(kind='replay', choices=sch)),
                                        'model: a prefetch thread of a replaced generator is still feeding its queue'))
    for q in r['quiescent']:
      obs = dict(outcome='done', trace=[], choices=q['schedule'], nqueues=q['nqueues'], left=q['left'],
                 threads=q['threads'], producers=q['producers'], main_done=q['main_done'])
      w = oracle(c, obs)
      if w is not None:
        ctx.extra_oracle_failures.append((dict(c, sched=dict(kind='replay', choices=q['schedule'])), 'model: ' + w))
  ctx.extra_evals += len(cases)
  ctx.notes.append(f'exhaustive model exploration: {len(cases)} configurations, {states} states')
  ctx.notes.append(PROVED_LIVENESS)


def _values_coverage(ctx):
  """every special value the source names, in every role, was run (exit 2 otherwise); what was found is published"""
  from harness.core import InfraError, REPO
  lit = lv.special_literals(REPO)
  ctx.count('values', 'exception classes named by the code', len(lit['classes']))
  ctx.count('values', 'exceptions the code constructs', len(lit['excs']))
  ctx.count('values', 'constants the code compares with', len(lit['consts']))
  ctx.notes.append('special values read off the source: classes ' + ', '.join(lit['classes']) + '; constructed: ' +
                   '; '.join(f"{t[1]}({', '.join(repr(a[1]) for a in t[2])})" for t in lit['excs']) +
                   '; constants: ' + lv.json.dumps(lit['consts']))
  if len(lit['classes']) < 3 or not (lit['excs'] or lit['consts']):
    raise InfraError(f'the scan of the protocol code found too little to be right: {lit}')
  missing = []
  for t in lv.derived_specials(lit) + lv.plain_specials(lit):
    for role in ('raise', 'yield', 'return'):
      if role == 'raise' and t[0] != 'exc':
        continue
      n = _COV_VAL.get((role, lv.json.dumps(t)), 0)
      ctx.count('values', f'{role}', 1 if n else 0)
      if not n:
        missing.append((role, t))
  if missing:
    raise InfraError(f'special values not exercised: {missing[:5]} (+{max(0, len(missing) - 5)})')


def extra(ctx):
  import logging
  import threading
  from harness.core import InfraError
  for k in PROMISED:
    ctx.count('exercised', k, _COV.get(k, 0))
  missing = [k for k in PROMISED if not _COV.get(k)]
  # enforced on runs whose failed-init cases all pass the oracle (a failing one ends in a verdict, not here)
  if missing and not _COV.get('(runs that failed the oracle)'):
    raise InfraError(f'the runs did not exercise promised arms: {missing}')
  _values_coverage(ctx)
  _explore_stage(ctx)
  logging.disable(logging.CRITICAL)
  hook = threading.excepthook
  threading.excepthook = lambda args: None   # the failing generators' prefetch threads end with their exception
  try:
    rng = ctx.rng
    combos = [(n, f, p, b) for n in range(0, 7) for f in [None] + list(range(n + 1)) for p in (1, 2, 3) for b in (1, 2, 3, 5)]
    rng.shuffle(combos)
    for mode in ('threaded', 'inline'):
      for n, f, p, b in combos[:40 if ctx.quick else 400]:
        # the oracle is the plain Python generator itself
        want, want_out = [], None
        it = plain_generator(n, f, 77)
        try:
          while True:
            want.append(next(it))
        except StopIteration as e:
          want_out = {'raise': 'StopIteration', 'args': [e.value]}
        except ValueError:
          want_out = {'raise': 'ValueError'}
        res = _e2e_guarded((mode, p, b, n, f, 77))
        ctx.extra_evals += 1
        ctx.count('e2e', mode)
        case = dict(stage='e2e', mode=mode, prefetch=p, batch=b, n=n, fail_at=f)
        if res is None:
          ctx.extra_oracle_failures.append((case, f'end-to-end ({mode}): the client loop did not finish within 30 s '
                                                  f'(a request stays blocked); the generator is {want} then {want_out}'))
          return   # the blocked thread is abandoned; one such failure is enough
        got, out = res
        if got != want or out != want_out:
          ctx.extra_oracle_failures.append((case, f'end-to-end ({mode}): client saw {got} then {out}; the generator is {want} then {want_out}'))
  finally:
    threading.excepthook = hook
    logging.disable(logging.NOTSET)
