"""C12 — error skipping drops only failing elements; otherwise the first error surfaces.

Real code: `Pipeline...make().iterate(source, ignore_error=..)` with failing callables (`fail_on(S, kind)` from the
named library) in every operator kind, failing data sources (`SequenceDataSource(seq, ignore_error=..)` over a sequence
whose `__getitem__` raises, or a generator), batch options, `num_threads` 0 / 2.
(chainables/tree_fns.py `_iterate`/`Assign`/`FilterFn`/`Sink`, utils/iter_utils.py `iter_ignore_error`,
`processed_with_inputs`, `_RangeIterator`, chainables/io.py.)
Model: the same `pipe` model as C08 (lean/MlModel/Model/Pipe.lean + Iter.lean); theorems: Properties/C12.lean.
"""
import copy
import itertools

from harness import lib_pipe as L
from harness import lib_pipegen as G
from harness.core import jdump
from harness.props import c08

PID = 'C12'
TITLE = 'Error skipping drops only failing elements; otherwise the first error surfaces'
LEAN_MODULES = ['MlModel.Properties.C12', 'MlModel.Witness.C12']
TRUSTED = c08.TRUSTED + [
    'the data source is represented by its outcomes (per index: the element or one raise); that SequenceDataSource / '
    '_RangeIterator deliver exactly these is the subject of C09 (Lemmas/RangeIter.lean); a Python generator source ends '
    'at its first raise',
    'helper threads are observed (no multiplex_pool thread alive afterwards); of the threaded runner only the source lock wrapper '
    '_ThreadSafeIterator is modelled (Iter.tsNext / tsServe: call-atomic schedules); queues and thread termination are C04 / C13',
]
ASSUMPTIONS = c08.ASSUMPTIONS + ['skippable = iter_utils._IGNORE_ERROR_TYPES, read from the source on every run']
RULE = ('failure sets enumerated: every subset of failing positions for streams of 1..4 (quick) / 1..6 (thorough) records x the '
        'failing operator kind (apply, assign, filter, sink) x its neighbours in the chain x ignore_error on/off x error kind '
        '(ValueError, TypeError skippable; KeyError not); failing data sources (every subset, source skipping on/off, generator '
        'sources); batched apply / assign with failing batches; random C08 chains with one fail_on operator; num_threads=2 '
        '(multisets); fn-less select / assign / apply routing container VALUES (tuples of length 0/1/2/3, nested, lists, None, dicts) next to a failing function or a failing read, both skipping modes (arm value-shape, 16 shape labels x 5 forms enforced); resumable failing SOURCES that do not skip by themselves (SequenceDataSource: shardable; a user iterator '
        'class: one un-sharded source behind the _ThreadSafeIterator wrapper) x every non-empty failure set x num_threads 0/1/2 '
        '(num_threads=1: compared in order), first operator of every kind (assign / filter / sink first: the class of the '
        'repaired F-C12-passed-on); skippable routing errors passed on between operators (every subset of records whose '
        'output routing fails x the kind of the next operator); assign(batch_size=1..3) on aligned streams (last batch 1..b rows) x '
        'failing reads x skipping on/off x a failing call with skipping off, and the same with one row too many (misaligned); '
        'arm after-error (SC12c): on EVERY case in which an error reaches the caller the exception is released, every sink\'s closed is read with '
        'the iterator alive and next() is called 1..3 more times on the same iterator (delivered / written / closed recorded); failing '
        'apply|assign|filter|sink x 6 operators-in-front x 6 operators-behind (sinks, filters, plain; all 144 enforced) x every failing position x num_threads 0/1/2; '
        'arm skip-config (SC12c): skipping on the data source | on the pipeline | both | neither x route direct | .shard(k,n) | make(shard=ShardConfig(k,n)) | '
        'source iterator from_state | restored pipeline iterator (20 classes enforced) x every failing-read set in the part read afterwards.  non-trivial = at least one element fails and at least one survives')

N, P = G.N, G.P


def recs(n):
  return [G.wd(a=i, b=10 * i) for i in range(n)]


def col_recs(n, rows=1):
  return [G.wd(v=G.wl([i * rows + j for j in range(rows)]), w=G.wl([100 + i * rows + j for j in range(rows)])) for i in range(n)]


def failing_op(kind, s, err):
  fn = {'f': 'fail_on', 's': list(s), 'kind': err}
  if kind == 'apply':
    return {'op': 'apply', 'fn': fn, 'in': {'one': N('a')}, 'out': {'one': N('a')}}
  if kind == 'assign':
    return {'op': 'assign', 'fn': fn, 'in': {'one': N('a')}, 'keys': {'one': N('f')}}
  if kind == 'filter':
    return {'op': 'filter', 'fn': fn, 'in': {'one': N('a')}}     # keeps a != 0
  if kind == 'sink':
    return {'op': 'sink', 'fn': fn, 'in': {'one': N('a')}, 'is_sink': True}
  raise ValueError(kind)


BEFORE = {
    'none': [],
    'assign': [{'op': 'assign', 'fn': {'f': 'add1'}, 'in': {'one': N('a')}, 'keys': {'one': N('g')}}],
    'filter': [{'op': 'filter', 'fn': {'f': 'gt', 'c': -1}, 'in': {'one': N('a')}}],
    'sink': [{'op': 'sink', 'fn': {'f': 'ident'}, 'in': {'one': N('a')}, 'is_sink': True}],
    'apply': [{'op': 'apply', 'fn': {'f': 'tup'}, 'in': {'many': [N('a'), N('b')]}, 'out': {'many': [N('a'), N('b')]}}],
}
AFTER = {
    'none': [],
    'apply': [{'op': 'apply', 'fn': {'f': 'add1'}, 'in': {'one': N('a')}, 'out': {'one': N('h')}}],
    'assign': [{'op': 'assign', 'fn': {'f': 'neg'}, 'in': {'one': N('a')}, 'keys': {'one': N('h')}}],
    'filter': [{'op': 'filter', 'fn': {'f': 'is_even'}, 'in': {'one': N('a')}}],
    'sink': [{'op': 'sink', 'fn': {'f': 'counter'}, 'in': {'kw': [['x', N('a')]]}, 'is_sink': True}],
    'counter': [{'op': 'assign', 'fn': {'f': 'counter'}, 'in': {'one': N('a')}, 'keys': {'one': N('k')}}],
}


def subsets(n):
  for r in range(0, n + 1):
    yield from itertools.combinations(range(n), r)


def systematic(ctx):
  quick = ctx.quick
  nmax = 4 if quick else 6
  i = 0
  for kind in ('apply', 'assign', 'filter', 'sink'):
    for b, a in [('none', 'none'), ('assign', 'apply'), ('filter', 'assign'), ('sink', 'filter'), ('apply', 'sink'),
                 ('none', 'counter')]:
      for n in range(1, nmax + 1):
        for s in subsets(n):
          for ignore in (True, False):
            i += 1
            err = 'ValueError' if i % 5 else ('TypeError' if i % 10 else 'KeyError')
            specs = copy.deepcopy(BEFORE[b]) + [failing_op(kind, s, err)] + copy.deepcopy(AFTER[a])
            yield c08.mk_case(specs, recs(n), ignore=ignore, tag=f'op:{kind}')


def source_cases(ctx):
  nmax = 4 if ctx.quick else 6
  i = 0
  for first in ('apply', 'assign', 'filter', 'sink', 'select'):
    ops = {'apply': AFTER['apply'], 'assign': AFTER['assign'], 'filter': BEFORE['filter'], 'sink': BEFORE['sink'],
           'select': [{'op': 'select', 'in': {'many': [N('a'), N('b')]}}]}[first]
    for n in range(1, nmax + 1):
      for s in subsets(n):
        for ignore in (True, False):
          i += 1
          err = 'ValueError' if i % 4 else 'KeyError'
          fail = [(j, err) for j in s]
          # the source skips when the pipeline does
          yield c08.mk_case(copy.deepcopy(ops) + copy.deepcopy(AFTER['counter']), recs(n), ignore=ignore, kind='seq',
                            fail=fail, src_ignore=ignore, tag=f'source:{first}')
          if i % 3 == 0 and s:
            # a source that does not skip by itself under a runner that does
            yield c08.mk_case(copy.deepcopy(ops), recs(n), ignore=True, kind='seq', fail=fail, src_ignore=False,
                              tag=f'source-noskip:{first}')
          if i % 7 == 0 and not ignore:
            yield c08.mk_case(copy.deepcopy(ops), recs(n), ignore=False, kind='gen', fail=fail[:1], tag='source:gen')


def passed_on_cases(ctx):
  """Skippable errors that are PASSED ON between operators (the input class of the repaired finding F-C12-passed-on
  that does not come from the data source): `apply(ident, 'a', output_keys=('x', 'y'))` routes a 2-tuple and raises
  ValueError (zip strict, in the UNGUARDED `_get_outputs` map) for an int — for every subset of such records, in front
  of every operator kind (+ one more operator), skipping on / off, num_threads 0 / 1.  The English reference does not say
  whether a routing error is skippable (`undefined`), so these cases bind through the model correspondence: the repaired
  code skips the record in front of every operator kind (`C12_skip_any_partial`: `Ref.chainEventsS`)."""
  nmax = 4 if ctx.quick else 6
  route = {'op': 'apply', 'fn': {'f': 'ident'}, 'in': {'one': N('a')}, 'out': {'many': [N('x'), N('y')]}}
  nexts = {
      'assign': [{'op': 'assign', 'fn': {'f': 'neg'}, 'in': {'one': N('x')}, 'keys': {'one': N('h')}}],
      'filter': [{'op': 'filter', 'fn': {'f': 'is_even'}, 'in': {'one': N('x')}}],
      'sink': [{'op': 'sink', 'fn': {'f': 'counter'}, 'in': {'kw': [['x', N('y')]]}, 'is_sink': True}],
      'apply': [{'op': 'apply', 'fn': {'f': 'add1'}, 'in': {'one': N('x')}, 'out': {'one': N('h')}}],
      'select': [{'op': 'select', 'in': {'many': [N('y'), N('x')]}}],
  }
  i = 0
  for nxt, ops in nexts.items():
    for n in range(1, nmax + 1):
      for s in subsets(n):
        i += 1
        items = [G.wd(a=(j if j in s else {'t': [j, 10 * j]})) for j in range(n)]
        after = copy.deepcopy(AFTER['counter']) if i % 2 else []
        if after:
          after[0]['in'] = {'one': N('x')} if nxt not in ('apply',) else {'one': N('h')}
        ignore = i % 5 != 0
        yield c08.mk_case([copy.deepcopy(route)] + copy.deepcopy(ops) + after, items, ignore=ignore,
                          threads=1 if i % 7 == 0 else 0, tag=f'passed-on:{nxt}')


def threaded_source_cases(ctx):
  """Failing SOURCES (not failing functions) that can be read further after a failing read, under num_threads 0 / 1 / 2:
  the library's shardable `SequenceDataSource` (num_threads=1: one shard behind the `_ThreadSafeIterator` lock wrapper;
  num_threads=2: two shards) and an un-shardable user iterator class (always ONE source shared by the worker threads
  through the wrapper); every non-empty set of failing positions of streams of 2..4 (quick) records; the source does
  not skip by itself, the runner does (or does not: the first error surfaces); the first operator is of every kind
  (`assign` / `filter` / `sink` in that position: the input class of the REPAIRED finding F-C12-passed-on)."""
  nmax = 4 if ctx.quick else 6
  i = 0
  firsts = {'apply': AFTER['apply'], 'select': [{'op': 'select', 'in': {'many': [N('a'), N('b')]}}],
            'apply+assign': AFTER['apply'] + [{'op': 'assign', 'fn': {'f': 'neg'}, 'in': {'one': N('h')}, 'keys': {'one': N('k')}}],
            'assign': AFTER['assign']}
  for kind in ('seq', 'iter'):
    for t in (0, 1, 2):
      for first, ops in firsts.items():
        for n in range(2, nmax + 1):
          for s in subsets(n):
            if not s or (first in ('apply+assign', 'assign') and (len(s) + n) % 3):
              continue
            i += 1
            err = 'ValueError' if i % 5 else ('TypeError' if i % 10 else 'KeyError')
            ignore = i % 6 != 0
            yield c08.mk_case(copy.deepcopy(ops), recs(n), ignore=ignore, threads=t, kind=kind,
                              fail=[(j, err) for j in s], src_ignore=False, tag=f'tsource:{kind}:t{t}')


def lazy_source_cases(ctx):
  """A skipping (or not skipping) SequenceDataSource over a sequence whose slices are lazy (nested MergedSequences,
  `src.nest` = the two read-ahead sizes): the failing read surfaces in the middle of a read-ahead batch (first / middle /
  last of its window, two in one window, windows apart).  Input class of the repaired finding F10d and of seeded change
  C12-m7 (good elements of the window delivered twice)."""
  i = 0
  for n, fails in [(12, [6]), (12, [4]), (12, [7]), (12, [5, 6]), (12, [1, 9]), (9, [8]), (9, [0]), (7, [2, 3, 6])]:
    for nest in [(4, 8), (3, 5), (2, 3), (8, 4)]:
      for src_ignore, ignore in [(True, False), (True, True), (False, True), (False, False)]:
        i += 1
        err = 'ValueError' if i % 4 else 'KeyError'
        ops = [{'op': 'select', 'in': {'many': [N('a'), N('b')]}}] if i % 2 else copy.deepcopy(AFTER['apply'])
        c = c08.mk_case(ops, recs(n), ignore=ignore, kind='seq', fail=[(j, err) for j in fails], src_ignore=src_ignore,
                        tag='lazy-source')
        c['src']['nest'] = list(nest)
        yield c


def batched_cases(ctx):
  nmax = 4 if ctx.quick else 6
  for n in range(1, nmax + 2):
    for s in subsets(min(n, nmax)):
      for ignore in (True, False):
        for fb, b in [(1, 1), (0, 1), (2, 2), (1, 2)]:
          fn = {'f': 'v_fail_on', 's': list(s), 'kind': 'ValueError'}
          if (len(s) + n + fb) % 2 == 0:
            yield c08.mk_case([{'op': 'apply', 'fn': fn, 'in': {'one': N('v')}, 'out': {'one': N('o')}, 'fn_batch': fb, 'batch': b}],
                              col_recs(n), ignore=ignore, tag='batched:apply')
          if (fb, b) in ((1, 1), (0, 1)) and len(s) <= 2:
            # Assign with batch sizes (incoming batches of exactly batch_size rows: the aligned domain of F-C19-assign)
            yield c08.mk_case([{'op': 'assign', 'fn': fn, 'in': {'one': N('v')}, 'keys': {'one': N('o')}, 'fn_batch': fb, 'batch': b}],
                              col_recs(n), ignore=ignore, tag='batched:assign')


def aligned_assign_cases(ctx):
  """`assign(..., batch_size=b)` on ALIGNED streams (the domain of `C08_assign_batched_aligned_partial`): every incoming
  column batch has exactly b rows, the last 1..b; b = 1..3; with failing reads of a source that does not skip by itself
  (every subset of up to 2 positions, skipping on and off), with a failing call under skipping OFF (the first error
  surfaces; under skipping ON a failing call is finding F5), with a second operator behind; plus the same streams with ONE
  row too many in a middle batch (misaligned: finding F-C08-assign-rebatch)."""
  nmax = 3 if ctx.quick else 5
  i = 0
  for b in (1, 2, 3):
    for n in range(1, nmax + 1):
      for last in range(1, b + 1):
        sizes = [b] * (n - 1) + [last]
        rows, items = 0, []
        for sz in sizes:
          items.append(G.wd(v=G.wl(list(range(rows, rows + sz))), w=G.wl(list(range(100 + rows, 100 + rows + sz)))))
          rows += sz
        for s in subsets(n):
          if len(s) > 2:
            continue
          for ignore in (True, False):
            i += 1
            spec = {'op': 'assign', 'fn': {'f': 'v_add1'}, 'in': {'one': N('v')}, 'keys': {'one': N('o')}, 'batch': b}
            after = [] if i % 3 else [{'op': 'assign', 'fn': {'f': 'v_sum2'}, 'in': {'many': [N('o'), N('w')]}, 'keys': {'one': N('p')}}]
            yield c08.mk_case([spec] + after, copy.deepcopy(items), ignore=ignore, kind='seq' if s else 'list',
                              fail=[(j, 'ValueError' if (i + j) % 4 else 'KeyError') for j in s], src_ignore=False,
                              tag='aligned-assign')
            if not s and not ignore and n >= 2:
              # a failing call, skipping off
              for k in range(rows):
                if (i + k) % 2:
                  fspec = dict(spec, fn={'f': 'v_fail_on', 's': [k], 'kind': 'ValueError'})
                  yield c08.mk_case([fspec], copy.deepcopy(items), ignore=False, tag='aligned-assign:failing-call')
            if not s and n >= 2 and i % 2:
              bad = copy.deepcopy(items)
              bad[0]['d']['v']['l'].append(999); bad[0]['d']['w']['l'].append(1999)
              yield c08.mk_case([spec], bad, ignore=ignore, tag='misaligned-assign')


def value_shape_cases(ctx):
  """SC08b: error skipping next to operators that only ROUTE container values (tuples of length 0 / 1 / 2 / 3, nested,
  lists, None, dicts: harness/lib_pipegen.py `vs_value`): a failing function (on the int field 'k') or a failing read of
  the source in front of / behind a select, an assign without fn, an apply without fn; every surviving record must still
  carry, under the output key, exactly the value it had under the input key ("still aligned with its own inputs")."""
  fail_fn = lambda s, err: {'f': 'fail_on', 's': list(s), 'kind': err}
  i = 0
  for shape in G.VS_SHAPES:
    for s in [(0,), (1,), (0, 2), (1, 2)]:
      for ignore in (True, False):
        i += 1
        err = 'ValueError' if i % 4 else ('TypeError' if i % 8 else 'KeyError')
        recs3 = G.vs_records(shape, 3)
        guard = {'op': 'assign', 'fn': fail_fn(s, err), 'in': {'one': N('k')}, 'keys': {'one': N('f')}}
        gfilter = {'op': 'filter', 'fn': fail_fn([x + 1 for x in s], err), 'in': {'one': N('k')}}     # keeps k != 0
        forms = [
            [guard, {'op': 'select', 'in': {'one': N('a')}, 'out': {'one': N('x')}}],
            [guard, {'op': 'select', 'in': {'many': [N('a'), N('b')]}}],
            [{'op': 'assign', 'fn': None, 'in': {'one': N('a')}, 'keys': {'one': N('y')}}, guard],
            [gfilter, {'op': 'apply', 'fn': None, 'in': {'many': [N('a'), N('k')]}, 'out': {'many': [N('x'), N('k')]}}],
            [{'op': 'assign', 'fn': None, 'in': {'many': [N('a'), N('b')]}, 'keys': {'one': N('y')}},
             {'op': 'sink', 'fn': fail_fn(s, err), 'in': {'one': N('k')}, 'is_sink': True},
             {'op': 'select', 'in': {'many': [N('y'), N('c')]}, 'out': {'many': [N('p'), N('q')]}}],
        ]
        yield c08.mk_case(copy.deepcopy(forms[i % len(forms)]), recs3, ignore=ignore, tag='value-shape:op')
        yield c08.mk_case(copy.deepcopy(forms[(i + 2) % len(forms)]), recs3, ignore=ignore, tag='value-shape:op')
        # a failing read of the source (the source skips when the pipeline does / does not skip by itself)
        sel = [{'op': 'select', 'in': {'one': N('a')}}, {'op': 'assign', 'fn': None, 'in': {'one': N('a')}, 'keys': {'one': N('y')}}][i % 2]
        yield c08.mk_case([copy.deepcopy(sel)], recs3, ignore=ignore, kind='seq', fail=[(j, err) for j in s],
                          src_ignore=ignore and bool(i % 3), tag='value-shape:source')


def after_error_cases(ctx):
  """SC12c (1): OBSERVERS AFTER THE FIRST ERROR.  Skipping disabled (or enabled with an unskippable KeyError): the failing
  operator (apply / assign / filter / sink) at every position relative to sinks, filters and plain operators — a chain
  `pre + [failing] + post` for every pre in none|assign|filter|sink|apply|sink+assign and post in none|apply|assign|filter|sink|
  apply+assign — every single failing position of streams of 3 (quick) / 3..5 records plus one pair, num_threads 0 / 1 / 2.
  After the error reached the caller and was released, `lib_pipe.observe_after_error` reads every sink's `closed` while the
  iterator is still alive, calls next() again 1..3 times on the SAME iterator and records what each call did and what the
  sinks were given (`obs['post']`)."""
  pres = dict(BEFORE, **{'sink+assign': BEFORE['sink'] + BEFORE['assign']})
  posts = {k: AFTER[k] for k in ('none', 'apply', 'assign', 'filter', 'sink')}
  posts['apply+assign'] = AFTER['apply'] + [{'op': 'assign', 'fn': {'f': 'neg'}, 'in': {'one': N('h')}, 'keys': {'one': N('k')}}]
  ns = (3,) if ctx.quick else (3, 4, 5)
  i = 0
  for kind in ('apply', 'assign', 'filter', 'sink'):
    for b, pre in pres.items():
      for a, post in posts.items():
        for n in ns:
          # filter keeps a != 0: the failing positions are 1.. for a failing filter in front of which nothing drops
          for s in [(j,) for j in range(n)] + [(0, n - 1)]:
            i += 1
            for t in (0, 1, 2):
              if t and (i + t) % 3:
                continue
              err, ignore = 'ValueError', False
              if i % 7 == 0:
                err, ignore = 'KeyError', True        # skipping enabled, an unskippable error: it surfaces all the same
              elif i % 5 == 0:
                err = 'TypeError'
              specs = copy.deepcopy(pre) + [failing_op(kind, s, err)] + copy.deepcopy(post)
              c = c08.mk_case(specs, recs(n), ignore=ignore, threads=t, tag=f'after-error:{kind}:t{t}')
              c['post_next'] = 1 + i % 3
              c['ae'] = f'{b}|{kind}|{a}'
              yield c


ROUTES = ('direct', 'shard', 'make_shard', 'src_from_state', 'restored')


def skip_config_cases(ctx):
  """SC12c (2): WHERE SKIPPING IS CONFIGURED x HOW THE SOURCE REACHES THE RUNNER.  `SequenceDataSource(seq, ignore_error=s)`
  under `iterate(ignore_error=p)` for (s, p) in source-only / pipeline-only / both / neither, the source reaching the runner
  directly, through `.shard(k, n)`, through `.data_source(src) ... make(shard=ShardConfig(k, n))`, as a source iterator
  restored with `from_state`, and inside a pipeline iterator restored with `from_state` (lib_pipe.routed_iterator); every
  non-empty set of failing reads of 4 (quick) / 4..6 records that lies in the part read after the route was taken; first
  operator of every kind.  The oracle is the reference on the records the route selects (lib_pipe.effective_case): a route
  never changes whether the source skips."""
  ns = (4,) if ctx.quick else (4, 5, 6)
  firsts = {'apply': AFTER['apply'], 'assign': AFTER['assign'], 'select': [{'op': 'select', 'in': {'many': [N('a'), N('b')]}}],
            'filter': BEFORE['filter'], 'sink': BEFORE['sink']}
  i = 0
  for via in ROUTES:
    for n in ns:
      routes = {'direct': [None], 'shard': [dict(via=via, k=k, n=m) for m in (1, 2, 3) for k in range(m)],
                'make_shard': [dict(via=via, k=k, n=m) for m in (1, 2, 3) for k in range(m)],
                'src_from_state': [dict(via=via, j=j) for j in (0, 1, 2)],
                'restored': [dict(via=via, j=j) for j in (0, 1, 2)]}[via]
      for route in routes:
        for s in subsets(n):
          if not s or (route and 'j' in route and min(s) < route['j']):
            continue          # the state is captured before any failing record is met (what a state after one means: C10)
          for where in ('source', 'pipeline', 'both', 'neither'):
            i += 1
            if where == 'neither' and i % 4:
              continue
            first = list(firsts)[i % len(firsts)]
            if via == 'restored' and first in ('filter', 'sink'):
              first = 'assign'       # one sink object under two pipeline iterators; a filter decouples outputs from reads
            err = 'ValueError' if i % 5 else ('TypeError' if i % 10 else 'KeyError')
            t = 1 if (via in ('direct', 'shard', 'make_shard') and i % 6 == 0) else 0
            after = copy.deepcopy(AFTER['counter']) if i % 2 else []
            if after and first == 'apply':
              after[0]['in'] = {'one': N('h')}        # the apply replaced the record
            c = c08.mk_case(copy.deepcopy(firsts[first]) + after, recs(n),
                            ignore=where in ('pipeline', 'both'), threads=t, kind='seq', fail=[(j, err) for j in s],
                            src_ignore=where in ('source', 'both'), tag=f'skip-config:{via}:{where}')
            if route:
              c['src']['route'] = route
            yield c


def gen_cases(ctx):
  rng, quick = ctx.rng, ctx.quick

  def counted(it, cls):
    for c in it:
      ctx.count('class', c.get('tag', cls))
      ctx.count('records', len(c['src']['items']))
      ctx.count('ignore_error', bool(c.get('ignore')))
      ctx.count('failing', min(len(c['src'].get('fail', [])) + sum(len(sp.get('fn', {}).get('s', [])) for sp in c['specs'] if sp.get('fn')), 6))
      for sp in c['specs']:
        if (sp.get('fn') or {}).get('f') in ('fail_on', 'v_fail_on'):
          ctx.count('failing_operator', sp['op'] + ('+batch' if sp.get('batch') else ''))
          ctx.count('error_kind', sp['fn']['kind'])
      if c.get('threads'):
        ctx.count('threads', c['threads'])
      if 'ae' in c:
        ctx.count('after_error_position', c['ae'])
        ctx.count('after_error_next_calls', c['post_next'])
      if c.get('tag', '').startswith('value-shape'):
        for sp in c['specs']:
          if sp['op'] == 'select' or (sp['op'] in ('apply', 'assign') and sp.get('fn') is None):
            ctx.count('value_shape', f"{c['tag']}:{sp['op']}-fn:{G.classify_value(c['src']['items'][0]['d']['a'])}")
      yield c

  yield from counted(ctx.corpus(), 'corpus')
  yield from counted(systematic(ctx), 'systematic')
  yield from counted(source_cases(ctx), 'source')
  yield from counted(batched_cases(ctx), 'batched')
  yield from counted(threaded_source_cases(ctx), 'tsource')
  yield from counted(lazy_source_cases(ctx), 'lazy-source')
  yield from counted(passed_on_cases(ctx), 'passed-on')
  yield from counted(aligned_assign_cases(ctx), 'aligned-assign')
  yield from counted(value_shape_cases(ctx), 'value-shape')
  yield from counted(after_error_cases(ctx), 'after-error')
  yield from counted(skip_config_cases(ctx), 'skip-config')

  def rand(n):
    for _ in range(n):
      shape = rng.choice(['dict', 'dict', 'int', 'cols'])
      nrec = rng.randrange(1, 9)
      items = G.make_items(rng, shape, nrec)
      vals = sorted({rng.randrange(0, 9) for _ in range(rng.randrange(1, 4))})
      fail = {'kind': rng.choice(['ValueError', 'ValueError', 'TypeError', 'KeyError', 'IndexError']), 'values': vals}
      specs = G.gen_chain(rng, shape, 6, fail=fail)
      if specs:
        yield c08.mk_case(specs, items, ignore=rng.random() < 0.6, tag='random')
  yield from counted(rand(400 if quick else 10000), 'random')

  def threaded(n):
    for _ in range(n):
      nrec = rng.randrange(1, 9)
      s = [j for j in range(nrec) if rng.random() < 0.3]
      kind = rng.choice(['apply', 'assign', 'filter', 'sink'])
      ignore = rng.random() < 0.8
      specs = copy.deepcopy(BEFORE[rng.choice(['none', 'assign', 'apply'])]) + [failing_op(kind, s, 'ValueError')]
      yield c08.mk_case(specs, recs(nrec), ignore=ignore, threads=2, kind=rng.choice(['list', 'seq']), tag='threads')
  yield from counted(threaded(60 if quick else 1500), 'threads')


def extra(ctx):
  """The skippable error types are read from the source, not assumed."""
  from harness.core import InfraError
  from ml_metrics._src.utils import iter_utils
  got = tuple(sorted(t.__name__ for t in iter_utils._IGNORE_ERROR_TYPES))   # pylint: disable=protected-access
  if got != tuple(sorted(L.SKIPPABLE)):
    ctx.extra_disagreements.append(('skippable-types', None, dict(
        why=f'iter_utils._IGNORE_ERROR_TYPES is {got}, the model (Iter.Err.ignorable) assumes {L.SKIPPABLE}')))
  need = ['op:apply', 'op:assign', 'op:filter', 'op:sink', 'source:apply', 'source:assign', 'batched:apply', 'batched:assign',
          'random', 'threads', 'source-noskip:assign', 'source-noskip:filter', 'source-noskip:sink', 'passed-on:assign',
          'passed-on:filter', 'passed-on:sink', 'aligned-assign', 'aligned-assign:failing-call'] + [f'tsource:{k}:t{t}' for k in ('seq', 'iter') for t in (0, 1, 2)]
  need += [f'after-error:{k}:t{t}' for k in ('apply', 'assign', 'filter', 'sink') for t in (0, 1, 2)]
  need += [f'skip-config:{via}:{where}' for via in ROUTES for where in ('source', 'pipeline', 'both', 'neither')]
  missing = [c for c in need if c not in ctx.hist.get('class', {})]
  need_ae = [f'{b}|{k}|{a}' for k in ('apply', 'assign', 'filter', 'sink') for b in ('none', 'assign', 'filter', 'sink', 'apply', 'sink+assign')
             for a in ('none', 'apply', 'assign', 'filter', 'sink', 'apply+assign')]
  missing += [c for c in need_ae if c not in ctx.hist.get('after_error_position', {})]
  missing += [f'next-calls:{k}' for k in (1, 2, 3) if str(k) not in ctx.hist.get('after_error_next_calls', {})]
  need_vs = [f'value-shape:{where}:{op}-fn:{lab}' for lab in G.VS_LABELS
             for where, op in (('op', 'select'), ('op', 'assign'), ('op', 'apply'), ('source', 'select'), ('source', 'assign'))]
  missing += [c for c in need_vs if c not in ctx.hist.get('value_shape', {})]
  if missing:
    raise InfraError(f'generator missed promised classes: {missing}')
  c08.export_stats(ctx)
  if c08.verdict_pending():
    return          # a verdict is being reported: the counters of the comparison stages are not enforced (see c08.verdict_pending)
  inside = c08.STATS.get('assign_batched_aligned_theorem', {}).get('aligned: side-conditions hold', 0)
  if inside < 100:
    raise InfraError(f'only {inside} generated cases were inside the domain of C08_assign_batched_aligned_partial')
  if c08.STATS.get('any_source_theorem_pyref', {}).get('compared', 0) < 1000:
    raise InfraError('the any-source reference (Ref.chainEventsS) was compared with the Python reference on fewer than 1000 cases')


# ----------------------------------------------------------------------------- impl / model / oracle

def model_requests(case):
  # a routed case (src.route) is, for the model as for the reference, the plain case over the records the route selects
  reqs = c08.model_requests(L.effective_case(case))
  reqs[0]['post_next'] = case.get('post_next', L.POST_NEXT)
  return reqs


model_obs = c08.model_obs

# predicates of the named library that return one truth value whatever they are given (`OpOK.pred` is not decidable)
_PLAIN_PREDICATES = ('is_even', 'gt')


def compare_any_source(impl, model):
  """Instances of `C12_skip_any_partial` / `C08_refines_assign_aligned_partial`: whenever the decidable side conditions
  hold (`refa_ok` = Ref.runOKAB: every operator un-batched with SelfAlone, or an `assign` with batch_size on ALIGNED call
  results) and no predicate can return a tuple, the model of the code must equal the Lean reference for chains over ANY
  source (`Ref.chainEventsS`: passed-on skippable errors are skipped by the next operator) — no CleanRun condition; and
  that reference must agree with the independent Python reference wherever the latter is defined."""
  if impl.get('threads') or impl.get('build') is not None or impl.get('agg') or impl.get('hang') or 'make_error' in impl \
      or 'refa_ok' not in model:
    return None
  ok = bool(model['refa_ok'])
  if model.get('refa_assign'):
    c08._stat('assign_batched_aligned_theorem', 'aligned: side-conditions hold' if ok else 'outside (misaligned, fn_batch_size, skipped failing call)')
  c08._stat('any_source_theorem', 'side-conditions hold' if ok else 'outside (batch sizes, SELF first of several keys)')
  if not ok:
    return None
  case_filters = impl.get('filter_fns')
  ref = impl.get('pyref') or {}
  undefined = ref.get('err') is not None and ref['err'][0] == 'undefined'
  if case_filters is None or any(f not in _PLAIN_PREDICATES for f in case_filters):
    if undefined:
      return None          # possibly a predicate that returned a tuple: outside OpOK.pred
  for k, rk in (('out', 'refs_out'), ('err', 'refs_err'), ('cause', 'refs_cause')):
    if model.get(k) != model[rk]:
      return (f"the Lean reference Ref.chainEventsS differs from the Lean model of the code although the side conditions of "
              f"C12_skip_any_partial / C08_refines_assign_aligned_partial hold: {k}: {jdump(model[rk])[:200]} / {jdump(model.get(k))[:200]}")
  if undefined or 'crash' in ref or ref.get('out') is None or ref.get('lenient'):
    return None
  c08._stat('any_source_theorem_pyref', 'compared')
  if (ref['err'] is None) != (model['refs_err'] is None):
    return f"reference interpreters differ on err (any-source reference): py {ref['err']} / lean {model['refs_err']}"
  if ref.get('exact') or ref['err'] is None:
    if ref['out'] != model['refs_out']:
      return f"reference interpreters differ (any-source reference): py {jdump(ref['out'])[:300]} / lean {jdump(model['refs_out'])[:300]}"
  elif model['refs_out'] != ref['out'][:len(model['refs_out'])]:
    return 'Lean any-source reference output before the error is not a prefix of the failure-free Python reference'
  return None


def compare_after_error(impl, model):
  """Instances of `C12_first_error_is_final`: the pipeline iterator (num_threads=0) is a GENERATOR object around the operator
  chain (`Impl.pipeNext` = Iter.genNext): after the call that raised, the model's state is finalised — every later next()
  answers StopIteration, nothing is delivered or written, every sink has been closed once."""
  post = impl.get('post')
  if impl.get('threads') or impl.get('build') is not None or 'make_error' in impl or impl.get('agg') or impl.get('hang'):
    return None
  mpost = model.get('post')
  if (post is None) != (mpost is None):
    return f'after the first error: code {jdump(post)[:200]} / model {jdump(mpost)[:200]}'
  if post is None:
    return None
  c08._stat('after_error_tie', 'compared')
  for k in ('calls', 'delivered', 'closed_at_error', 'closed_after'):
    if post[k] != mpost[k]:
      return f'after the first error, {k}: code {jdump(post[k])[:200]} / model (a finalised generator) {jdump(mpost[k])[:200]}'
  if any(post['written']):
    return f"after the first error the sinks were written again: {jdump(post['written'])[:200]}; model: a finalised generator writes nothing"
  return None


def compare(impl, model):
  d = c08.compare(impl, model)
  if d is None:
    d = compare_any_source(impl, model) or compare_after_error(impl, model)
    if d is not None:
      c08._stat('verdict', 'disagreement')
  return d


def run_impl(case):
  obs = c08.run_impl(case)
  if isinstance(obs, dict):
    obs['filter_fns'] = [(sp.get('fn') or {}).get('f') for sp in case['specs'] if sp['op'] == 'filter']
  return obs


def n_failing(case):
  n = len([1 for i, k in case['src'].get('fail', [])])
  if case.get('tag', '').startswith('passed-on:'):
    n += sum(1 for x in case['src']['items'] if isinstance(x['d']['a'], int))
  vals = {dec_a(x) for x in case['src']['items']}
  for sp in case['specs']:
    fn = sp.get('fn') or {}
    if fn.get('f') == 'fail_on':
      n += len(vals & set(fn['s']))
    elif fn.get('f') == 'v_fail_on':
      n += len(fn['s'])
  return n


def dec_a(x):
  try:
    a = x['d']['a']
    return a if isinstance(a, int) else None
  except Exception:  # pylint: disable=broad-except
    return x if isinstance(x, int) else None


def oracle(case, obs):
  what = _oracle(case, obs)
  if what is not None and isinstance(obs, dict):
    # c08.oracle marked the observation with C08's finding classes; C12 has its own (F5)
    obs['oracle_new_failure'] = c08.mark_new_failure(case, what, finding)
  return what


def _oracle(case, obs):
  what = c08.oracle(case, obs)
  if what is not None:
    ref = obs.get('pyref') or {}
    if ref.get('out') is not None and obs.get('err') is None and ref.get('err') is None and obs.get('out') is not None \
        and len(obs['out']) < len(ref['out']):
      return '[lost] ' + what
    return what
  if obs.get('threads_alive'):
    return f"[threads] {obs['threads_alive']} helper threads are still alive after the iteration ended"
  return oracle_after_error(case, obs)


def oracle_after_error(case, obs):
  """'With error skipping disabled the first error reaches the caller ..., iteration stops, sinks are closed': once the
  first error has reached the caller (and has been handled and released) the SAME pipeline iterator must not hand out
  anything more, must not write to a sink again, and — with no helper threads — every sink has been closed exactly once
  although the iterator object is still alive.  (With helper threads the iterator keeps the failure to raise it again; the
  sinks are then required closed once the iterator has been dropped.)  A later next() may answer StopIteration or raise."""
  post = obs.get('post')
  if post is None or case.get('ignore'):
    return None
  k = len(obs.get('out') or [])
  if 'value' in post['calls']:
    return (f"[after-error] skipping disabled, the first error ({obs.get('err')}) reached the caller after {k} outputs, but iteration did "
            f"not stop: later next() calls answered {post['calls']} and delivered {jdump(post['delivered'])[:200]}")
  if any(post['written']):
    return (f"[after-error] skipping disabled, the sinks were written again after the first error had reached the caller: "
            f"{jdump(post['written'])[:200]} (next() calls after the error: {post['calls']})")
  if not case.get('threads'):
    if any(c != 1 for c in post['closed_at_error']):
      return (f"[after-error] skipping disabled, the first error reached the caller and was released, but close() calls per sink are "
              f"{post['closed_at_error']} (the pipeline iterator is still alive)")
    if any(c != 1 for c in post['closed_after']):
      return f"[after-error] close() calls per sink after {len(post['calls'])} more next() calls: {post['closed_after']}"
  elif any(c < 1 for c in obs.get('closed') or []):
    return f"[after-error] helper threads: close() calls per sink after the failed iterator was dropped: {obs['closed']}"
  return None


def nontrivial(case, obs):
  if obs.get('build') is not None or obs.get('out') is None or obs.get('hang'):
    return False
  return n_failing(case) >= 1 and (len(obs['out']) >= 1 or bool(case.get('ignore')))


def source_passes_skippable(case):
  src = case['src']
  return bool(case.get('ignore')) and not src.get('src_ignore') and any(k in L.SKIPPABLE for _, k in src.get('fail', []))


def finding(case, what):
  specs = case['specs']
  if case.get('ignore') and any(sp['op'] == 'assign' and sp.get('batch') and (sp.get('fn') or {}).get('f') == 'v_fail_on'
                                for sp in specs) and not c08.assign_misaligned(case):
    return 'F5'
  if what.startswith('[sink] a sink was written after') and case.get('threads'):
    return 'F-C08-sink-threads'
  if c08.assign_misaligned(case):
    return 'F-C08-assign-rebatch'
  if c08.fnbatch_unreadable(case):
    return 'F-C12-fnbatch-lost'
  return None


def neighbours(case, rng):
  yield from c08.neighbours(case, rng)
  for sp in case['specs']:
    fn = sp.get('fn') or {}
    if 's' in fn:
      for s in subsets(min(len(case['src']['items']), 4)):
        c = copy.deepcopy(case)
        for sp2 in c['specs']:
          if 's' in (sp2.get('fn') or {}):
            sp2['fn']['s'] = list(s)
        yield c


def shrink(case, fails0):
  cls = finding(case, fails0(case) or '')
  fails = lambda c: (w := fails0(c)) is not None and finding(c, w) == cls
  cur, changed = case, True
  while changed:
    changed = False
    for i in range(len(cur['specs'])):
      c = copy.deepcopy(cur); del c['specs'][i]
      if c['specs'] and fails(c):
        cur, changed = c, True
        break
    else:
      if not cur['src'].get('fail'):
        for i in reversed(range(len(cur['src']['items']))):
          c = copy.deepcopy(cur); del c['src']['items'][i]
          if fails(c):
            cur, changed = c, True
            break
  return cur
