"""Builds one property module out of several *sub-checks* (e.g. one per metric family).

A family module (harness/agg/<family>.py, harness/pipe/<x>.py, ...) defines
  CHECKS = {'C01': sub, 'C11': sub, ...}
where each `sub` is a module-like object (a class with staticmethods, a SimpleNamespace, or a
module) offering the property-module API of harness/core.py without PID:
  LEAN_MODULES, RULE, gen_cases(ctx), run_impl(case), model_requests(case), model_obs(case, resps),
  oracle(case, obs), nontrivial(case, obs), finding(case, what)
  and optionally compare, neighbours, shrink, TRUSTED, ASSUMPTIONS, extra(ctx).
Cases are tagged with case['family'] so that replay and the worker pool route them back.

Usage in harness/props/c01.py:
  from harness.multiplex import build
  globals().update(build('C01', 'title', ['harness.agg.rolling', 'harness.agg.classification']))
"""
import importlib


def build(pid, title, family_modules):
  subs = {}
  for name in family_modules:
    try:
      mod = importlib.import_module(name)
    except ModuleNotFoundError as e:
      if e.name == name:      # this family is not built (yet); anything else is a real error
        continue
      raise
    sub = getattr(mod, 'CHECKS', {}).get(pid)
    if sub is not None:
      subs[name.rsplit('.', 1)[-1]] = sub

  def uniq(xs):
    out = []
    for x in xs:
      if x not in out:
        out.append(x)
    return out

  def sub_of(case):
    return subs[case['family']]

  def gen_cases(ctx):
    for fam, sub in subs.items():
      for c in sub.gen_cases(ctx):
        c = dict(c)
        c['family'] = fam
        ctx.count('family', fam)
        yield c

  def compare(a, b):
    # the family is recorded inside the observation by run_impl / model_obs below
    fam = a.get('__family') if isinstance(a, dict) else None
    sub = subs.get(fam)
    a2 = a.get('obs') if fam else a
    b2 = b.get('obs') if isinstance(b, dict) and '__family' in b else b
    f = getattr(sub, 'compare', None) if sub is not None else None
    if f is not None:
      return f(a2, b2)
    return None if a2 == b2 else 'observations differ'

  def neighbours(case, rng):
    f = getattr(sub_of(case), 'neighbours', None)
    if f is None:
      return
    for c in f(case, rng):
      c = dict(c)
      c['family'] = case['family']
      yield c

  def shrink(case, fails):
    f = getattr(sub_of(case), 'shrink', None)
    if f is None:
      return None
    fam = case['family']
    r = f(case, lambda c: fails(dict(c, family=fam)))
    return None if r is None else dict(r, family=fam)

  def extra(ctx):
    for sub in subs.values():
      f = getattr(sub, 'extra', None)
      if f is not None:
        f(ctx)

  return dict(
      PID=pid, TITLE=title,
      LEAN_MODULES=uniq(m for s in subs.values() for m in s.LEAN_MODULES),
      TRUSTED=uniq(t for s in subs.values() for t in getattr(s, 'TRUSTED', [])),
      ASSUMPTIONS=uniq(t for s in subs.values() for t in getattr(s, 'ASSUMPTIONS', [])),
      RULE=' || '.join(f'[{fam}] {s.RULE}' for fam, s in subs.items()),
      gen_cases=gen_cases,
      run_impl=lambda case: {'__family': case['family'], 'obs': sub_of(case).run_impl(case)},
      model_requests=lambda case: sub_of(case).model_requests(case),
      model_obs=lambda case, resps: {'__family': case['family'], 'obs': sub_of(case).model_obs(case, resps)},
      oracle=lambda case, obs: sub_of(case).oracle(case, obs['obs']),
      nontrivial=lambda case, obs: sub_of(case).nontrivial(case, obs['obs']),
      finding=lambda case, what: sub_of(case).finding(case, what),
      compare=compare, neighbours=neighbours, shrink=shrink, extra=extra,
      FAMILIES=list(subs),
  )
