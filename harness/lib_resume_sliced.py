"""C10, pipelines whose aggregation is SLICED (round 10): the aggregation state is a dict with DYNAMIC keys
(`MetricKey(output_key, SliceKey(..))` added by `update_state` the first time a batch shows the slice value) and has to
survive `it.state` / `.from_state(..)` as a whole.

A sliced case (`case['sliced']` is true) reuses the C02 vocabulary (harness/props/c02.py) for aggregates, slicers, batches:
  stages   [{'name': 'a', 'drop': None | {'m','r'}, 'aggs': [..], 'slicers': [..]}, ..]     1-2 named transforms, upstream first;
           stage i = TreeTransform(name=..)[.data_source(SequenceDataSource(batches))]
                     [.filter(lambda a: len(a) % m != r, input_keys='a')].aggregate(..).add_aggregate(..)*.add_slice(..)*
           chained with `.chain(..)`: one TransformRunner per stage, the aggregation state of the chained iterator is the
           union of the stages' states
  batches, np        as in C02 (the elements of the data source)
  ops, final, idiom  as in lib_resume (history of take / ckpt / restore; 'fresh' | 'self' restore idiom)
Model: lean/MlModel/Model/ResumeSliced.lean (driver `resumesliced`, mode `history`); theorems C10_pipeline_sliced & co.

Observation (API level, canonical):
  log / final / full       per take: `len(batch['a'])` of every delivered batch (what the model predicts), and
  logfp / finalfp / fullfp the canonical JSON of every delivered batch (what the oracle compares)
  result, full_result      `it.agg_result` after the drain, canonical entries (metric, slice, value) of ALL stages
  keys, full_keys          the keys of `it.agg_state`: [[metrics..], slice]
  snaps                    `it.agg_result` after every op (a restore: of the NEW iterator)
  err / full_err           error kind of the history / of the uninterrupted run
"""
import warnings

from harness.core import canon, deep_close, err_kind, jdump
from harness import lib_resume as L

STAGE_NAMES = 'ab'

SHAPES = {
    'one-restore': lambda a, b: [['take', a], ['ckpt'], ['restore']],
    'second-generation': lambda a, b: [['take', a], ['ckpt'], ['restore'], ['take', b], ['ckpt'], ['restore']],
    'restore-then-ckpt': lambda a, b: [['take', a], ['ckpt'], ['restore'], ['ckpt'], ['restore'], ['take', b]],
    'restore-twice': lambda a, b: [['take', a], ['ckpt'], ['restore'], ['take', b], ['restore']],
    'ckpt-continue-restore': lambda a, b: [['take', a], ['ckpt'], ['take', b], ['restore']],
    'third-generation': lambda a, b: [['take', a], ['ckpt'], ['restore'], ['take', b], ['ckpt'], ['restore'], ['take', 1],
                                      ['ckpt'], ['restore']],
}


def _c02():
  from harness.props import c02
  return c02


# ----------------------------------------------------------------------------- real code

def stage_case(case, st):
  return dict(aggs=st['aggs'], slicers=st['slicers'], batches=case['batches'], np=case.get('np', []))


def build(case):
  from ml_metrics._src.chainables import io, transform
  c02 = _c02()
  ds = io.SequenceDataSource(c02.build_batches(case))
  p = None
  for i, st in enumerate(case['stages']):
    t = transform.TreeTransform(name=st['name'])
    if i == 0:
      t = t.data_source(ds)
    if st.get('drop'):
      m, r = st['drop']['m'], st['drop']['r']
      t = t.filter(lambda a, m=m, r=r: len(a) % m != r, input_keys='a')
    t = c02.build_transform(stage_case(case, st), base=t)
    p = t if p is None else p.chain(t)
  return p


def keys_canon(state):
  from ml_metrics._src.chainables import transform
  out = []
  for k in (state or {}):
    assert isinstance(k, transform.MetricKey), k
    m = k.metrics if isinstance(k.metrics, tuple) else (k.metrics,)
    sl = None
    if k.slice.features or k.slice.values:
      sl = {'features': [str(f) for f in k.slice.features], 'values': [int(x) for x in k.slice.values]}
    out.append([[str(x) for x in m], sl])
  out.sort(key=jdump)
  return out


class Run:

  def __init__(self, case):
    self.case = case
    self.pipe = build(case)
    self.c02 = _c02()

  def fresh(self):
    return self.pipe.make().iterate()

  def take(self, it, k):
    counts, fps = [], []
    for _ in range(k):
      try:
        b = next(it)
      except StopIteration:
        break
      counts.append(len(b['a']))
      fps.append(jdump(canon(b)))
    return counts, fps

  def result(self, it):
    return self.c02.canon_result(it.agg_result)

  def full(self):
    it = self.fresh()
    counts, fps = self.take(it, 10 ** 6)
    return dict(full=counts, fullfp=fps, full_result=self.result(it), full_keys=keys_canon(it.agg_state))

  def history(self):
    case = self.case
    it = self.fresh()
    saved = it.state
    log, logfp, snaps = [], [], []
    for op in case['ops']:
      if op[0] == 'take':
        c, f = self.take(it, op[1])
        log.append(c)
        logfp.append(f)
      elif op[0] == 'ckpt':
        saved = it.state
      elif op[0] == 'restore':
        base = it if case.get('idiom') == 'self' else self.fresh()
        it = base.from_state(saved)
      else:
        raise ValueError(op)
      snaps.append(self.result(it))
    final, finalfp = self.take(it, case['final'])
    return dict(log=log, logfp=logfp, final=final, finalfp=finalfp, result=self.result(it),
                keys=keys_canon(it.agg_state), snaps=snaps)


def run_history(case):
  from absl import logging as alog
  alog.set_verbosity(alog.FATAL)
  obs = dict(err=None, full_err=None)
  with warnings.catch_warnings():
    warnings.simplefilter('ignore')
    try:
      obs.update(Run(case).full())
    except Exception as e:  # pylint: disable=broad-except
      obs['full_err'] = obs['err'] = err_kind(e)
      return obs
    try:
      obs.update(Run(case).history())
    except Exception as e:  # pylint: disable=broad-except
      obs['err'] = err_kind(e)
  return obs


# ----------------------------------------------------------------------------- model

def model_requests(case):
  c02 = _c02()
  stages = []
  batches = None
  for st in case['stages']:
    req = c02.model_requests(stage_case(case, st))[0]
    batches = req['batches']
    stages.append(dict(drop=st.get('drop'), aggs=req['aggs'], slicers=req['slicers']))
  return [dict(model='resumesliced', mode='history', stages=stages, batches=batches, ops=case['ops'], final=case['final'])]


def _entries(es):
  c02 = _c02()
  res = [{'metric': e['metric'], 'slice': e['slice'], 'value': c02._model_value(e['value'])} for e in es]
  res.sort(key=lambda e: jdump([e['metric'], e['slice']]))
  return res


def model_obs(case, resps):
  r = resps[0]
  if r.get('err'):
    return dict(err=r['err'])
  return dict(err=None, log=r['log'][:-1], final=r['log'][-1], full=r['full'][-1],
              result=_entries(r['result']), full_result=_entries(r['full_result']),
              keys=sorted(r['keys'], key=jdump), full_keys=sorted(r['full_keys'], key=jdump),
              snaps=[_entries(s) for s in r['snaps']])


def _cmp_entries(a, b):
  if [(e['metric'], e['slice']) for e in a] != [(e['metric'], e['slice']) for e in b]:
    return 'reported keys differ'
  for x, y in zip(a, b):
    if not deep_close(x['value'], y['value']):
      return f"value of {x['metric']} {x['slice']} differs: impl {x['value']} model {y['value']}"
  return None


def compare(impl, model):
  if impl.get('err') or model.get('err'):
    return None if impl.get('err') == model.get('err') else (
        f"error kinds differ: impl {impl.get('err')} model {model.get('err')}")
  for k in ('log', 'final', 'full', 'keys', 'full_keys'):
    if impl[k] != model[k]:
      return f'{k} differs: impl {impl[k]} model {model[k]}'
  for k in ('result', 'full_result'):
    d = _cmp_entries(impl[k], model[k])
    if d:
      return f'{k}: {d}'
  if len(impl['snaps']) != len(model['snaps']):
    return 'snaps differ in length'
  for i, (a, b) in enumerate(zip(impl['snaps'], model['snaps'])):
    d = _cmp_entries(a, b)
    if d:
      return f'agg_result after op {i}: {d}'
  return None


# ----------------------------------------------------------------------------- oracle (the property on the real output)

def oracle(case, obs):
  """Elements: everything delivered on the surviving timeline, across all generations, is exactly what the uninterrupted
  run delivers, in order.  Aggregates: the resumed run ends with the aggregate of the uninterrupted run for EVERY output key
  and EVERY slice key (none missing, none invented, same value), its aggregation state has the same keys, and a restored
  iterator starts from exactly the aggregate the checkpoint held."""
  if obs.get('full_err'):
    return None          # the pipeline itself raises on this stream: C02's subject, outside C10's domain
  if obs.get('err'):
    return f"raised {obs['err']} on a well-formed history (the uninterrupted run does not raise)"
  got = L.surviving(case['ops'], obs['logfp'], obs['finalfp'])
  want = obs['fullfp']
  if got != want:
    missing = [i for i, x in enumerate(want) if x not in got]
    if missing:
      return f'skipped: batches {missing[:8]} of the uninterrupted run are never delivered'
    if len(got) > len(want):
      return 'repeated: batches are delivered more often than in the uninterrupted run'
    return 'reordered: same batches, different order'
  have = {(e['metric'], jdump(e['slice'])): e['value'] for e in obs['result']}
  full = {(e['metric'], jdump(e['slice'])): e['value'] for e in obs['full_result']}
  dropped = sorted(set(full) - set(have))
  invented = sorted(set(have) - set(full))
  if dropped:
    return f"aggregate: the resumed run does not report {dropped[:3]} which the uninterrupted run reports"
  if invented:
    return f"aggregate: the resumed run reports {invented[:3]} which the uninterrupted run does not"
  for k in sorted(full):
    if not deep_close(have[k], full[k]):
      kind = 'un-sliced' if k[1] == 'null' else 'per-slice'
      return f"aggregate: {kind} {k[0]} {k[1]} is {have[k]} after the history, the uninterrupted run's is {full[k]}"
  if obs['keys'] != obs['full_keys']:
    return f"aggregate: agg_state has the keys {obs['keys'][:6]}.., the uninterrupted run's has {obs['full_keys'][:6]}.."
  saved = None
  for i, (op, snap) in enumerate(zip(case['ops'], obs['snaps'])):
    if op[0] == 'ckpt':
      saved = snap
    elif op[0] == 'restore' and saved is not None and _cmp_entries(snap, saved):
      return (f'aggregate: the iterator restored at op {i} starts from an aggregate that is not the one the checkpoint '
              f'held: {_cmp_entries(snap, saved)}')
  return None


# ----------------------------------------------------------------------------- generators and coverage

def positions(case):
  """[(op index, kind, position)] of the surviving-timeline cursor (in batches the LAST stage delivers), by the plain
  semantics of take / ckpt / restore; used for coverage classes only"""
  kept = survivors(case)
  n = len(kept)
  pos, saved, out = 0, 0, []
  for i, op in enumerate(case['ops']):
    if op[0] == 'take':
      pos = min(pos + op[1], n)
    elif op[0] == 'ckpt':
      saved = pos
    else:
      pos = saved
    out.append((i, op[0], pos))
  return out, kept


def survivors(case):
  """indices of the batches that pass every stage's filter"""
  c02 = _c02()
  out = []
  for i, b in enumerate(case['batches']):
    n = c02.nrows(b)
    if all(not st.get('drop') or n % st['drop']['m'] != st['drop']['r'] for st in case['stages']):
      out.append(i)
  return out


def slicer_kind(sl):
  if sl['kind'] == 'default':
    return 'cross' if len(sl['keys']) > 1 else 'single'
  return sl['kind']


def features(case):
  c02 = _c02()
  f = {f"sliced_stages:{len(case['stages'])}"}
  pos, kept = positions(case)
  restores = [p for _, k, p in pos if k == 'restore']
  f.add(f'sliced_restores:{min(len(restores), 3)}')
  if any(st.get('drop') for st in case['stages']):
    f.add('sliced_filter')
  if len(set(restores)) >= 2 and max(restores) > 0:
    f.add('sliced_multi_generation')
  for _, k, p in pos:
    if k == 'restore':
      f.add('sliced_cut:' + ('before-first' if p == 0 else 'after-last' if p >= len(kept) else 'middle'))
  for si, st in enumerate(case['stages']):
    if len(st['aggs']) > 1:
      f.add('sliced_stacked_aggs')
    for sl in st['slicers']:
      kind = slicer_kind(sl)
      f.add(f'sliced_slicer:{kind}')
      f.add('sliced_mode:' + ('replace' if sl.get('replace') is not None else 'filter'))
      if si > 0:
        f.add('sliced_slicer_at_stage_2')
      if sl['kind'] == 'mask' or all(a.get('noslice') for a in st['aggs']):
        if any(p >= 1 for p in restores):
          f.add(f'sliced_restore_after_aggregated_batch:{kind}')
        continue
      per = c02._slice_keys_per_batch(stage_case(case, st), sl)
      for p in restores:
        before = set().union(*[per[i] for i in kept[:p]]) if p else set()
        after = set().union(*[per[i] for i in kept[p:]]) if p < len(kept) else set()
        if before:
          f.add(f'sliced_restore_after_aggregated_batch:{kind}')
          f.add('sliced_ckpt_holds_slice_entries')
          if before - after:
            f.add('sliced_slice_only_before_ckpt')
          if after - before:
            f.add('sliced_slice_first_seen_after_restore')
          if before & after:
            f.add('sliced_slice_on_both_sides')
  return f


PROMISED = (['sliced_stages:1', 'sliced_stages:2', 'sliced_filter', 'sliced_multi_generation', 'sliced_stacked_aggs',
             'sliced_slicer_at_stage_2', 'sliced_ckpt_holds_slice_entries', 'sliced_slice_only_before_ckpt',
             'sliced_slice_first_seen_after_restore', 'sliced_slice_on_both_sides', 'sliced_mode:filter', 'sliced_mode:replace',
             'sliced_restores:1', 'sliced_restores:2', 'sliced_restores:3']
            + [f'sliced_cut:{k}' for k in ('before-first', 'middle', 'after-last')]
            + [f'sliced_slicer:{k}' for k in ('single', 'cross', 'within', 'fn', 'mask')]
            + [f'sliced_restore_after_aggregated_batch:{k}' for k in ('single', 'cross', 'within', 'fn', 'mask')]
            + [f'sliced_shape:{k}' for k in SHAPES])


def world_of(aggs):
  return 'nested' if any(a['in'] and a['in'][0] in ('p', 'q') for a in aggs) else 'flat'


def rename_outs(aggs, si):
  for a in aggs:
    a['out'] = [f's{si}{o}' for o in a['out']]
  return aggs


def mk_case(stages, batches, nps, ops, idiom):
  return dict(sliced=True, stages=stages, batches=batches, np=nps, ops=ops, final=1000, idiom=idiom,
              src=dict(kind='seq', chain=[]), pipe=None, threads=0)


def well_typed(case):
  """a pipeline the C02 generator calls well-formed and that does not fall into C02's open findings (their input classes
  raise or depend on the batching whatever the history)"""
  c02 = _c02()
  for st in case['stages']:
    sc = stage_case(case, st)
    if c02.has_ragged_rowslice(sc):
      return False
  return True


def gen_cases(ctx, rand_ops):
  rng, quick = ctx.rng, ctx.quick
  c02 = _c02()

  def emit(case, arm):
    for f in features(case):
      ctx.count('sliced', f)
    ctx.count('sliced', 'sliced_arm:' + arm)
    return case

  # systematic: slicer kind x history shape x cut position (0 = before the first batch .. n + 1 = after StopIteration)
  sizes = [2, 1, 3, 2]
  n = len(sizes)
  k = 0
  for which in ['default', 'cross', 'within', 'within2', 'fn', 'mask']:
    for shape, mk in SHAPES.items():
      for a in range(0, n + 2):
        k += 1
        kind, ins = c02.FLAT_AGGS[k % 11]          # the aggregates with explicit input columns
        agg = c02.mk_agg(rng, kind, ins, 0)
        two_d = 'm' in ins
        sl = (c02.mask_slicer(rng, 'flat', ins if (len(ins) == 2 or ins == ['d']) else None, two_d) if which == 'mask'
              else c02.row_slicer(rng, which))
        stages = [dict(name='a', drop=None, aggs=rename_outs([agg], 0), slicers=[sl])]
        if k % 4 == 0:          # a second named transform with its own sliced aggregate
          kind2, ins2 = c02.FLAT_AGGS[(k // 4) % 10]
          stages.append(dict(name='b', drop=None, aggs=rename_outs([c02.mk_agg(rng, kind2, ins2, 0)], 1),
                             slicers=[c02.row_slicer(rng, ['default', 'cross', 'fn', 'within'][(k // 4) % 4])]))
        if k % 5 == 0:
          stages[0]['drop'] = dict(m=3, r=1)
        b = 1 if shape != 'second-generation' else 1 + (a + k) % 2
        case = mk_case(stages, c02.gen_stream(rng, 'flat', sizes=sizes), ['d'] + (['x'] if k % 2 else []), mk(a, b),
                       'self' if k % 2 else 'fresh')
        ctx.count('sliced', f'sliced_shape:{shape}')
        yield emit(case, 'systematic')
  # random: C02's random pipelines (stacked aggregates, 0-3 slicers of the five kinds, both worlds), 1-2 stages, filters
  done = 0
  target = 350 if quick else 8000
  while done < target:
    base = c02.gen_random(rng)
    if len(base['batches']) < 2 or base.get('call') or any(a['in'] is None for a in base['aggs']):
      continue
    stages = [dict(name='a', drop=None, aggs=rename_outs(base['aggs'], 0), slicers=base['slicers'])]
    if rng.random() < 0.35:
      other = c02.gen_random(rng)
      if world_of(other['aggs']) == world_of(base['aggs']) and not any(a['in'] is None for a in other['aggs']):
        stages.append(dict(name='b', drop=None, aggs=rename_outs(other['aggs'], 1), slicers=other['slicers']))
    if rng.random() < 0.3:
      rng.choice(stages)['drop'] = dict(m=rng.choice([2, 3]), r=rng.randrange(2))
    case = mk_case(stages, base['batches'], base['np'], rand_ops(rng, len(base['batches']), 6),
                   rng.choice(['fresh', 'self']))
    if not well_typed(case):
      continue
    done += 1
    yield emit(case, 'random')


def check_coverage(ctx):
  from harness.core import InfraError
  missing = [k for k in PROMISED if not ctx.hist.get('sliced', {}).get(k)]
  if missing:
    raise InfraError(f'C10 sliced generator missed promised arms: {missing}')
