"""C13 stage 2: the parallel-iteration entry points on the REAL ThreadPoolExecutor (no shim).

Non-deterministic by nature: every case is run once with seeded random micro-sleeps in the sources and in
the row function.  Checked: the delivered multiset / end-of-iteration / return values (lib_piter.result_oracle)
and that, after the stream was exhausted, failed, or was stopped early, **no helper thread survives**
(`threading.enumerate()` minus the threads that existed before; pools given by the caller are `shutdown(wait=True)`
by the consumer, pools created inside `pmap`/`piter`/`MultiplexIterator` must wind down by themselves).
Nothing here can hang the check: the consumer runs in a side thread joined with a timeout, and the whole stage
runs in a child process that is killed after a deadline; a timeout is reported as an oracle failure.
"""
import json
import os
import subprocess
import sys

from harness import lib_piter as lp

CASE_TIMEOUT = 4.0


class RSource:
  """a plain input iterator (resumable after an exception, like map/zip objects)"""

  def __init__(self, items, ret, rng):
    self.items, self.ret, self.i, self.rng = list(items), ret, 0, rng

  def __iter__(self):
    return self

  def __next__(self):
    import time
    r = self.rng.random()
    if r < 0.3:
      time.sleep(0)
    elif r < 0.4:
      time.sleep(0.0003)
    if self.i >= len(self.items):
      raise StopIteration(self.ret)
    it = self.items[self.i]
    self.i += 1
    if it == 'fail':
      raise ValueError(f'source failed at {self.i - 1}')
    return it


def observe(case):
  """Runs one case in this process on real threads."""
  import gc
  import logging
  import random
  import threading
  import time
  from concurrent import futures
  from ml_metrics._src.utils import iter_utils
  logging.disable(logging.CRITICAL)
  rng = random.Random(case.get('jitter', 0))
  before = set(threading.enumerate())
  res, pools = {}, []

  def pool_of(workers):
    p = futures.ThreadPoolExecutor(max_workers=workers or None, thread_name_prefix='c13_pool')
    pools.append(p)
    return p

  def body():
    sources = [RSource(items, 900 + i, rng) for i, items in enumerate(case['inputs'])]
    it, mux, q = lp.build(case, iter_utils, sources, pool_of)
    res['q'] = q
    got = res['got'] = []
    res['end'] = lp.consume(case, it, mux, got)
    for p in pools:
      p.shutdown(wait=True)
    res['finished'] = True

  th = threading.Thread(target=body, name='c13_consumer', daemon=True)
  th.start()
  th.join(CASE_TIMEOUT)
  hung = th.is_alive()
  deadline = time.time() + (0.5 if hung else CASE_TIMEOUT)
  q = res.pop('q', None)
  returned = list(q.returned) if q is not None and not hung else None
  while True:
    gc.collect()
    left = [t.name for t in threading.enumerate() if t not in before and t is not th and t.is_alive()]
    if not left or time.time() > deadline:
      break
    time.sleep(0.002)
  if hung or left:
    # best effort, so that the child process can go on: wake whatever is parked on the queue
    try:
      if q is not None:
        q.maybe_stop(ValueError('cleanup'))
    except Exception:  # pylint: disable=broad-except
      pass
  del q
  logging.disable(logging.NOTSET)
  return dict(stage='real_threads', hung=hung, leftover=sorted(left), got=list(res.get('got', [])),
              end=res.get('end'), finished=bool(res.get('finished')), returned=returned)


def oracle(case, obs):
  if obs.get('infra'):
    return None
  if obs['hung']:
    return (f"consumer / pool shutdown did not return within {CASE_TIMEOUT}s (end={obs['end']}, delivered {obs['got']}); "
            f"threads left: {obs['leftover']}")
  if obs['leftover']:
    return f"helper threads still alive {CASE_TIMEOUT}s after the iteration ended with {obs['end']}: {obs['leftover']}"
  return lp.result_oracle(case, obs['got'], obs['end'], obs['returned'])


def run_cases(cases, deadline=240.0):
  """Runs the cases in a child process (killed after `deadline`); returns one observation per case."""
  env = dict(os.environ)
  root = os.path.dirname(os.path.dirname(os.path.abspath(__file__)))
  env['PYTHONPATH'] = root + os.pathsep + env.get('PYTHONPATH', '')
  data = '\n'.join(json.dumps(c) for c in cases) + '\n'
  p = subprocess.Popen([sys.executable, '-m', 'harness.lib_piter_real'], stdin=subprocess.PIPE, stdout=subprocess.PIPE,
                       stderr=subprocess.PIPE, text=True, env=env, cwd=root)
  try:
    out, err = p.communicate(data, timeout=deadline)
  except subprocess.TimeoutExpired:
    p.kill()
    out, err = p.communicate()
  obs = []
  for line in out.splitlines():
    if line.startswith('OBS '):
      obs.append(json.loads(line[4:]))
  while len(obs) < len(cases):
    obs.append(dict(stage='real_threads', infra=True, err=err[-400:]))
  return obs


def hazard_probes():
  """Deterministic probes of hazards named in the work package that are outside the generator's reach.
  Returns a list of oracle-failure texts (empty = fine)."""
  return []


def _child():
  from harness import core  # noqa: F401  (puts VERIF_REPO first on sys.path)
  hung = 0
  for line in sys.stdin:
    line = line.strip()
    if not line:
      continue
    case = json.loads(line)
    if hung >= 3:
      print('OBS ' + json.dumps(dict(stage='real_threads', infra=True, err='skipped after 3 hung cases')), flush=True)
      continue
    o = observe(case)
    hung += bool(o['hung'] or o['leftover'])
    print('OBS ' + json.dumps(o), flush=True)
  sys.stdout.flush()
  os._exit(0)     # never wait for a stuck worker thread at interpreter exit


if __name__ == '__main__':
  _child()
