"""Round-6 extensions of the C06 / C16 machinery (imports harness.lib_sched, edits nothing there).

* `RETURNS`, `gen_task`        plain generator tasks for `WorkerPool.iterate` whose RETURN VALUE is drawn from a
                               library containing every falsy Python value class (0, 0.0, False, '', [], {}, (), None)
                               next to truthy ones - C06 "every task's result is delivered exactly once" does not
                               depend on the value.
* `GatedSource`, `gated_pipeline`  a data source whose first read attempt of chosen shards blocks inside `next()`
                               until the harness opens a gate ("a slow read from storage"): lets a case stop a worker
                               while its generator is inside a slow next().
* `ReplyLatency`               RPC latency as an environment choice: the REPLY of chosen calls (the handler has
                               already run on the server) is held back - for a fixed time or until a gate opens.
                               Installed by overriding the `_finish` attribute of the fake transport's world object
                               (the fake itself is not edited); removed by `close()`.
"""
from __future__ import annotations

import collections
import threading
import time as _real_time

from harness import fakecourier
from harness import lib_sched as L

# ------------------------------------------------------------------------------------------ generator tasks

# index -> return value of the generator task.  0-8 are falsy, 9-14 truthy.
RETURNS = [0, 0.0, False, '', [], {}, (), None, b'', 7, 'x', [0], {'a': 0}, (None,), -1]
FALSY = [i for i, v in enumerate(RETURNS) if not v]


def gen_task(i, k, rc):
  """Generator task number i: yields the k records 100*i .. 100*i+k-1 and RETURNS `RETURNS[rc]` (e.g. the number of
  records of an empty shard, an empty summary dict)."""
  for j in range(k):
    yield 100 * i + j
  return RETURNS[rc]


def canon_value(v):
  """Canonical, type-preserving text of a task result (0 / 0.0 / False are different results)."""
  return f'{type(v).__name__}:{v!r}'


# ------------------------------------------------------------------------------------------ gated data source

_GATES = {}     # gate id -> dict(lock, attempts Counter, started {shard: Event}, release {shard: Event})


def new_gates(gid, shards):
  g = dict(lock=threading.Lock(), attempts=collections.Counter(),
           started={s: threading.Event() for s in shards}, release={s: threading.Event() for s in shards},
           server={})
  _GATES[gid] = g
  return g


def drop_gates(gid):
  g = _GATES.pop(gid, None)
  if g is not None:
    for e in g['release'].values():
      e.set()


class GatedSource:
  """The elements of shard `shard_index` of range(n); the FIRST attempt of a gated shard blocks inside next()
  (before its `at`-th element) until the gate is released."""

  def __init__(self, n, shard_index, num_shards, gid, at=1):
    self.n, self.shard_index, self.num_shards, self.gid, self.at = n, shard_index, num_shards, gid, at

  def __iter__(self):
    ns = L.setup()
    elems = list(ns.io.SequenceDataSource(range(self.n)).shard(self.shard_index, self.num_shards))
    g = _GATES.get(self.gid)
    attempt = 0
    if g is not None and self.shard_index in g['started']:
      with g['lock']:
        g['attempts'][self.shard_index] += 1
        attempt = g['attempts'][self.shard_index]
    for j, x in enumerate(elems):
      if attempt == 1 and j == min(self.at, len(elems) - 1):
        g['started'][self.shard_index].set()
        g['release'][self.shard_index].wait(20)
      yield x


def gated_pipeline(n, pipe='p0', gid=None, shard_index=0, num_shards=1):
  """`lib_sched.define_pipeline` over a `GatedSource` (same stages, same aggregates)."""
  ns = L.setup()
  T = ns.transform.TreeTransform
  t = T.new(name='ds').data_source(GatedSource(n, shard_index, num_shards, gid))
  return L.add_stages(t, pipe)


# ------------------------------------------------------------------------------------------ reply latency

class ReplyLatency:
  """Holds back the reply of chosen calls.  `choose(call) -> None | float seconds | threading.Event`
  is asked once per finished call (in the thread that executed the handler, AFTER the handler ran)."""

  def __init__(self, choose):
    self.world = fakecourier.world()
    self.choose = choose
    self.delayed = []          # (address, method) of the replies that were held back
    self._orig = self.world._finish   # bound method of the class
    world = self.world

    def _finish(call, **kw):
      try:
        d = self.choose(call)
      except Exception:  # pylint: disable=broad-except
        d = None
      if d is not None:
        self.delayed.append((call.address, call.method))
        if isinstance(d, threading.Event):
          d.wait(10)
        else:
          _real_time.sleep(d)
      return self._orig(call, **kw)

    world._finish = _finish

  def close(self):
    try:
      del self.world._finish      # back to the class attribute
    except AttributeError:
      pass


def is_kickoff(call):
  """The `enqueue_from_iterator` kick-off of CourierClient.async_iter: maybe_make(..., return_immediately=True)."""
  return call.method == 'maybe_make' and bool(call.kwargs.get('return_immediately'))


# ------------------------------------------------------------------------------------------ after a hang

def forget_stuck_threads():
  """After a run that was reported as a HANG: its helper threads (executor threads blocked for ever in a queue
  `put`/`get` without timeout) never touch the guard clock, so they cannot be unwound - and the interpreter would
  wait for them at process exit (threading._shutdown / concurrent.futures' exit hook), wedging the whole check.
  They are taken off the interpreter's wait lists; the verdict of the case (hang = oracle failure) is not affected."""
  import concurrent.futures.thread as cft
  main = threading.main_thread()
  me = threading.current_thread()
  for t in list(threading.enumerate()):
    if t is main or t is me or t.daemon:
      continue
    try:
      cft._threads_queues.pop(t, None)                       # pylint: disable=protected-access
      lock = getattr(t, '_tstate_lock', None)
      if lock is not None:
        threading._shutdown_locks.discard(lock)              # pylint: disable=protected-access
    except Exception:  # pylint: disable=broad-except
      pass
  _debug_note(f'forget_stuck_threads: {[(t.name, t.daemon) for t in threading.enumerate()]} '
              f'queues={len(cft._threads_queues)} locks={len(threading._shutdown_locks)}')


def _debug_note(msg):
  import os
  d = os.environ.get('VERIF_DEBUG_FH')
  if d:
    with open(os.path.join(d, f'note_{os.getpid()}.log'), 'a') as f:
      f.write(msg + '\n')


_EXIT_GUARD = []


def _exit_hook():
  """Runs at the start of threading._shutdown().  In a pool worker (multiprocessing child) the only thing that
  follows is `os._exit(exitcode)`: do it right away, so that event loops of closed cases that are still alive cannot
  hand new, for-ever-blocking work to their executors while concurrent.futures' exit hook joins executor threads."""
  import multiprocessing
  import os
  import sys
  forget_stuck_threads()
  if multiprocessing.parent_process() is not None:
    for f in (sys.stdout, sys.stderr):
      try:
        f.flush()
      except Exception:  # pylint: disable=broad-except
        pass
    os._exit(0)


def install_exit_guard():
  """Once per process (see `_exit_hook`): a check process must terminate whatever a failed run left behind."""
  if not _EXIT_GUARD:
    _EXIT_GUARD.append(True)
    try:
      threading._register_atexit(_exit_hook)      # pylint: disable=protected-access
    except Exception:  # pylint: disable=broad-except
      pass


_DEBUG_FILES = []


def _debug_stack_dumps():
  """VERIF_DEBUG_FH=<dir>: `kill -USR2 <pid>` writes the stacks of all threads to <dir>/fh_<pid>.log (diagnosis of
  wedged check processes only; off by default)."""
  import os
  d = os.environ.get('VERIF_DEBUG_FH')
  if d:
    import faulthandler
    import signal
    try:
      f = open(os.path.join(d, f'fh_{os.getpid()}.log'), 'w')
      faulthandler.register(signal.SIGUSR2, file=f, all_threads=True)
      _DEBUG_FILES.append(f)
    except Exception:  # pylint: disable=broad-except
      pass


_debug_stack_dumps()
