"""C09 — `state` / `from_state` round trips through ANY receiver (case kind `recv`, used by harness/props/c09.py).

`from_state` is a method.  The recorded ShardConfig chain describes the position of a shard in the WHOLE data, so
`receiver.from_state(state)` must not depend on which object of that data it is called on.  The cases form a
receiver x state-origin matrix for the four recoverable families of `chainables/io.py` / `iter_utils.py`:

  cls 'seq'  SequenceDataSource / SequenceIterator (single sequence or `from_sequences`, ignore_error on/off)
     origin     a source SPEC; the state is `source.state` (take=None) or `iterator.state` after `take` elements
     receivers  {'src': SPEC, 'as': 'source' | 'iter' (a fresh iterator advanced `adv` times) | 'origin_iter' (the very
                iterator that produced the state: a worker restoring its own checkpoint)}
     SPEC       list of ops applied to the root: ['shard', i, k, off] | ['restore', SPEC, take]
                (`cur = cur.from_state(<state of SPEC / of its iterator after take>)`: a restored-with-offset source)
  cls 'rr'   ShardedIterable / DataIterator (round robin); ops ['shard', i, k] | ['from_state', i, k, start]
  cls 'mux'  iter_utils.MultiplexIterator(data_sources=[...]) over per-thread shards: the state of the multiplexer after
             `take` elements restored through itself ('self'), a new multiplexer over the same sources ('fresh') and
             multiplexers over OTHER sources of the same data (all roots, rotated siblings, sub-shards, iterators)

Model: lean/MlModel/Model/ShardRecv.lean (wire name `shardrecv`); theorems C09_from_state_receiver_independent,
C09_state_roundtrip_any_receiver, C09_iter_restore_any_receiver(_iter), C09_rr_*_any_receiver, C09_mux_*.
Oracle (from the English statement, independent of model and code): restoring state s through ANY receiver of the same
root data yields exactly the elements the origin had left (delivered + rebuilt = the origin's elements, len agrees,
ignore_error survives).
"""
import itertools

from harness.core import err_kind


# ----------------------------------------------------------------------------- spec semantics (plain lists)

def spec_shard(xs, i, k):
  q, r = divmod(len(xs), k)
  s = i * q + min(i, r)
  return xs[s:s + q + (1 if i < r else 0)]


def expected(n, spec):
  """Elements of the source SPEC denotes, by the property itself; None outside the property's domain."""
  xs = list(range(n))
  for op in spec:
    if op[0] == 'shard':
      _, i, k, off = op
      if k < 1 or not 0 <= i < k:
        return None
      xs = spec_shard(xs, i, k)
      if not 0 <= off <= len(xs):
        return None
      xs = xs[off:]
    else:
      _, o, take = op
      xs = expected(n, o)          # a restored source IS what its origin had left, whoever rebuilt it
      if xs is None:
        return None
      xs = xs[(take or 0):]
  return xs


def kind_of(spec):
  if not spec:
    return 'root'
  if spec[-1][0] == 'restore':
    return 'restored'
  return 'shard' if sum(1 for op in spec if op[0] == 'shard') == 1 else 'nested'


def relation(spec, origin):
  if spec == origin and spec:
    return 'self'
  if origin and len(spec) == len(origin) + 1 and spec[:-1] == origin and spec[-1][0] == 'shard':
    return 'subshard'
  if (spec and origin and len(spec) == len(origin) and spec[:-1] == origin[:-1] and spec[-1][0] == 'shard'
      and origin[-1][0] == 'shard' and spec[-1][2] == origin[-1][2] and spec[-1][1] != origin[-1][1]):
    return 'sibling'
  return kind_of(spec)


def arms(case):
  """The promised arms a case exercises (counted for every generated case, enforced by c09.extra)."""
  out = []
  if case['cls'] == 'seq':
    ok = kind_of(case['origin'])
    tk = 'source' if case['take'] is None else 'iter'
    for r in case['receivers']:
      rk = 'origin_iter' if r['as'] == 'origin_iter' else relation(r['src'], case['origin'])
      out.append(f"seq:{rk}/{r['as']}<-{ok}/{tk}")
    out.append('seq:layout=' + ('single' if case.get('single') else 'merged'))
    out.append(f"seq:ie={bool(case['ie'])}")
  elif case['cls'] == 'rr':
    for r in case['receivers']:
      rk = 'origin_iter' if r['as'] == 'origin_iter' else ('root' if not r['src'] else r['src'][-1][0])
      out.append(f"rr:{rk}/{r['as']}<-{'root' if not case['origin'] else case['origin'][-1][0]}")
  else:
    for r in case['receivers']:
      out.append('mux:' + (r if isinstance(r, str) else r['tag']))
  return out


SEQ_RECV = ['root', 'shard', 'nested', 'restored', 'sibling', 'self', 'subshard']
PROMISED = (
    [f'seq:{rk}/{how}<-{ok}/{tk}' for rk in SEQ_RECV for how in ('source', 'iter')
     for ok in ('root', 'shard', 'nested', 'restored') for tk in ('source', 'iter')
     if not (rk in ('sibling', 'self') and ok in ('root', 'restored')) and not (rk == 'subshard' and ok == 'root')]
    + [f'seq:origin_iter/origin_iter<-{ok}/iter' for ok in ('root', 'shard', 'nested', 'restored')]
    + ['seq:layout=single', 'seq:layout=merged', 'seq:ie=True', 'seq:ie=False']
    + [f'rr:{rk}/{how}<-{ok}' for rk in ('root', 'shard', 'from_state') for how in ('source', 'iter')
       for ok in ('shard', 'from_state')]
    + ['rr:origin_iter/origin_iter<-shard', 'rr:origin_iter/origin_iter<-from_state']
    + ['mux:self', 'mux:fresh', 'mux:roots', 'mux:rotated', 'mux:subshards', 'mux:iters', 'mux:restored'])


# ----------------------------------------------------------------------------- generators

def shard_size(n, i, k):
  q, r = divmod(n, k)
  return q + (1 if i < r else 0)


def seq_receivers(n, origin, take, rng=None):
  """Every receiver kind for one origin."""
  sh = [op for op in origin if op[0] == 'shard']
  k0 = sh[-1][2] if sh else 2
  specs = [[], [['shard', 1 % k0, k0, 0]], [['shard', 0, 2, 0], ['shard', 1, 2, 0]],
           [['restore', [['shard', 0, 2, 0]], 1 if n >= 2 else 0]],
           [['shard', 0, 3, 0], ['restore', [['shard', 1, 2, 0]], None]],
           list(origin), list(origin) + [['shard', 0, 2, 0]]]
  if origin and origin[-1][0] == 'shard':
    _, i, k, off = origin[-1]
    if k > 1:
      specs.append(origin[:-1] + [['shard', (i + 1) % k, k, 0]])
      specs.append(origin[:-1] + [['shard', (i + k - 1) % k, k, 0]])
  out = []
  for j, sp in enumerate(specs):
    out.append(dict(src=sp, **{'as': 'source'}))
    out.append(dict(src=sp, adv=j % 3, **{'as': 'iter'}))
  if take is not None:
    out.append({'as': 'origin_iter'})
  return out


def seq_origins(n):
  yield []
  for k in (1, 2, 3):
    for i in range(k):
      for off in (0, 1):
        if off <= shard_size(n, i, k):
          yield [['shard', i, k, off]]
  yield [['shard', 1, 2, 0], ['shard', 0, 2, 0]]
  yield [['shard', 0, 2, 0], ['shard', 1, 3, 0]]
  if shard_size(n, 1, 3) >= 1:
    yield [['shard', 1, 3, 1], ['shard', 1, 2, 0]]
  yield [['shard', 0, 2, 0], ['shard', 1, 2, 0], ['shard', 0, 2, 0]]
  yield [['restore', [['shard', 1, 2, 0]], 1 if shard_size(n, 1, 2) >= 1 else 0]]
  yield [['restore', [], 2 if n >= 2 else 0]]
  yield [['shard', 1, 2, 0], ['restore', [['shard', 0, 2, 0]], 1 if n >= 1 else 0]]


def seq_case(n, origin, take, receivers, layout=0, ie=False, **kw):
  sizes = [[n], [n // 2, 0, n - n // 2], [0, 1, n - 1] if n else [0, 0]][layout]
  return dict(kind='recv', cls='seq', sizes=sizes, single=(layout == 0), ie=ie, origin=origin, take=take,
              receivers=receivers, **kw)


def rr_receivers(n, origin):
  i, k = origin[-1][1], origin[-1][2]
  specs = [[], [['shard', (i + 1) % max(k, 1), max(k, 1)]], [['shard', 0, 3]], [['from_state', 0, 2, 3]],
           [['shard', 1, 2], ['from_state', 1, 4, n // 2]], list(origin)]
  out = []
  for j, sp in enumerate(specs):
    out.append(dict(src=sp, **{'as': 'source'}))
    out.append(dict(src=sp, adv=j % 3, **{'as': 'iter'}))
  out.append({'as': 'origin_iter'})
  return out


def mux_receivers(n, origins, rng=None):
  k = len(origins)
  sub = [o + [['shard', 0, 2, 0]] for o in origins]
  rot = origins[1:] + origins[:1]
  rest = [[['restore', o, 1 if (expected(n, o) or []) else 0]] for o in origins]
  return ['self', 'fresh',
          dict(tag='roots', srcs=[dict(src=[], **{'as': 'source'}) for _ in range(k)]),
          dict(tag='rotated', srcs=[dict(src=o, **{'as': 'source'}) for o in rot]),
          dict(tag='subshards', srcs=[dict(src=o, **{'as': 'source'}) for o in sub]),
          dict(tag='iters', srcs=[dict(src=o, adv=j % 2, **{'as': 'iter'}) for j, o in enumerate(rot)]),
          dict(tag='restored', srcs=[dict(src=o, **{'as': 'source'}) for o in rest])]


def gen(ctx):
  rng, quick = ctx.rng, ctx.quick
  # ---- seq: small-exhaustive origins x takes x every receiver kind
  for n in range(0, 8 if quick else 12):
    for oi, origin in enumerate(seq_origins(n)):
      m = len(expected(n, origin))
      for take in [None] + sorted({0, 1, m // 2, m}):
        if take is not None and take > m:
          continue
        layout = (n + oi + (take or 0)) % 3
        yield seq_case(n, origin, take, seq_receivers(n, origin, take), layout=layout, ie=(n + oi) % 2 == 1)
  # ---- seq: random large
  for _ in range(60 if quick else 1500):
    n = rng.choice([rng.randrange(0, 30), rng.randrange(30, 300)])

    def rand_spec(depth, cur_n):
      sp, cur = [], cur_n
      for _d in range(depth):
        if rng.random() < 0.25:
          o = rand_spec(rng.randrange(0, 3), n)
          m_ = len(expected(n, o))
          t = rng.choice([None, 0, rng.randrange(0, m_ + 1)])
          sp.append(['restore', o, t])
          cur = m_ - (t or 0)
        else:
          k = rng.choice([1, 2, 3, 4, 7, cur + 1, max(cur, 1)])
          i = rng.randrange(k)
          off = rng.choice([0, 0, rng.randrange(0, shard_size(cur, i, k) + 1)])
          sp.append(['shard', i, k, off])
          cur = shard_size(cur, i, k) - off
      return sp
    origin = rand_spec(rng.randrange(0, 4), n)
    m = len(expected(n, origin))
    take = rng.choice([None, 0, m, rng.randrange(0, m + 1)])
    recvs = seq_receivers(n, origin, take)
    for _r in range(3):
      recvs.append(dict(src=rand_spec(rng.randrange(0, 4), n), adv=rng.randrange(0, 4),
                        **{'as': rng.choice(['source', 'iter'])}))
    yield seq_case(n, origin, take, recvs, layout=rng.randrange(3), ie=rng.random() < 0.5, big=True)
  # ---- seq malformed: states that make from_state raise / leave the domain, whoever replays them
  for _ in range(30 if quick else 400):
    n = rng.randrange(0, 9)
    how = rng.choice(['k0', 'kneg', 'idx', 'off', 'deep_k0'])
    st = dict(k0=[[0, 0, 0]], kneg=[[0, -2, 0]], idx=[[rng.choice([-1, 3, 5]), 3, 0]],
              off=[[0, 2, rng.choice([-2, n + 3])]], deep_k0=[[0, 2, 0], [1, 0, 0], [0, 1, 0]])[how]
    origin = rng.choice([[], [['shard', 0, 2, 0]]])
    yield seq_case(n, origin, None, seq_receivers(n, origin, None), layout=rng.randrange(3), state_override=st,
                   malform=how)

  # ---- rr: origins x takes x receivers
  for n in range(0, 8 if quick else 12):
    for k in (1, 2, 3, 5):
      for i in range(k):
        for origin in ([['shard', i, k]], [['from_state', i, k, min(2, n + 1)]],
                       [['shard', 0, 2], ['from_state', i, k, n // 2]]):
          for take in sorted({0, 1, n // max(k, 1), n // max(k, 1) + 2}):
            yield dict(kind='recv', cls='rr', n=n, origin=origin, take=take, calls=n + 2,
                       receivers=rr_receivers(n, origin))
  for _ in range(30 if quick else 600):
    n = rng.randrange(0, 200)
    k = rng.choice([1, 2, 3, 8, n + 1])
    i = rng.randrange(k)
    origin = [rng.choice([['shard', i, k], ['from_state', i, k, rng.randrange(0, n + 2)]])]
    yield dict(kind='recv', cls='rr', n=n, origin=origin, take=rng.randrange(0, n // k + 3), calls=n // k + 3,
               receivers=rr_receivers(n, origin), big=True)
  for _ in range(10 if quick else 100):   # malformed: a receiver that cannot be built / k < 1 in the origin
    n = rng.randrange(0, 6)
    yield dict(kind='recv', cls='rr', n=n, origin=[['from_state', 0, rng.choice([0, -1]), 0]], take=0, calls=n + 2,
               receivers=[dict(src=[], **{'as': 'source'})], malform='k0')

  # ---- mux: per-thread shards, nested shards, restored sources
  for n in range(0, 9 if quick else 13):
    for k in (1, 2, 3, 4):
      sets = [[[['shard', i, k, 0]] for i in range(k)],
              [[['shard', 1, 2, 0], ['shard', i, k, 0]] for i in range(k)],
              [[['shard', i, k, 1 if shard_size(n, i, k) >= 1 else 0]] for i in range(k)]]
      for si, origins in enumerate(sets):
        total = sum(len(expected(n, o)) for o in origins)
        for take in sorted({0, 1, total // 2, total, total + 1}):
          layout = (n + k + si) % 3
          sizes = [[n], [n // 2, 0, n - n // 2], [0, 1, n - 1] if n else [0, 0]][layout]
          yield dict(kind='recv', cls='mux', sizes=sizes, single=(layout == 0), ie=(n + k) % 2 == 1, origins=origins,
                     take=take, receivers=mux_receivers(n, origins))
  for _ in range(8 if quick else 100):   # malformed: a receiver with a different number of sources
    n, k = rng.randrange(0, 9), rng.randrange(2, 4)
    origins = [[['shard', i, k, 0]] for i in range(k)]
    bad = dict(tag='wrong_count', srcs=[dict(src=[], **{'as': 'source'})
                                       for _ in range(k + rng.choice([-1, 1]))])
    yield dict(kind='recv', cls='mux', sizes=[n], single=True, ie=False, origins=origins, take=rng.randrange(0, n + 1),
               receivers=['self', bad], malform='count')


# ----------------------------------------------------------------------------- real code

def _state_list(st):
  out = []
  while st is not None:
    out.append([st.shard_index, st.num_shards, st.start_index])
    st = st.parent
  return out


def compact(xs):
  if xs and xs == list(range(xs[0], xs[0] + len(xs))):
    return {'from': xs[0], 'n': len(xs)}
  return xs


def expand(c):
  return list(range(c['from'], c['from'] + c['n'])) if isinstance(c, dict) else c


class _RecvErr(Exception):
  pass


def _root(case):
  from ml_metrics._src.chainables import io
  from harness.props.c09 import mk_part, parts_of_sizes
  n = sum(case['sizes'])
  if case.get('single'):
    return io.SequenceDataSource(list(range(n)), ignore_error=case['ie'])
  return io.SequenceDataSource.from_sequences(
      [mk_part(p, j) for j, p in enumerate(parts_of_sizes(case['sizes']))], ignore_error=case['ie'])


def _state_after(src, take):
  """(state, delivered, iterator)"""
  if take is None:
    return src.state, [], None
  it = src.iterate()
  head = [int(x) for x in itertools.islice(it, take)]
  return it.state, head, it


def build(root, spec):
  cur = root
  for op in spec:
    if op[0] == 'shard':
      cur = cur.shard(op[1], op[2], op[3])
    else:
      st, _, _ = _state_after(build(root, op[1]), op[2])
      cur = cur.from_state(st)
  return cur


def _mk_state(lst):
  from ml_metrics._src.chainables import io
  st = None
  for i, k, s in reversed(lst):
    st = io.ShardConfig(i, k, s, parent=st)
  return st


def _src_obs(ds, cap):
  try:
    ln = len(ds)
  except Exception as e:  # pylint: disable=broad-except
    ln = err_kind(e)
  return dict(start=ds.start, end=ds.end, len=ln, elems=compact([int(x) for x in itertools.islice(iter(ds), cap)]),
              state=_state_list(ds.state), ie=bool(ds.ignore_error))


def _iter_obs(it, cap):
  st = _state_list(it.state)
  return dict(elems=compact([int(x) for x in itertools.islice(it, cap)]), state=st)


def _receiver(root, r, origin_it):
  if r['as'] == 'origin_iter':
    return origin_it
  try:
    src = build(root, r['src'])
  except Exception as e:  # pylint: disable=broad-except
    raise _RecvErr(err_kind(e)) from e
  if r['as'] == 'source':
    return src
  it = src.iterate()
  for _ in itertools.islice(it, r.get('adv', 0)):
    pass
  return it


def run_seq(case):
  n = sum(case['sizes'])
  cap = n + 5
  root = _root(case)
  try:
    o = build(root, case['origin'])
    st0, head, oit = _state_after(o, case['take'])
    full = [int(x) for x in itertools.islice(iter(o), cap)]
  except Exception as e:  # pylint: disable=broad-except
    return dict(origin=dict(err=err_kind(e)), recv=[])
  st = _mk_state(case['state_override']) if case.get('state_override') else st0
  recv = []
  for r in case['receivers']:
    try:
      rc = _receiver(root, r, oit)
    except _RecvErr as e:
      recv.append(dict(recv_err=str(e)))
      continue
    try:
      rb = rc.from_state(st)
      recv.append(_src_obs(rb, cap) if r['as'] == 'source' else _iter_obs(rb, cap))
    except Exception as e:  # pylint: disable=broad-except
      recv.append(dict(err=err_kind(e)))
  return dict(origin=dict(head=compact(head), state=_state_list(st0), all=compact(full)), recv=recv)


def _rr_build(n, spec):
  from ml_metrics._src.chainables import io
  cur = io.ShardedIterable(list(range(n)))
  for op in spec:
    if op[0] == 'shard':
      cur = cur.shard(op[1], op[2])
    else:
      cur = cur.from_state(io.ShardConfig(op[1], op[2], op[3]))
  return cur


def _drive(it, calls):
  outs = []
  for _ in range(calls):
    try:
      outs.append(int(next(it)))
    except StopIteration:
      outs.append(None)
  return outs


def run_rr(case):
  n = case['n']
  try:
    o = _rr_build(n, case['origin'])
    oit = o.iterate()
    head = _drive(oit, case['take'])
    st = oit.state
  except Exception as e:  # pylint: disable=broad-except
    return dict(origin=dict(err=err_kind(e)), recv=[])
  recv = []
  for r in case['receivers']:
    try:
      if r['as'] == 'origin_iter':
        rc = oit
      else:
        rc = _rr_build(n, r['src'])
        if r['as'] == 'iter':
          rc = rc.iterate()
          _drive(rc, r.get('adv', 0))
    except Exception as e:  # pylint: disable=broad-except
      recv.append(dict(recv_err=err_kind(e)))
      continue
    try:
      rb = rc.from_state(st)
      s2 = rb.state
      it2 = rb.iterate() if r['as'] == 'source' else rb
      recv.append(dict(state=[s2.shard_index, s2.num_shards, s2.start_index], outs=_drive(it2, case['calls'])))
    except Exception as e:  # pylint: disable=broad-except
      recv.append(dict(err=err_kind(e)))
  return dict(origin=dict(head=head, state=[st.shard_index, st.num_shards, st.start_index]), recv=recv)


def run_mux(case):
  from ml_metrics._src.utils import iter_utils
  n = sum(case['sizes'])
  cap = n + 5
  root = _root(case)
  try:
    origins = [build(root, sp) for sp in case['origins']]
    mux = iter_utils.MultiplexIterator(data_sources=origins)
    head = [int(x) for x in itertools.islice(mux, case['take'])]
    st = mux.state
  except Exception as e:  # pylint: disable=broad-except
    return dict(origin=dict(err=err_kind(e)), recv=[])
  recv = []
  for r in case['receivers']:
    try:
      if r == 'self':
        rc = mux
      elif r == 'fresh':
        rc = iter_utils.MultiplexIterator(data_sources=[build(root, sp) for sp in case['origins']])
      else:
        rc = iter_utils.MultiplexIterator(data_sources=[_receiver(root, s, None) for s in r['srcs']])
    except Exception as e:  # pylint: disable=broad-except
      recv.append(dict(recv_err=err_kind(e) if not isinstance(e, _RecvErr) else str(e)))
      continue
    try:
      rb = rc.from_state(st)
      st2 = [_state_list(s) for s in rb.state]
      recv.append(dict(elems=compact([int(x) for x in itertools.islice(rb, cap)]), state=st2))
    except Exception as e:  # pylint: disable=broad-except
      recv.append(dict(err=err_kind(e)))
  return dict(origin=dict(head=compact(head), state=[_state_list(s) for s in st]), recv=recv)


def run_impl(case):
  return dict(seq=run_seq, rr=run_rr, mux=run_mux)[case['cls']](case)


# ----------------------------------------------------------------------------- model

def model_requests(case):
  cls = case['cls']
  if cls == 'seq':
    return [dict(model='shardrecv', op='seq', sizes=case['sizes'], ie=case['ie'], origin=case['origin'],
                 take=case['take'], state_override=case.get('state_override'), receivers=case['receivers'])]
  if cls == 'rr':
    return [dict(model='shardrecv', op='rr', n=case['n'], origin=case['origin'], take=case['take'], calls=case['calls'],
                 receivers=case['receivers'])]
  recvs = [r if isinstance(r, str) else [s['src'] for s in r['srcs']] for r in case['receivers']]
  return [dict(model='shardrecv', op='mux', sizes=case['sizes'], ie=case['ie'], origins=case['origins'],
               take=case['take'], receivers=recvs)]


def model_obs(case, resps):
  return resps[0]


# ----------------------------------------------------------------------------- oracle

def _in_domain_state(lst, n):
  """Is a literal state inside the property's domain (every level a valid shard with an offset inside it)?"""
  return expected(n, [['shard', i, k, s] for i, k, s in reversed(lst)]) is not None


def oracle(case, obs):
  cls = case['cls']
  if 'err' in obs['origin']:
    dom = (expected(sum(case['sizes']), case['origin']) is not None) if cls == 'seq' else (
        all(op[2] >= 1 for op in case['origin']) if cls == 'rr' else
        all(expected(sum(case['sizes']), o) is not None for o in case['origins']))
    return f"building the origin raised {obs['origin']['err']}" if dom else None
  if cls == 'seq':
    n = sum(case['sizes'])
    full = expected(n, case['origin'])
    if full is None:
      return None
    head = expand(obs['origin']['head'])
    if expand(obs['origin']['all']) != full:
      return f"origin {case['origin']} yields {expand(obs['origin']['all'])}, expected {full}"
    if case.get('state_override'):
      # any state: every receiver must answer alike (the state describes a position in the whole data)
      want = None
      if _in_domain_state(case['state_override'], n):
        want = expected(n, [['shard', i, k, s] for i, k, s in reversed(case['state_override'])])
      seen = None
      for r, o in zip(case['receivers'], obs['recv']):
        if 'recv_err' in o:
          continue
        key = ('err', o['err']) if 'err' in o else ('ok', expand(o['elems']))
        if want is not None and key != ('ok', want):
          return f"state {case['state_override']} through receiver {r}: {key}, expected elements {want}"
        if seen is not None and key != seen[1]:
          return (f"state {case['state_override']}: receiver {r} gives {key} but receiver {seen[0]} gave {seen[1]}"
                  ' (from_state depends on the receiver)')
        seen = seen or (r, key)
      return None
    take = case['take'] or 0
    if head != full[:take]:
      return f'origin delivered {head}, expected {full[:take]}'
    want = full[take:]
    for r, o in zip(case['receivers'], obs['recv']):
      if 'recv_err' in o:
        if r['as'] != 'origin_iter' and expected(n, r['src']) is not None:
          return f"building receiver {r} raised {o['recv_err']}"
        continue
      if 'err' in o:
        return (f"origin {case['origin']} after {case['take']} elements, state {obs['origin']['state']}: from_state on "
                f"receiver {r} raised {o['err']}, expected elements {want}")
      if expand(o['elems']) != want:
        return (f"origin {case['origin']} delivered {head}, state {obs['origin']['state']}: from_state on receiver {r} "
                f"yields {expand(o['elems'])}, expected exactly what was left: {want}")
      if r['as'] == 'source':
        if o['len'] != len(want):
          return f"receiver {r}: rebuilt len() = {o['len']} but it has {len(want)} elements"
        if o['ie'] != bool(case['ie']):
          return f"receiver {r}: rebuilt ignore_error = {o['ie']}, the data source was built with {case['ie']}"
    return None
  if cls == 'rr':
    n = case['n']
    last = case['origin'][-1]
    i, k = last[1], last[2]
    start = last[3] if last[0] == 'from_state' else 0
    if k < 1 or not 0 <= i < k or start < 0:
      return None
    seq = [x for x in range(n) if x >= start and x % k == i]
    take = case['take']
    head = (seq + [None] * take)[:take]
    if obs['origin']['head'] != head:
      return f"round-robin origin {case['origin']} delivered {obs['origin']['head']}, expected {head}"
    want = (seq[take:] + [None] * case['calls'])[:case['calls']]
    for r, o in zip(case['receivers'], obs['recv']):
      if 'recv_err' in o:
        if r['as'] == 'origin_iter' or all(op[2] >= 1 for op in r['src']):
          return f"building receiver {r} raised {o['recv_err']}"
        continue
      if 'err' in o:
        return f"round-robin state {obs['origin']['state']} through receiver {r} raised {o['err']}"
      if o['outs'] != want:
        return (f"round-robin origin {case['origin']} delivered {head}, state {obs['origin']['state']}: restored through "
                f"receiver {r} it yields {o['outs']}, expected {want}")
    return None
  # mux
  n = sum(case['sizes'])
  parts = [expected(n, o) for o in case['origins']]
  if any(p is None for p in parts):
    return None
  full = [x for p in parts for x in p]
  take = case['take']
  head = expand(obs['origin']['head'])
  if head != full[:take]:
    return f'multiplexer over {case["origins"]} delivered {head}, expected {full[:take]}'
  want = full[take:]
  for r, o in zip(case['receivers'], obs['recv']):
    count_ok = isinstance(r, str) or len(r['srcs']) == len(case['origins'])
    if 'recv_err' in o:
      if isinstance(r, str) or all(expected(n, s['src']) is not None for s in r['srcs']):
        return f"building receiver {r} raised {o['recv_err']}"
      continue
    if not count_ok:
      if o != dict(err='ValueError'):
        return f'{len(r["srcs"])} receiver sources for {len(case["origins"])} states: expected ValueError, got {o}'
      continue
    if 'err' in o:
      return f"multiplexer state {obs['origin']['state']} through receiver {r} raised {o['err']}"
    if expand(o['elems']) != want:
      return (f"multiplexer over {case['origins']} delivered {head}; restored from its state through receiver "
              f"{r if isinstance(r, str) else r['tag']} it yields {expand(o['elems'])}, expected {want}")
  return None


def nontrivial(case, obs):
  if 'err' in obs['origin']:
    return False
  nonroot = sum(1 for r in case['receivers'] if not isinstance(r, str) and (r.get('src') or r.get('srcs')
                                                                              or r.get('as') == 'origin_iter'))
  some = any(('elems' in o and o['elems']) or any(x is not None for x in o.get('outs', [])) for o in obs['recv'])
  return nonroot >= 2 and some


# ----------------------------------------------------------------------------- search / shrink

def neighbours(case, rng):
  for n in range(0, 9):
    for origin in seq_origins(n):
      m = len(expected(n, origin))
      for take in [None] + sorted({0, 1, m}):
        if take is None or take <= m:
          yield seq_case(n, origin, take, seq_receivers(n, origin, take), layout=n % 3, ie=n % 2 == 1)


def shrink(case, fails):
  cur = case
  # one receiver is enough
  for r in cur['receivers']:
    c = dict(cur, receivers=[r])
    if fails(c):
      cur = c
      break
  if cur['cls'] in ('seq', 'mux') and not cur.get('single'):
    c = dict(cur, sizes=[sum(cur['sizes'])], single=True)
    if fails(c):
      cur = c
  if cur['cls'] in ('seq', 'mux'):
    n = sum(cur['sizes'])
    for m in range(0, n):
      c = dict(cur, sizes=[m], single=True)
      try:
        if fails(c):
          return c
      except Exception:  # pylint: disable=broad-except
        pass
  return cur
