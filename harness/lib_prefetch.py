"""Machinery for C15: run the REAL `PrefetchedCourierServer` (over the in-process fake courier, 'inline'
mode: an RPC's handler runs on the calling thread) under the deterministic scheduler and compare with
the Lean LTS `Model/Prefetch.lean` (driver model "prefetch").

A case:
  {prefetch: p>=1, threads: [prog], sched: {kind:'random'|'pct', seed,...} | {kind:'replay', choices:[...]}}
  prog = {kind:'client', src:[v|'fail'], ret:r, batch:b}   the real CourierClient.async_iterate loop
       | {kind:'init', src:[...], ret:r}                   one RPC init_generator
       | {kind:'client'|'init', build:'raise'|'noniter', [batch:b]}
                                                           the same request with a lazy object that cannot be turned into a
                                                           generator on the server: its constructor raises ValueError
                                                           ('raise') or it builds a value that is not iterable ('noniter')
       | {kind:'next', batch:b}                            one RPC next_batch_from_generator
       | {kind:'stop', fatal:bool}                         one RPC stop_prefetch
       | {kind:'shutdown'}                                 one RPC shutdown
Managed thread 0 is the server's own thread (`run_until_shutdown`, started by `server.start()`); the
programs are threads 1..n; prefetch (producer) threads get the following ids in the order they are started.

Shim object names (creation order) -> canonical labels shared with the model:
  cond1 = _shutdown_lock -> 'shut', lock1 = _states_lock -> 'states', lock2 = _tx_stats_lock -> 'tx',
  lock3 = _generator_lock -> 'gen'; the k-th IteratorQueue (k = 0,1,..): cond{2k+2} -> 'cond1#k' (dequeue),
  cond{2k+3} -> 'cond2#k' (enqueue), rlock{k+1} -> 'rlock1#k', q{k+1} -> 'q1#k'.
"""
import asyncio
import logging
import queue as _queue
import random
import re

from harness.core import err_kind
from harness.sched import shim

_KEEP = []      # servers are kept alive: their __del__ would otherwise run shim operations at GC time
_CUR = {}       # the running case's scheduler and generator specs (generators are built server-side by name)
MAIN = 0


class Source:
  """A generator's stand-in; every `next` is a scheduler yield point labelled 'next'."""

  def __init__(self, sched, items, ret):
    self.s, self.items, self.ret, self.i = sched, list(items), ret, 0

  def __iter__(self):
    return self

  def __next__(self):
    self.s.step('next')
    if self.i >= len(self.items):
      raise StopIteration(self.ret)
    it = self.items[self.i]
    self.i += 1
    if it == 'fail':
      raise ValueError(f'generator {self.ret} failed')
    return it


def make_source(tidx):
  """what the lazy object of thread `tidx` evaluates to ON THE SERVER (inside `_init_iterator`)"""
  p = _CUR['threads'][tidx]
  build = p.get('build', 'ok')
  if build == 'raise':
    raise ValueError(f'cannot construct the generator of request {tidx + 1}')
  if build == 'noniter':
    return 42
  return Source(_CUR['sched'], p['src'], p['ret'])


def _rpc_error(e):
  """canonical form of a non-OK status; a handler that raised (code 2) carries the kind of its exception"""
  out = {'raise': 'rpc_error', 'code': e.code}
  if e.code == 2:
    out['cause'] = err_kind(e.__cause__) if e.__cause__ is not None else None
  return out


def canon_label(lbl):
  m = re.match(r'^(\S+) (cond|lock|rlock|q)(\d+)(:timeout)?$', lbl)
  if not m:
    return lbl
  op, kind, n, suf = m.group(1), m.group(2), int(m.group(3)), m.group(4) or ''
  if kind == 'cond':
    if n == 1:
      return f'{op} shut{suf}'
    k, r = divmod(n - 2, 2)
    return f'{op} cond{r + 1}#{k}{suf}'
  if kind == 'lock':
    return f"{op} {({1: 'states', 2: 'tx', 3: 'gen'}).get(n, f'lock{n}')}"
  if kind == 'rlock':
    return f'{op} rlock1#{n - 1}'
  return f'{op} q1#{n - 1}'


def hold_chooser(spec):
  """WINDOW schedules: {kind:'hold', seed, hold: tid, at: label prefix, lead: k}.  The gap between a handler's unlocked
  look at a flag / attribute and the lock acquisition that follows it is one pre-emption point (the thread is parked on
  its pending `acquire`); this chooser makes "everybody else runs to completion inside the gap" a schedule that is
  generated on purpose instead of waiting for the random choosers to find it:
    phase 0  `lead` random steps of the other threads (what the server looks like when the request arrives);
    phase 1  thread `hold` alone, until its pending operation's canonical label starts with `at` (it has done its unlocked
             check and now asks for the lock) — or it ends;
    phase 2  every OTHER thread, at random, until none of them can run (a shutdown / re-initialisation / stop runs to
             completion inside the window);
    phase 3  everybody, at random."""
  rng = random.Random(spec['seed'])
  hold, at, lead = spec['hold'], spec['at'], [spec.get('lead', 0)]
  phase = [0]

  def pending(sched, tid):
    t = sched.threads[tid] if tid < len(sched.threads) else None
    if t is None or t.done or t.pending is None:
      return None
    return canon_label(t.pending.label)

  def inner(opts, sched):
    tids = [t for t, _ in opts]
    others = [i for i, t in enumerate(tids) if t != hold]
    mine = [i for i, t in enumerate(tids) if t == hold]
    if phase[0] == 0:
      if lead[0] > 0 and others:
        lead[0] -= 1
        return rng.choice(others)
      phase[0] = 1
    if phase[0] == 1:
      lbl = pending(sched, hold)
      if lbl is not None and not lbl.startswith(at) and mine:
        return mine[0]
      phase[0] = 2
    if phase[0] == 2:
      if others:
        return rng.choice(others)
      phase[0] = 3
    return rng.randrange(len(opts))
  return inner


def make_chooser(spec, record, state):
  """Wraps lib_queue-style choosers: the 60 s heartbeat time-out of the server's main loop is never
  taken (it only re-runs the statistics logging) and is not offered; when nothing else can run the
  run stops and the threads still alive are recorded."""
  kind = spec['kind']
  if kind == 'replay':
    want = [c if isinstance(c, int) else c[0] for c in spec['choices']]
    pos = [0]

    def inner(opts, sched):
      if pos[0] >= len(want):
        return None
      w = (want[pos[0]], None)
      pos[0] += 1
      if w not in opts:
        raise shim.SchedulerError(f'schedule wants {w}, enabled {opts} at step {sched.steps}')
      return opts.index(w)
  elif kind == 'hold':
    inner = hold_chooser(spec)
  else:
    rng = random.Random(spec['seed'])
    inner = (shim.priority_chooser(rng, change_points=spec.get('changes', 3), horizon=spec.get('horizon', 150))
             if kind == 'pct' else shim.random_chooser(rng, timeout_weight=0.0))

  def choose(opts, sched):
    live = [o for o in opts if o[1] is None]
    record.append([t for t, _ in live])
    if not live:
      state['left'] = [(t.tid, t.name, canon_label(t.pending.label) if t.pending else None)
                       for t in sched.threads if not t.done]
      return None
    i = inner(live, sched)
    if i is None:
      state['left'] = [(t.tid, t.name, canon_label(t.pending.label) if t.pending else None)
                       for t in sched.threads if not t.done]
      state['cut'] = True
      return None
    return opts.index(live[i])
  return choose


def _marker(e):
  if isinstance(e, StopIteration):
    return {'raise': 'StopIteration', 'args': list(e.args)}
  return {'raise': err_kind(e)}


def _reply(batch):
  """canonical form of one next_batch reply: elements and the (optional) end marker(s)"""
  elems = [x for x in batch if not isinstance(x, Exception)]
  marks = [_marker(x) for x in batch if isinstance(x, Exception)]
  return dict(elems=elems, marker=marks[0] if marks else None, nmarkers=len(marks),
              marker_last=(not marks) or isinstance(batch[-1], Exception))


def run_real(case, max_steps=2500):   # clean runs need <= ~250 steps; a non-terminating change must end a case quickly
  from harness import fakecourier
  fakecourier.install()
  fakecourier.reset(mode='inline')
  import courier  # the fake
  from ml_metrics._src.chainables import courier_server, lazy_fns
  from ml_metrics._src.utils import courier_utils, iter_utils
  logging.disable(logging.CRITICAL)
  world = fakecourier.world()
  orig_submit = world.submit

  def submit(address, method, args, kwargs, *more, **kw):
    # a call to a stopped server never completes; stand for the caller's deadline: fail it at once (code 4)
    fut = orig_submit(address, method, args, kwargs, *more, **kw)
    if not fut.done():
      world.fail_hung(address)
    return fut
  world.submit = submit

  # a managed thread that blocks on a real (unmanaged) primitive would hang the run: fail loudly instead
  import faulthandler
  faulthandler.dump_traceback_later(240, exit=True)
  enabled_rec, state = [], {}
  sched = shim.Scheduler(make_chooser(case['sched'], enabled_rec, state), max_steps=max_steps)
  _CUR.clear()
  _CUR.update(sched=sched, threads=case['threads'])
  out = {}
  err = None
  pickler = lazy_fns.pickler
  try:
    with shim.patched(sched, [iter_utils, courier_server], names=('threading', 'queue')):
      server = courier_server.PrefetchedCourierServer(prefetch_size=case['prefetch'])
      _KEEP.append(server)
      server.start()            # spawns managed thread 0 = run_until_shutdown
      addr = server.address

      def rpc(method, *args):
        """one blocking RPC; returns ('ok', value) | ('rpc_error', code)"""
        fut = getattr(courier.Client(addr).futures, method)(*args)
        try:
          return 'ok', fut.result(timeout=30)
        except courier.StatusNotOk as e:
          return 'rpc_error', _rpc_error(e)

      def client(i, p):
        got = []
        out[i] = dict(yielded=got, outcome=None, running=True)
        # one CourierClient object per client thread (the class is a singleton per configuration): in inline mode
        # a handler runs while the caller holds its client's (real, unmanaged) state lock
        cl = courier_utils.CourierClient(addr, iterate_batch_size=p['batch'], heartbeat_threshold_secs=180 + i)
        _KEEP.append(cl)
        task = courier_utils.GeneratorTask.new(lazy_fns.trace(make_source)(i))
        rq = _queue.SimpleQueue()

        async def consume():
          async for x in cl.async_iterate(task, generator_result_queue=rq):
            got.append(x)
        try:
          asyncio.run(consume())
          rets = []
          while not rq.empty():
            rets.append(rq.get())
          out[i] = dict(yielded=got, outcome={'raise': 'StopIteration', 'args': rets})
        except shim._Killed:   # pylint: disable=protected-access
          raise
        except courier.StatusNotOk as e:
          out[i] = dict(yielded=got, outcome=_rpc_error(e))
        except Exception as e:  # pylint: disable=broad-except
          out[i] = dict(yielded=got, outcome={'raise': err_kind(e)})

      def init(i, p):
        out[i] = dict(outcome=None, running=True)
        st, v = rpc('init_generator', pickler.dumps(lazy_fns.trace(make_source)(i)))
        if st == 'ok':
          v = lazy_fns.maybe_unpickle(v)
          out[i] = dict(outcome=None if v is None else _marker(v))
        else:
          out[i] = dict(outcome=v)

      def nxt(i, p):
        out[i] = dict(outcome=None, running=True)
        st, v = rpc('next_batch_from_generator', p['batch'])
        if st == 'ok':
          out[i] = dict(outcome=None, reply=_reply(pickler.loads(v)))
        else:
          out[i] = dict(outcome=v)

      def stop(i, p):
        out[i] = dict(outcome=None, running=True)
        st, v = rpc('stop_prefetch', *([True] if p.get('fatal') else []))
        out[i] = dict(outcome=None if st == 'ok' else v)

      def shutdown(i, p):
        out[i] = dict(outcome=None, running=True)
        st, v = rpc('shutdown')
        out[i] = dict(outcome=None if st == 'ok' else v)

      bodies = dict(client=client, init=init, next=nxt, stop=stop, shutdown=shutdown)
      for i, p in enumerate(case['threads']):
        sched.spawn(f"{p['kind']}{i + 1}", bodies[p['kind']], i, p)
      try:
        outcome = sched.run()
      except shim.SchedulerError as e:
        outcome, err = 'schedule_rejected', str(e)
  finally:
    faulthandler.cancel_dump_traceback_later()
    world.submit = orig_submit
    logging.disable(logging.NOTSET)
  left = state.get('left', [])
  if outcome == 'stopped':
    # nothing but (possibly) the idle main loop is left -> the run is complete
    others = [b for b in left if not (b[0] == MAIN and b[2] in ('wake shut', 'wait shut'))]
    outcome = 'cut' if state.get('cut') else ('done' if not others else 'deadlock')
  elif outcome == 'deadlock':
    left = [(b[0], b[1], canon_label(b[2]) if b[2] else None) for b in sched.blocked]
  n = len(case['threads'])
  alive = {b[0] for b in left}
  threads = []
  for i in range(n):
    o = dict(out.get(i) or {})
    running = o.pop('running', False) or i not in out or (i + 1) in alive
    if (i + 1) in alive:       # killed at the end of the run: whatever it recorded afterwards is not an outcome
      o['outcome'] = None
      o.pop('reply', None)
    o['done'] = not running
    threads.append(o)
  # every managed thread after the programs is a prefetch thread
  producers = [dict(tid=t.tid, done=bool(t.done and t.tid not in alive),
                    raised=err_kind(t.exc) if (t.exc is not None and t.tid not in alive) else None)
               for t in sched.threads[n + 1:]]
  return dict(
      outcome=outcome, err=err,
      choices=[t for t, _ in sched.choices],
      trace=[[t, canon_label(l)] for t, l in sched.trace],
      enabled=enabled_rec,
      threads=threads,
      producers=producers,
      main_done=bool(sched.threads and sched.threads[0].done and MAIN not in alive),
      left=[list(b) for b in left],
  )


# ------------------------------------------------------------------ model side

def model_request(case, choices, want_enabled=True):
  return dict(model='prefetch', prefetch=case['prefetch'], threads=case['threads'], schedule=list(choices),
              want_enabled=want_enabled)


def model_requests_obs(case, obs):
  return [model_request(case, obs['choices'])]


def model_obs(case, resps):
  r = resps[0]
  left = r['left']
  others = [b for b in left if b[0] != MAIN]
  main_idle = any(b[0] == MAIN and b[1] == 'wake shut' for b in left)
  if not r['enabled']:
    outcome = 'done' if (not others and (main_idle or r['main_done'])) else 'deadlock'
  else:
    outcome = 'open'
  return dict(accepted=r['accepted'], trace=r['trace'], threads=r['threads'], producers=r['producers'],
              main_done=r['main_done'], outcome=outcome, enabled=r['enabled_trace'], nsteps=len(r['trace']),
              left_tids=sorted(b[0] for b in left))


def compare(obs, m):
  if obs['outcome'] == 'schedule_rejected':
    return f"real code rejected the schedule: {obs['err']}"
  if not m['accepted']:
    k = m['nsteps']
    return (f"model rejects choice #{k} (thread {obs['choices'][k] if k < len(obs['choices']) else None}, real label "
            f"{obs['trace'][k] if k < len(obs['trace']) else None}) taken by the real code")
  if obs['trace'] != m['trace']:
    for k, (a, b) in enumerate(zip(obs['trace'], m['trace'])):
      if a != b:
        return f'operation #{k}: real {a} vs model {b}'
    return f"trace lengths differ: real {len(obs['trace'])} model {len(m['trace'])}"
  for k, (a, b) in enumerate(zip(obs['enabled'], m['enabled'])):
    if sorted(a) != sorted(b):
      return f'enabled threads before step {k}: real {sorted(a)} vs model {sorted(b)}'
  if obs['outcome'] in ('done', 'deadlock'):
    if obs['threads'] != m['threads']:
      return f"request outcomes differ: real {obs['threads']} vs model {m['threads']}"
    if obs['producers'] != m['producers']:
      return f"prefetch threads differ: real {obs['producers']} vs model {m['producers']}"
    if obs['main_done'] != m['main_done']:
      return f"server thread: real done={obs['main_done']} vs model done={m['main_done']}"
    if sorted(b[0] for b in obs['left']) != m['left_tids']:
      return f"threads left: real {obs['left']} vs model {m['left_tids']}"
    if obs['outcome'] != m['outcome']:
      return f"outcome differs: real {obs['outcome']} vs model {m['outcome']}"
  return None
