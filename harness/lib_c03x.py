"""C03 (round 7) — two further case families of the strategy-independence check.

`fam = "sizes"`  SIZE-DEPENDENT behaviour.  Every integer constant of the code under C03 (`iter_utils._MAX_BATCH_SIZE`,
  `_RANDOM_ACCESS_BATCH_SIZE`, `_ITERATE_FN_MAX_THREADS`, the `parallism * 3` queue bound, any cache / buffer size …)
  defines a boundary.  The constants are read off the SOURCE of the working tree at run time (`constants()`: every
  integer literal of the anchor files), so a changed or a new constant moves / adds boundary cases by itself.  Streams
  of 0, 1, b-1, b, b+1 and several x b elements are pushed, with the producer running AHEAD of the consumer, through
    q_iter / q_batch   an `IteratorQueue` consumed by `iter(q)` (= `DequeueIterator`, optionally `num_steps`) or by a
                       `get_batch()` loop — unbounded, or bounded with a producer thread that is parked on the full queue;
    interleaved        `orchestrate.run_pipeline_interleaved` in process (2 or 3 named stages, default unbounded stage
                       queues or `RunnerResource(buffer_size=b)`), the downstream stage's first call waiting on an event
                       until the upstream source is exhausted (resp. has filled the bounded queue);
    threads            `num_threads = t` (queue bound `3 t`), the consumer starting after the producers filled the queue;
  oracle = the property: the same list (multiset for threads) of emitted elements and the same aggregate as the plain
  sequential run.  Model = `Model/DequeueCache.lean` (driver "dequeuecache"): `get_batch` refills of at most `bm`
  elements into the consumer-local cache of `DequeueIterator`, `popleft` per `__next__`.

`fam = "sliced"` SHARDED x SLICED.  A sliced aggregation keeps one state per slice value a run has SEEN, so the states of
  the shard runs carry different key sets.  Case = a C02-format pipeline (`sub`: aggregates, slicers, batches — built by
  harness/props/c02.py's builder, which this module only imports) + a partition of the batches into shards (`parts`,
  any partition: a slice value absent from the first / a middle / the last shard, disjoint key sets, empty shards) +
  how the states are merged (ChainedRunner / TransformRunner / AGGREGATE-mode runner / a chain of two aggregating
  stages; states as list / generator / iterator; with / without strict_states_cnt; batches as list / one-shot
  iterator; shards given explicitly or cut by `make(shard=ShardConfig(i, k))` over a SequenceDataSource).
  oracle = brute-force group-by over the WHOLE data (c02.expected) and equality with the unsharded run.
  Model = `Model/PipeAggShard.lean` (driver "pipeaggshard"): `mergeStates` over the per-shard state maps.
"""
from __future__ import annotations

import ast
import collections
import functools
import json
import os

ANCHORS = ['ml_metrics/_src/utils/iter_utils.py', 'ml_metrics/_src/chainables/orchestrate.py',
           'ml_metrics/_src/chainables/transform.py', 'ml_metrics/_src/chainables/io.py']
MAX_CONST = 20000      # larger literals (num_workers = 999999) are not stream-size boundaries


# ------------------------------------------------------------------ constants of the code, read off the source

@functools.lru_cache(maxsize=None)
def constants(repo=None):
  """{value: ["file:line", ..]} for every integer literal 2 <= v <= MAX_CONST of the anchor files"""
  repo = repo or os.environ.get('VERIF_REPO', '/repo')
  out = collections.OrderedDict()
  for f in ANCHORS:
    p = os.path.join(repo, f)
    try:
      tree = ast.parse(open(p).read())
    except (OSError, SyntaxError):
      continue
    for node in ast.walk(tree):
      if isinstance(node, ast.Constant) and type(node.value) is int and 2 <= node.value <= MAX_CONST:
        out.setdefault(node.value, []).append(f'{os.path.basename(f)}:{node.lineno}')
  return dict(sorted(out.items()))


def named_constants(repo=None):
  """module-level NAME = <int> of iter_utils (for the evidence)"""
  repo = repo or os.environ.get('VERIF_REPO', '/repo')
  out = {}
  try:
    tree = ast.parse(open(os.path.join(repo, ANCHORS[0])).read())
  except (OSError, SyntaxError):
    return out
  for node in tree.body:
    if isinstance(node, ast.Assign) and isinstance(node.value, ast.Constant) and type(node.value.value) is int:
      for t in node.targets:
        if isinstance(t, ast.Name):
          out[t.id] = node.value.value
  return out


def size_points(consts):
  """stream lengths that straddle every bound: 0, 1, b-1, b, b+1, and 2 x the largest bound + 3"""
  pts = {0, 1, 2}
  for b in consts:
    pts.update((b - 1, b, b + 1))
  if consts:
    pts.add(2 * max(consts) + 3)
  return sorted(p for p in pts if p >= 0)


# ------------------------------------------------------------------ fam = sizes: the real code

class _Source:
  """range(n) that counts what it handed out and signals `ahead` after `mark` elements / at exhaustion"""

  def __init__(self, n, mark, ev):
    self.n, self.mark, self.ev, self.k = n, mark, ev, 0

  def __iter__(self):
    def gen():
      if self.mark <= 0:
        self.ev.set()
      for i in range(self.n):
        self.k += 1
        if self.k >= self.mark:
          self.ev.set()
        yield i
      self.ev.set()
    return gen()


class SumCnt:
  """a plain Aggregatable with immutable states: (sum, count)"""

  def create_state(self):
    return (0, 0)

  def update_state(self, state, x):
    return (state[0] + int(x), state[1] + 1)

  def merge_states(self, states):
    states = list(states)
    return (sum(s[0] for s in states), sum(s[1] for s in states))

  def get_result(self, state):
    return [int(state[0]), int(state[1])]


GATE_WAIT = 8.0      # the consumer waits at most this long for the producer to run ahead (then goes on, `ahead` = false)


def _sz_pipeline(n, mods, *, stages=2, nt=0, mark=0, gate=False):
  import threading
  np, transform, io, orchestrate, rolling_stats, base = mods
  ev = threading.Event()
  src = _Source(n, mark, ev)
  first = []
  info = dict(ahead_at_first_call=None)

  def work(x):
    if gate and not first:
      first.append(True)
      ev.wait(GATE_WAIT)
      info['ahead_at_first_call'] = src.k
    return x * 2 + 1

  P = transform.TreeTransform
  p = P.new(name='read', num_threads=nt).data_source(src).apply(lambda x: x)
  if stages >= 3:
    p = p.chain(P.new(name='mid', num_threads=nt).apply(lambda x: x + 1))
  p = p.chain(P.new(name='work', num_threads=nt).apply(work).aggregate(fn=SumCnt(), output_keys='stats'))
  return p, src, ev, info


def _aggs(res):
  if res is None:
    return {}
  return {str(k): [int(v) for v in val] for k, val in dict(res).items()}


def run_sizes(case, st, mods):
  """one strategy of a sizes case; returns {base: sequential observation, obs: this strategy's}"""
  import threading
  import time
  from harness.core import err_kind
  from harness import lib_c03 as L
  from ml_metrics._src.utils import iter_utils
  np, transform, io, orchestrate, rolling_stats, base_mod = mods
  n, s = case['n'], st['s']
  out = {}
  try:
    if s in ('q_iter', 'q_batch'):
      out['base'] = dict(err=None, out=list(range(n)), aggs={})
      buf, bm = st.get('buf', 0), st.get('bm', 0)
      q = iter_utils.IteratorQueue(buf, name='c03x', max_batch_size=bm) if bm else iter_utils.IteratorQueue(buf, name='c03x')
      ev = threading.Event()
      src = _Source(n, min(n, buf) if buf else n, ev)
      th = None
      if buf == 0 or n <= buf:
        q.enqueue_from_iterator(src)          # the producer is completely ahead of the consumer
        ahead = src.k
      else:
        th = threading.Thread(target=q.enqueue_from_iterator, args=(src,), daemon=True)
        th.start()
        ev.wait(GATE_WAIT)
        time.sleep(0.002)
        ahead = src.k
      got, sizes = [], []
      if s == 'q_iter':
        steps = st.get('steps')
        it = iter(q) if steps is None else q.dequeue_as_iterator(num_steps=steps)
        for x in it:
          got.append(int(x))
      else:
        while True:
          try:
            b = q.get_batch()
          except StopIteration:
            break
          if not b:
            sizes.append(0)
            break
          sizes.append(len(b))
          got.extend(int(x) for x in b)
      if th is not None:
        th.join(5)
      out['obs'] = dict(err=None, out=got, aggs={}, ahead=ahead, sizes=sizes, max_batch=int(bm or iter_utils._MAX_BATCH_SIZE)
                        if hasattr(iter_utils, '_MAX_BATCH_SIZE') else int(bm))
      return out
    # --- pipelines: the sequential chained run is the baseline
    p0, *_ = _sz_pipeline(n, mods, stages=st.get('stages', 2))
    it = p0.make().iterate()
    outs, ret = L.drain(it)
    out['base'] = dict(err=None, out=[int(x) for x in outs], aggs=_aggs(ret.agg_result if ret is not None else None))
    if s == 'interleaved':
      buf = st.get('buf', 0)
      p, src, ev, info = _sz_pipeline(n, mods, stages=st.get('stages', 2), mark=(min(n, buf) if buf else n), gate=True)
      resources = {}
      if buf:
        resources = {name: orchestrate.RunnerResource(buffer_size=buf) for name in ('read', 'mid')}
      with orchestrate.run_pipeline_interleaved(p, resources=resources) as runner:
        got = [int(x) for x in runner.result_queue]
      aggs, nret = {}, []
      for stage in runner.stages:
        nret.append(len(stage.result_queue.returned))
        for r in stage.result_queue.returned:
          if r is not None:
            aggs.update(_aggs(r.agg_result))
      out['obs'] = dict(err=None, out=got, aggs=aggs, nret=nret, ahead=info['ahead_at_first_call'])
      return out
    if s == 'threads':
      t = st['t']
      p, src, ev, info = _sz_pipeline(n, mods, stages=st.get('stages', 2), nt=t, mark=min(n, 3 * t))
      it = p.make().iterate()
      first = []
      try:
        first.append(next(it))       # starts the producers (a generator-based runner starts lazily)
      except StopIteration as e:
        out['obs'] = dict(err=None, out=[], aggs=_aggs(e.value.agg_result if e.value is not None else None), ahead=src.k)
        return out
      ev.wait(GATE_WAIT)
      time.sleep(0.003)
      ahead = src.k
      outs, ret = L.drain(it)
      out['obs'] = dict(err=None, out=[int(x) for x in first + outs],
                        aggs=_aggs(ret.agg_result if ret is not None else None), ahead=ahead)
      return out
    raise ValueError(s)
  except Exception as e:  # pylint: disable=broad-except
    out.setdefault('base', dict(err=None, out=None, aggs={}))
    out['obs'] = dict(err=err_kind(e), phase='run', msg=(str(e) or repr(e.__cause__))[:160])
    return out


# ------------------------------------------------------------------ fam = sizes: generator, oracle, model

def sz_tag(st):
  return '[sizes ' + ' '.join(f'{k}={st[k]}' for k in sorted(st)) + ']'


def gen_sizes(ctx):
  """(n, strategy) pairs: every strategy meets every boundary length it can afford"""
  rng = ctx.rng
  consts = constants()
  pts = size_points(consts)
  big = max(consts) if consts else 0
  cases = []

  def add(n, **st):
    cases.append(dict(fam='sizes', n=n, strat=st))

  small_bufs = sorted({b for b in consts if b <= 16} | {1, 2})
  for n in pts:
    # the consumer of an unbounded queue whose producer finished before it started (stage queues of the interleaved runner)
    add(n, s='q_iter', buf=0)
    add(n, s='q_batch', buf=0)
    add(n, s='interleaved', stages=2, buf=0)
    if n <= 300 or n in (big - 1, big, big + 1, 2 * big + 3):
      add(n, s='interleaved', stages=3, buf=0)
      add(n, s='threads', t=rng.choice([1, 2, 3]))
    if n <= 300:
      b = rng.choice(small_bufs)
      add(n, s='q_iter', buf=b)
      add(n, s='interleaved', stages=rng.choice([2, 3]), buf=b)
      add(n, s='threads', t=rng.choice([1, 2, 3, 8]))
  # the cap of one get_batch as a parameter: every small cap against lengths around its multiples; num_steps
  for bm in (1, 2, 3, 5):
    for n in sorted({0, 1, bm - 1, bm, bm + 1, 2 * bm, 2 * bm + 1, 3 * bm + 2}):
      if n >= 0:
        add(n, s='q_iter', buf=0, bm=bm)
        add(n, s='q_batch', buf=0, bm=bm)
        add(n, s='q_iter', buf=0, bm=bm, steps=rng.randrange(0, n + 2))
  for n in (big + 1, 2 * big + 3):
    if n > 1:
      add(n, s='q_iter', buf=0, steps=rng.choice([big, big + 1, n - 1]))
  # a producer parked on a bounded queue of a size at / around a constant, a consumer that starts late
  for b in sorted({x for x in consts if x <= 300}):
    for n in (b, b + 1, 2 * b + 1):
      add(n, s='q_iter', buf=b)
      add(n, s='q_batch', buf=b)
  rng.shuffle(cases)
  # long streams first in their chunk is bad for the pool: spread them
  cases.sort(key=lambda c: 0)   # (stable: keeps the shuffle)
  return cases


def sz_counts(ctx, case):
  st = case['strat']
  consts = constants()
  big = max(consts) if consts else 0
  ctx.count('x-family', 'sizes')
  ctx.count('sizes:strategy', st['s'] + (':bounded' if st.get('buf') else ''))
  ctx.count('sizes:length-class', 'longer than every bound' if case['n'] > big else
            ('at a bound +-1' if any(abs(case['n'] - b) <= 1 for b in consts) else 'other'))
  if case['n'] > big and not st.get('buf'):
    ctx.count('sizes:longer-than-every-bound', st['s'])


def sz_oracle(case, o):
  st = case['strat']
  obs, base = o.get('obs', {}), o.get('base', {})
  if o.get('hang'):
    return f"{sz_tag(st)} n={case['n']}: did not finish within {o.get('timeout')} s (hang)"
  if obs.get('err'):
    return f"{sz_tag(st)} n={case['n']}: error {obs['err']}: {obs.get('msg', '')[:100]}"
  if base.get('err') or base.get('out') is None:
    return f"{sz_tag(st)} n={case['n']}: the sequential baseline failed"
  want = base['out']
  if st.get('steps') is not None:
    want = want[:st['steps']]
  got = obs['out']
  same = (sorted(got) == sorted(want)) if st['s'] == 'threads' else (got == want)
  if not same:
    missing = collections.Counter(want) - collections.Counter(got)
    extra = collections.Counter(got) - collections.Counter(want)
    return (f"{sz_tag(st)} n={case['n']}: emitted elements differ from the sequential run: {len(got)} instead of {len(want)}, "
            f"{sum(missing.values())} lost (first {sorted(missing)[:4]}), {sum(extra.values())} unexpected"
            + ('' if missing or extra else ', order differs'))
  if obs.get('aggs') != base.get('aggs'):
    return f"{sz_tag(st)} n={case['n']}: agg_result {obs.get('aggs')} differs from the sequential {base.get('aggs')}"
  if st['s'] == 'q_batch':
    cap = obs.get('max_batch') or 0
    if cap and any(x > cap for x in obs.get('sizes', [])):
      return f"{sz_tag(st)} n={case['n']}: get_batch returned more than max_batch_size={cap} elements: {obs['sizes'][:6]}"
    if any(x == 0 for x in obs.get('sizes', [])):
      return f"{sz_tag(st)} n={case['n']}: get_batch returned an empty batch on a queue that is not exhausted"
  if st['s'] == 'interleaved' and base.get('aggs') and sum(obs.get('nret', [])) < 1:
    return f"{sz_tag(st)} n={case['n']}: no AggregateResult in any stage result queue"
  return None


def sz_fully_ahead(case, o):
  st = case['strat']
  return st['s'] in ('q_iter', 'q_batch') and (o or {}).get('obs', {}).get('ahead') == case['n'] and (
      not st.get('buf') or case['n'] <= st['buf'])


def sz_model_requests(case, o):
  st = case['strat']
  bm = st.get('bm') or ((o or {}).get('obs') or {}).get('max_batch') or named_constants().get('_MAX_BATCH_SIZE', 4096)
  stages = {'q_iter': 1, 'q_batch': 1, 'interleaved': st.get('stages', 2), 'threads': 1}[st['s']]
  return [dict(model='dequeuecache', n=case['n'], bm=int(bm), maxlen=0, steps=st.get('steps'), queues=stages)]


def sz_compare(case, o, resp):
  """the model's delivered list against the real one (exact when the producer was completely ahead)"""
  st = case['strat']
  obs = (o or {}).get('obs') or {}
  if o.get('hang') or obs.get('err'):
    return None
  if resp.get('err'):
    return f"model: {resp['err']}"
  idx = resp['out']
  if st['s'] in ('q_iter', 'q_batch'):
    if obs['out'] != idx:
      return f"{sz_tag(st)} n={case['n']}: delivered {len(obs['out'])} elements, model {len(idx)} (first difference at " \
             f"{next((i for i, (a, b) in enumerate(zip(obs['out'], idx)) if a != b), min(len(idx), len(obs['out'])))})"
    if st['s'] == 'q_batch' and sz_fully_ahead(case, o) and obs.get('sizes') != resp['sizes']:
      return f"{sz_tag(st)} n={case['n']}: get_batch sizes {obs['sizes'][:8]} != model {resp['sizes'][:8]}"
    return None
  f = (lambda x: (x + 1) * 2 + 1) if st.get('stages', 2) >= 3 else (lambda x: x * 2 + 1)
  want = [f(i) for i in idx]
  got = obs['out']
  if (sorted(got) != sorted(want)) if st['s'] == 'threads' else (got != want):
    return f"{sz_tag(st)} n={case['n']}: emitted {len(got)} elements, model {len(want)}"
  if obs.get('aggs') and obs['aggs'].get('stats') != [sum(want), len(want)]:
    return f"{sz_tag(st)} n={case['n']}: agg {obs['aggs']} != model {[sum(want), len(want)]}"
  return None


def deque_selfcheck(ctx, n_cases=80):
  """The model's reading of `collections.deque(maxlen)` is a trusted line: check it each run — the compiled model
  (every maxlen, cap, num_steps) against the DequeueIterator algorithm run on CPython's own deque."""
  rng = ctx.rng
  reqs, wants = [], []
  for _ in range(n_cases):
    n, bm, maxlen = rng.randrange(0, 30), rng.randrange(1, 8), rng.randrange(0, 9)
    steps = rng.choice([None, None, rng.randrange(0, n + 2)])
    reqs.append(dict(model='dequeuecache', n=n, bm=bm, maxlen=maxlen, steps=steps, queues=1))
    d, out, cnt = collections.deque(maxlen=maxlen or None), [], 0
    refills = [list(range(i, min(i + bm, n))) for i in range(0, n, bm)]
    while True:
      if steps is not None and cnt == steps:
        break
      if not d:
        if not refills:
          break
        d.extend(refills.pop(0))
      cnt += 1
      out.append(d.popleft())
    wants.append(out)
  resps = ctx.lean.ask_many(reqs)
  for rq, w, r in zip(reqs, wants, resps):
    ctx.extra_evals += 1
    ctx.count('sizes:deque-selfcheck', 'bounded cache smaller than a refill' if 0 < rq['maxlen'] < min(rq['bm'], rq['n']) else 'other')
    if r.get('out') != w:
      ctx.extra_disagreements.append(('deque(maxlen) semantics', rq, dict(why='model != CPython deque', model=r.get('out'), cpython=w)))


# ------------------------------------------------------------------ fam = sliced: the real code

def _c02():
  from harness.props import c02
  return c02


def run_sliced(case, st, mods):
  """whole run + sharded runs merged as `st` says; both results canonicalised by c02.canon_result"""
  import warnings
  from harness.core import err_kind
  from harness import lib_c03 as L
  np, transform, io, orchestrate, rolling_stats, base_mod = mods
  c02 = _c02()
  sub = case['sub']
  out = {}

  def build(with_source=None, nt=0):
    stages = [c02.build_transform(sub)]
    if st.get('chain2'):
      # a chain of two aggregating stages: the same aggregates / slicers again under other output keys
      stages = [_named(stages[0], 'first', transform), _named(c02.build_transform(_second(sub)), 'second', transform)]
    if with_source is not None:
      stages.insert(0, transform.TreeTransform.new(name='read', num_threads=nt).data_source(with_source))
    t = stages[0]
    for nxt in stages[1:]:
      t = t.chain(nxt)
    return t

  def feed(bs):
    how = st.get('input', 'list')
    return bs if how == 'list' else (iter(bs) if how == 'iter' else (b for b in bs))

  with warnings.catch_warnings():
    warnings.simplefilter('ignore')
    try:
      batches = c02.build_batches(sub)
      # ---- the whole run
      it = build().make().iterate(feed(batches))
      _, ret = L.drain(it)
      out['whole'] = dict(err=None, result=c02.canon_result(it.agg_result))
    except Exception as e:  # pylint: disable=broad-except
      out['whole'] = dict(err=err_kind(e), result=[], msg=str(e)[:120])
    try:
      batches = c02.build_batches(sub)
      states = []
      via = st.get('via', 'parts')
      if via == 'parts':
        for part in case['parts']:
          it = build().make().iterate(feed([batches[i] for i in part]))
          _, ret = L.drain(it)
          states.append(it.agg_state)
      else:
        k = st['k']
        for i in range(k):
          if via == 'make':
            it = build(io.SequenceDataSource(batches)).make(shard=io.ShardConfig(i, k)).iterate()
          else:
            it = build(io.SequenceDataSource(batches).shard(i, k)).make().iterate()
          _, ret = L.drain(it)
          states.append(it.agg_state)
      p = build()
      rk = st.get('runner', 'chained')
      if rk == 'aggregate':
        runner = p.make(mode=transform.RunnerMode.AGGREGATE)
      elif rk == 'transform' and not st.get('chain2'):
        runner = transform.TransformRunner.from_transform(p, input_state=None)
      else:
        runner = p.make()
      how = st.get('states_as', 'list')
      arg = states if how == 'list' else (iter(states) if how == 'iter' else (x for x in states))
      kw = dict(strict_states_cnt=len(states)) if st.get('strict') else {}
      merged = runner.merge_states(arg, **kw)
      res = runner.get_result(merged)
      res = getattr(res, 'data', res)          # TransformRunner.get_result returns a TreeMapView, ChainedRunner its .data
      out['merged'] = dict(err=None, result=c02.canon_result(dict(res) if res is not None else {}), nstates=len(states),
                           keysets=[sorted({str(k.slice.values) for k in s if k.slice.values}) for s in states])
    except Exception as e:  # pylint: disable=broad-except
      out['merged'] = dict(err=err_kind(e), result=[], msg=(str(e) or repr(e))[:160])
  return out


def _named(t, name, transform):
  """the same transform under a stage name (TreeTransform is a frozen dataclass: public `dataclasses.replace`)"""
  import dataclasses
  return dataclasses.replace(t, name=name)


# ------------------------------------------------------------------ fam = sliced: generator, oracle, model

def sl_tag(st):
  return '[sliced ' + ' '.join(f'{k}={st[k]}' for k in sorted(st)) + ']'


def _slice_keys_per_batch(sub, sl):
  """slice values of a row-level slicer that occur in each batch (from the data; only c02's public SLICE_FNS is used)"""
  c02 = _c02()
  out = []
  for b in sub['batches']:
    ks = set()
    for i in range(len(b[sl['keys'][0]])):
      feats = [b[k][i] for k in sl['keys']]
      if sl['kind'] == 'default':
        ks.add(tuple(feats))
      elif sl['kind'] == 'within':
        if all(f in w for f, w in zip(feats, sl['within'])):
          ks.add(tuple(feats))
      elif sl['kind'] == 'fn':
        ks.update(v if isinstance(v, tuple) else (v,) for v in c02.SLICE_FNS[sl['fn']](*feats))
    out.append(ks)
  return out


def _shard_keysets(sub, parts):
  """slice values (of every row slicer) that occur in each shard — from the data, by brute force"""
  per_batch = [set() for _ in sub['batches']]
  for sl in sub['slicers']:
    if sl['kind'] == 'mask':
      continue
    for i, ks in enumerate(_slice_keys_per_batch(sub, sl)):
      per_batch[i] |= {(tuple(sl['name']), k) for k in ks}
  return [set().union(*[per_batch[i] for i in part]) if part else set() for part in parts]


def sl_classes(case):
  """the input classes of this case (what the generator promises to cover)"""
  st = case['strat']
  out = set()
  if st.get('via', 'parts') != 'parts':
    k = st['k']
    n = len(case['sub']['batches'])
    q, r = divmod(n, k)
    parts, pos = [], 0
    for i in range(k):
      ln = q + (1 if i < r else 0)
      parts.append(list(range(pos, pos + ln)))
      pos += ln
  else:
    parts = case['parts']
  ks = _shard_keysets(case['sub'], parts)
  allk = set().union(*ks) if ks else set()
  if len(parts) >= 2 and allk:
    if allk - ks[0]:
      out.add('key absent from the FIRST shard')
    if allk - ks[-1]:
      out.add('key absent from the LAST shard')
    if len(parts) >= 3 and any(allk - k for k in ks[1:-1]):
      out.add('key absent from a MIDDLE shard')
    if all(not (a & b) for i, a in enumerate(ks) for b in ks[i + 1:]) and sum(1 for k in ks if k) >= 2:
      out.add('disjoint key sets')
    if any(k and (ks[0] - k) for k in ks[1:]):
      out.add('key only in the first shard')
  if any(not p for p in parts):
    out.add('empty shard')
    if parts and not parts[0]:
      out.add('empty FIRST shard')
  return out


def gen_sub(rng, kind):
  world = dict(a=[0, 1, 2, 3], b=[0, 1])
  nb = rng.choice([2, 3, 4, 5, 6])
  # clustered data: sorted by the slice feature (a value first shows up late) or uniformly mixed
  batches = []
  total = 0
  for bi in range(nb):
    n = rng.choice([0, 1, 2, 2, 3])
    if kind == 'sorted':
      a = sorted(rng.choice(world['a']) for _ in range(n))
    else:
      a = [rng.choice(world['a']) for _ in range(n)]
    batches.append(dict(a=a, b=[rng.choice(world['b']) for _ in range(n)],
                        x=[rng.randrange(-3, 9) for _ in range(n)], y=[rng.randrange(0, 5) for _ in range(n)]))
    total += n
  if kind == 'sorted':
    flat = sorted((r for b in batches for r in zip(b['a'], b['b'], b['x'], b['y'])), key=lambda r: r[0])
    pos = 0
    for b in batches:
      n = len(b['a'])
      rows = flat[pos:pos + n]
      pos += n
      b['a'], b['b'], b['x'], b['y'] = ([r[j] for r in rows] for j in range(4))
  # aggregates that can merge (c02's plain AggregateFns SumCount / Total have no merge_states)
  aggs = [dict(kind=rng.choice(['meanvar', 'mean', 'counter', 'dot']), out=['o'], **{'in': [rng.choice(['x', 'y'])]})]
  if aggs[0]['kind'] == 'dot':
    aggs[0].update(out=['o', 'o2'], **{'in': ['x', 'y']})
  if rng.random() < 0.4:
    aggs.append(dict(kind=rng.choice(['mean', 'counter', 'meanvar']), out=['p'], **{'in': ['y']}, noslice=rng.random() < 0.3))
  slicers = []
  r = rng.random()
  if r < 0.45:
    slicers.append(dict(name=['a'], keys=['a'], kind='default'))
  elif r < 0.6:
    slicers.append(dict(name=['a', 'b'], keys=['a', 'b'], kind='default'))
  elif r < 0.75:
    slicers.append(dict(name=['a'], keys=['a'], kind='within', within=[sorted(rng.sample(world['a'], 2))]))
  elif r < 0.9:
    slicers.append(dict(name=['f'], keys=['a'], kind='fn', fn=rng.choice(['parity', 'self_and_neg', 'small', 'twice_small'])))
  else:
    slicers.append(dict(name=['a'], keys=['a'], kind='default'))
    slicers.append(dict(name=['b'], keys=['b'], kind='default'))
  return dict(aggs=aggs, slicers=slicers, batches=batches, np=['a', 'b', 'x', 'y'])



def gen_sliced(ctx):
  rng = ctx.rng
  c02 = _c02()
  cases = []
  nrand = 70 if ctx.quick else 1200

  def sub_case(kind):
    return gen_sub(rng, kind)

  def partition(n):
    """a partition of the batch indexes 0..n-1 into 1..5 consecutive shards, empty shards allowed"""
    k = rng.choice([1, 2, 2, 3, 3, 4, 5])
    cuts = sorted(rng.randrange(0, n + 1) for _ in range(k - 1))
    bounds = [0] + cuts + [n]
    return [list(range(bounds[i], bounds[i + 1])) for i in range(k)]

  def strat():
    r = rng.random()
    st = dict(runner=rng.choice(['chained', 'chained', 'transform', 'aggregate']),
              states_as=rng.choice(['list', 'gen', 'iter']), strict=rng.random() < 0.5,
              input=rng.choice(['list', 'list', 'iter']))
    if r < 0.2:
      st['chain2'] = True
      st['runner'] = rng.choice(['chained', 'aggregate'])
    return st

  # directed: the data sorted by the slice feature, every runner kind / state container
  for runner in ('chained', 'transform', 'aggregate'):
    for how in ('list', 'gen', 'iter'):
      sub = sub_case('sorted')
      st = dict(runner=runner, states_as=how, strict=(how != 'list'), input=rng.choice(['list', 'iter']))
      n = len(sub['batches'])
      cases.append(dict(fam='sliced', sub=sub, parts=[list(range(0, n // 2)), list(range(n // 2, n))], strat=st))
  # one case per promised class, searched for (cheap: the classes are computed from the data)
  for cls in SL_REQUIRED['sliced:class']:
    for _ in range(400):
      sub = sub_case('sorted')
      c = dict(fam='sliced', sub=sub, parts=partition(len(sub['batches'])), strat=strat())
      if cls in sl_classes(c):
        cases.append(c)
        break
  for _ in range(nrand):
    sub = sub_case(rng.choice(['sorted', 'sorted', 'mixed']))
    st = strat()
    n = len(sub['batches'])
    r = rng.random()
    if r < 0.7:
      parts = partition(n)
      if rng.random() < 0.25:      # not only consecutive shards: any partition (round robin, shuffled)
        k = len(parts)
        idx = list(range(n))
        if rng.random() < 0.5:
          rng.shuffle(idx)
        parts = [idx[i::k] for i in range(k)]
      cases.append(dict(fam='sliced', sub=sub, parts=parts, strat=st))
    else:
      st.update(via=rng.choice(['make', 'source']), k=rng.choice([1, 2, 3, 4, 5]))
      st['input'] = 'list'
      cases.append(dict(fam='sliced', sub=sub, parts=None, strat=st))
  return cases


def gen_pool(ctx):
  """SLICED aggregations through orchestrate.sharded_pipelines_as_iterator over a worker pool (harness/lib_c16x.py)"""
  rng = ctx.rng
  cases = []
  for _ in range(1 if ctx.quick else 12):
    items = []
    for j in range(6):
      want = {1: 'key absent from the FIRST shard', 2: 'key absent from the LAST shard'}.get(j)
      for _ in range(400):
        sub = gen_sub(rng, 'sorted' if j % 3 else 'mixed')
        item = dict(sub=sub, k=rng.choice([2, 3, 3, 4, 5]) if j else max(1, len(sub['batches'])), workers=rng.choice([1, 2, 3]))
        if want is None or want in sl_classes(pool_pseudo(item)):
          break
      items.append(item)
    cases.append(dict(fam='pool', items=items))
  return cases


def pool_pseudo(item):
  return dict(fam='sliced', sub=item['sub'], parts=None,
              strat=dict(via='pool', k=item['k'], workers=item['workers'], strict=True, states_as='gen', runner='aggregate'))


def pool_counts(ctx, case):
  ctx.count('x-family', 'pool')
  for item in case['items']:
    ctx.count('sliced:via', 'pool')
    ctx.count('pool:workers', item['workers'])
    ctx.count('pool:shards', item['k'])
    for c in sl_classes(pool_pseudo(item)):
      ctx.count('pool:class', c)


def pool_oracle(case, obs):
  for item, o in zip(case['items'], obs):
    w = sl_oracle(pool_pseudo(item), o)
    if w:
      return w
    m = o.get('merged') or {}
    if not (o.get('whole') or {}).get('err') and m.get('nresults') != 1:
      return f"{sl_tag(pool_pseudo(item)['strat'])} {m.get('nresults')} AggregateResults on the result queue instead of exactly one"
  return None


def pool_model_requests(case):
  return [r for item in case['items'] for r in sl_model_requests(pool_pseudo(item))]


def pool_compare(case, obs, resps):
  for item, o, r in zip(case['items'], obs, resps):
    d = sl_compare(pool_pseudo(item), o, [r])
    if d:
      return f"{sl_tag(pool_pseudo(item)['strat'])} {d}"
  return None


def sl_counts(ctx, case):
  st = case['strat']
  ctx.count('x-family', 'sliced')
  ctx.count('sliced:runner', st.get('runner', 'chained') + ('+two stages' if st.get('chain2') else ''))
  ctx.count('sliced:states', f"{st.get('states_as', 'list')}{'+strict' if st.get('strict') else ''}")
  ctx.count('sliced:input', st.get('input', 'list'))
  ctx.count('sliced:via', st.get('via', 'parts'))
  for sl in case['sub']['slicers']:
    ctx.count('sliced:slicer', sl['kind'] + ('-cross' if len(sl['keys']) > 1 else ''))
  for c in sl_classes(case):
    ctx.count('sliced:class', c)


SL_REQUIRED = {'sliced:class': ['key absent from the FIRST shard', 'key absent from the LAST shard', 'key absent from a MIDDLE shard',
                                'disjoint key sets', 'empty shard', 'empty FIRST shard', 'key only in the first shard'],
               'sliced:runner': ['chained', 'transform', 'aggregate', 'chained+two stages'],
               'sliced:states': ['list', 'gen+strict', 'iter'], 'sliced:input': ['list', 'iter'],
               'sliced:via': ['parts', 'make', 'source', 'pool'],
               'pool:class': ['key absent from the FIRST shard', 'key absent from the LAST shard'],
               'sliced:slicer': ['default', 'default-cross', 'within', 'fn']}


def _second(sub):
  sub2 = json.loads(json.dumps(sub))
  for a in sub2['aggs']:
    a['out'] = [o + '_2' for o in a['out']]
  return sub2


def _as_map(result):
  from harness.core import jdump
  return {(e['metric'], jdump(e['slice'])): e['value'] for e in result}


def sl_oracle(case, o):
  from harness.core import deep_close
  st = case['strat']
  c02 = _c02()
  if o.get('hang') or (o.get('merged') or {}).get('hang'):
    return f"{sl_tag(st)} did not finish within {(o.get('merged') or o).get('timeout')} s (hang)"
  whole, merged = o.get('whole', {}), o.get('merged', {})
  if whole.get('err'):
    return None        # the unsharded run itself fails: not a strategy question (C02 / C12)
  if merged.get('err'):
    return f"{sl_tag(st)} the whole run works but the sharded run / merge_states raised {merged['err']}: {merged.get('msg', '')[:100]}"
  w, m = _as_map(whole['result']), _as_map(merged['result'])
  dropped = sorted(set(w) - set(m))
  invented = sorted(set(m) - set(w))
  if dropped:
    return (f"{sl_tag(st)} merged shard states DROP result keys the unsharded run reports: {dropped[:3]} "
            f"(slice values seen per shard: {merged.get('keysets')})")
  if invented:
    return f"{sl_tag(st)} merged shard states report keys the unsharded run does not: {invented[:3]}"
  for k in sorted(w):
    if not deep_close(m[k], w[k], rel=1e-9, abs_=1e-9):
      return f"{sl_tag(st)} {k[0]} {k[1]}: merged shard states give {m[k]}, the unsharded run {w[k]}"
  # brute-force group-by over the whole data (the specification, not the code): C02's oracle on the merged result
  subs = [case['sub']] + ([_second(case['sub'])] if st.get('chain2') else [])
  exp = {}
  try:
    for s in subs:
      exp.update(c02.expected(s))
  except Exception:  # pylint: disable=broad-except
    return None
  if set(exp) != set(m):
    return (f"{sl_tag(st)} keys of the merged result differ from the brute-force group-by: missing {sorted(set(exp) - set(m))[:3]} "
            f"unexpected {sorted(set(m) - set(exp))[:3]}")
  for k in sorted(exp):
    if not deep_close(m[k], exp[k], rel=1e-9, abs_=1e-9):
      return f"{sl_tag(st)} {k[0]} {k[1]}: merged shard states give {m[k]}, brute-force group-by over the whole data {exp[k]}"
  if 'nstates' in merged and merged['nstates'] != (len(case['parts']) if st.get('via', 'parts') == 'parts' else st['k']):
    return f"{sl_tag(st)} {merged.get('nstates')} shard states"
  return None


def sl_model_requests(case):
  c02 = _c02()
  st = case['strat']
  sub = case['sub']
  reqs = []
  for s in [sub] + ([_second(sub)] if st.get('chain2') else []):
    r = c02.model_requests(s)[0]
    n = len(r['batches'])
    if st.get('via', 'parts') == 'parts':
      parts = case['parts']
    else:
      parts = None
    reqs.append(dict(model='pipeaggshard', aggs=r['aggs'], slicers=r['slicers'], batches=r['batches'],
                     parts=parts, k=st.get('k'), strict=(-1 if not st.get('strict') else None)))
  return reqs


def sl_compare(case, o, resps):
  c02 = _c02()
  if o.get('hang') or (o.get('merged') or {}).get('hang'):
    return None
  for which in ('whole', 'merged'):
    impl = o.get(which, {})
    model_res, err = [], None
    for r in resps:
      err = err or r[which]['err']
      model_res += r[which]['result']
    mobs = c02.model_obs(case['sub'], [dict(err=err, result=model_res)])
    if impl.get('err') or mobs['err']:
      if impl.get('err') != mobs['err']:
        return f"{which}: error kinds differ: impl {impl.get('err')} ({impl.get('msg', '')[:60]}) model {mobs['err']}"
      continue
    d = c02.compare(dict(err=None, result=impl['result']), mobs)
    if d:
      return f'{which}: {d}'
  return None
