"""C03 / C16 (round 7) — SLICED aggregations through the worker-pool path of the shard merge.

`orchestrate.sharded_pipelines_as_iterator(pool, define_pipeline, num_shards=k, result_queue=q)` runs
`define_pipeline(shard_index=i, num_shards=k).make().iterate()` on the workers and merges the shard states with
`make(mode=AGGREGATE).merge_states(<generator of states>, strict_states_cnt=k)` on a thread of the master
(orchestrate.py:45-154).  With `add_slice()` the shard states carry different key sets.

This module is NEW in round 7 and only IMPORTS harness/lib_sched.py (the cluster over harness/fakecourier; owned by
the C06/C16 packages) and harness/props/c02.py (the sliced-pipeline builder, owned by C02).  It runs as its own
short-lived process (`python -m harness.lib_c16x`, one JSON request on stdin, one JSON answer on stdout), because
lib_sched.setup() patches the clock of the repo modules, which must not leak into the other C03 strategies.

request : {"items": [{"sub": <C02-format case>, "k": shards, "workers": w}, ..], "timeout": s}
answer  : {"items": [{"whole": {err, result}, "merged": {err, result, nresults, nbatches} | {"hang": true}}, ..]}
"""
from __future__ import annotations

import json
import os
import queue
import subprocess
import sys

VERIF = os.path.dirname(os.path.dirname(os.path.abspath(__file__)))


def define_sliced(sub_json, shard_index=0, num_shards=1):
  """the pipeline of one shard: the batches of `sub` as a SequenceDataSource, sharded, then the sliced aggregation"""
  from harness import lib_sched as L
  from harness.props import c02
  ns = L.setup()
  sub = json.loads(sub_json)
  ds = ns.io.SequenceDataSource(c02.build_batches(sub)).shard(shard_index, num_shards)
  head = ns.transform.TreeTransform.new(name='read').data_source(ds)
  return head.chain(c02.build_transform(sub))


def run_item(item, timeout):
  import warnings
  from harness import lib_sched as L
  from harness.core import err_kind
  from harness.props import c02
  ns = L.setup()
  sub = item['sub']
  out = {}
  with warnings.catch_warnings():
    warnings.simplefilter('ignore')
    try:
      it = c02.build_transform(sub).make().iterate(c02.build_batches(sub))
      for _ in it:
        pass
      out['whole'] = dict(err=None, result=c02.canon_result(it.agg_result))
    except Exception as e:  # pylint: disable=broad-except
      out['whole'] = dict(err=err_kind(e), result=[], msg=str(e)[:120])
    cl = L.Cluster(item['workers'], [])
    rq = queue.SimpleQueue()
    batches = []
    hung = False
    try:
      def body():
        for b in ns.orchestrate.sharded_pipelines_as_iterator(
            cl.pool, define_sliced, json.dumps(sub), num_shards=item['k'], result_queue=rq):
          batches.append(b)

      hung, _, exc = L.run_guarded(body, timeout)
      if hung:
        out['merged'] = dict(hang=True, timeout=timeout)
      elif exc is not None:
        out['merged'] = dict(err=err_kind(exc), result=[], msg=(str(exc) or repr(exc))[:160])
      else:
        results = L.drain_queue(rq, 2.0)
        res = results[0].agg_result if results else None
        res = getattr(res, 'data', res)
        out['merged'] = dict(err=None, result=c02.canon_result(dict(res) if res is not None else {}),
                             nresults=len(results), nbatches=len(batches))
    finally:
      cl.close(hung=hung)
  return out


def _main():
  repo = os.environ.get('VERIF_REPO', '/repo')
  if repo not in sys.path:
    sys.path.insert(0, repo)
  req = json.loads(sys.stdin.read())
  real_stdout = sys.stdout
  sys.stdout = sys.stderr
  items = []
  for item in req['items']:
    try:
      items.append(run_item(item, req.get('timeout', 15.0)))
    except BaseException as e:  # pylint: disable=broad-except
      items.append(dict(whole=dict(err=None, result=[]), merged=dict(err='HarnessError', result=[], msg=repr(e)[:200])))
  real_stdout.write(json.dumps(dict(items=items)) + '\n')
  real_stdout.flush()
  os._exit(0)        # helper threads of the cluster must not keep the process alive


def run(items, timeout=15.0, hard=90.0):
  """runs the items in a fresh process; -> list of observations, or [{'merged': {'hang': True}}..] on a hard timeout"""
  env = dict(os.environ)
  env['PYTHONPATH'] = VERIF + os.pathsep + env.get('PYTHONPATH', '')
  try:
    p = subprocess.run([sys.executable, '-m', 'harness.lib_c16x'], cwd=VERIF, env=env, text=True,
                       input=json.dumps(dict(items=items, timeout=timeout)), capture_output=True, timeout=hard)
  except subprocess.TimeoutExpired:
    return [dict(whole=dict(err=None, result=[]), merged=dict(hang=True, timeout=hard)) for _ in items]
  for line in p.stdout.splitlines():
    if line.startswith('{'):
      return json.loads(line)['items']
  return [dict(whole=dict(err=None, result=[]), merged=dict(err='ChildDied', result=[], msg=p.stderr[-300:])) for _ in items]


if __name__ == '__main__':
  _main()
