import Driver.Util
import MlModel.Model.PipeLib
import MlModel.Model.PipeFnless
open Lean MlModel MlModel.Iter MlModel.Pipe
namespace Driver.Pipe

def kindOfName : String → Except String ErrKind
  | "ValueError" => .ok .value | "TypeError" => .ok .type | "KeyError" => .ok .key
  | "IndexError" => .ok .index | "TimeoutError" => .ok .timeout | "StopIteration" => .ok .stop
  | "RuntimeError" => .ok .runtime | "AssertionError" => .ok .assertion
  | "AttributeError" => .ok .attr | "NotImplementedError" => .ok .notImpl
  | "ZeroDivisionError" => .ok .zeroDiv | "Exception" => .ok .other
  | s => .error s!"bad error kind {s}"

/-- values on the wire: null / bool / int / string are themselves, `{"l":[..]}` list,
`{"t":[..]}` tuple, `{"d":{..}}` dict, `{"null":true}` the NullMap placeholder -/
partial def parseVal (j : Json) : Except String Val :=
  match j with
  | .null => .ok .none
  | .bool b => .ok (.bool b)
  | .num _ => do let i ← j.getInt?; return .int i
  | .str s => .ok (.str s)
  | .obj _ =>
    match j.getObjVal? "l", j.getObjVal? "t", j.getObjVal? "d" with
    | .ok (.arr xs), _, _ => do return .list (← xs.toList.mapM parseVal)
    | _, .ok (.arr xs), _ => do return .tuple (← xs.toList.mapM parseVal)
    | _, _, .ok (.obj kvs) => do
      let items ← kvs.toList.mapM fun (k, v) => do return (k, ← parseVal v)
      return .dict items
    | _, _, _ => if (j.getObjVal? "null").toOption.isSome then .ok .null else .error s!"bad value {j}"
  | _ => .error s!"bad value {j}"

partial def valJson : Val → Json
  | .none => .null
  | .null => Json.mkObj [("null", true)]
  | .bool b => .bool b
  | .int i => toJson i
  | .str s => .str s
  | .list xs => Json.mkObj [("l", Json.arr (xs.map valJson).toArray)]
  | .tuple xs => Json.mkObj [("t", Json.arr (xs.map valJson).toArray)]
  | .dict kvs => Json.mkObj [("d", Json.mkObj (kvs.map fun (k, v) => (k, valJson v)))]

def parseSeg (j : Json) : Except String Seg :=
  match j with
  | .str s => .ok (.name s)
  | .num _ => do let i ← j.getNat?; return .idx i
  | _ => .error s!"bad path segment {j}"

def parseKey (j : Json) : Except String Key := do
  if let .ok s := j.getObjValAs? String "n" then return .name s
  if let .ok i := j.getObjValAs? Nat "i" then return .index i
  if let .ok (.arr p) := j.getObjVal? "p" then return .path (← p.toList.mapM parseSeg)
  if (j.getObjVal? "self").toOption.isSome then return .self
  if (j.getObjVal? "skip").toOption.isSome then return .skip
  if let .ok v := j.getObjVal? "lit" then return .lit (← parseVal v)
  throw s!"bad key {j}"

def parseNamedKeys (xs : Array Json) : Except String (List (String × Key)) :=
  xs.toList.mapM fun it => do
    let a ← it.getArr?
    if h : a.size = 2 then
      return (← a[0].getStr?, ← parseKey a[1])
    else throw s!"bad named key {it}"

/-- the items of a dict output key `{"dk": [[record_key, key_into_the_output], ..]}`: the record key
is a bare string (a name) or any key object -/
def parseDictItems (xs : Array Json) : Except String (List (Key × Key)) :=
  xs.toList.mapM fun it => do
    let a ← it.getArr?
    if h : a.size = 2 then
      let rk ← match a[0] with
        | .str s => pure (Key.name s)
        | k => parseKey k
      return (rk, ← parseKey a[1])
    else throw s!"bad dict key item {it}"

def parseOutKey (j : Json) : Except String OutKey := do
  if let .ok (.arr items) := j.getObjVal? "dk" then return .dict (← parseDictItems items)
  return .key (← parseKey j)

def parseInSpec (j : Json) : Except String Build.InSpec := do
  if let .ok k := j.getObjVal? "one" then return .single (← parseKey k)
  if let .ok (.arr ks) := j.getObjVal? "many" then return .many (← ks.toList.mapM parseKey)
  if let .ok (.arr items) := j.getObjVal? "kw" then return .kwargs (← parseNamedKeys items)
  throw s!"bad input key spec {j}"

def parseOutSpec (j : Json) : Except String Build.OutSpec := do
  if let .ok k := j.getObjVal? "one" then return .single (← parseOutKey k)
  if let .ok (.arr ks) := j.getObjVal? "many" then return .many (← ks.toList.mapM parseOutKey)
  throw s!"bad output key spec {j}"

def parseInts (j : Json) (k : String) : Except String (List Int) := do
  (← Driver.getArr j k).toList.mapM (·.getInt?)

def parseFn (j : Json) : Except String Lib.NamedFn := do
  let name ← Driver.getStr j "f"
  match name with
  | "add1" => return .add1 | "pair" => return .pair | "swap" => return .swap | "sum2" => return .sum2
  | "is_even" => return .isEven | "neg" => return .neg | "ident" => return .ident
  | "mk_dict" => return .mkDict | "triple" => return .triple | "wrap1" => return .wrap1
  | "empty" => return .empty | "first" => return .first | "tup" => return .tup
  | "counter" => return .counter
  | "const" => return .const (← parseVal (← j.getObjVal? "c"))
  | "gt" => return .gt (← Driver.getInt j "c")
  | "fail_on" => return .failOn (← parseInts j "s") (← kindOfName (← Driver.getStr j "kind"))
  | "v_add1" => return .vAdd1 | "v_pair" => return .vPair | "v_sum2" => return .vSum2
  | "v_fail_on" => return .vFailOn (← parseInts j "s") (← kindOfName (← Driver.getStr j "kind"))
  | s => throw s!"bad function {s}"

def parseOptFn (j : Json) (k : String) : Except String (Option UFn) :=
  match j.getObjVal? k with
  | .error _ => .ok none
  | .ok .null => .ok none
  | .ok f => do return some (← parseFn f).toUFn

def natOr0 (j : Json) (k : String) : Nat := (j.getObjValAs? Nat k).toOption.getD 0

def parseSpec (j : Json) : Except String Build.Spec := do
  let op ← Driver.getStr j "op"
  match op with
  | "select" =>
    let out ← match j.getObjVal? "out" with
      | .ok .null => pure none
      | .error _ => pure none
      | .ok o => do pure (some (← parseOutSpec o))
    return .select (← parseInSpec (← j.getObjVal? "in")) out (natOr0 j "batch")
  | "apply" =>
    return .apply (← parseOptFn j "fn") 0 (← parseInSpec (← j.getObjVal? "in"))
      (← parseOutSpec (← j.getObjVal? "out")) (natOr0 j "fn_batch") (natOr0 j "batch")
  | "assign" =>
    return .assign (← parseOutSpec (← j.getObjVal? "keys")) (← parseOptFn j "fn") 0
      (← parseInSpec (← j.getObjVal? "in")) (natOr0 j "fn_batch") (natOr0 j "batch")
  | "filter" =>
    return .filter (← parseFn (← j.getObjVal? "fn")).toUFn 0 (← parseInSpec (← j.getObjVal? "in"))
  | "batch" => return .batch (natOr0 j "n")
  | "sink" =>
    return .sink (← Driver.getBool j "is_sink") (← parseFn (← j.getObjVal? "fn")).toUFn 0
      (← parseInSpec (← j.getObjVal? "in"))
  | "aggregate" =>
    return .aggregate (← Driver.getBool j "has_fn") (← parseOutSpec (← j.getObjVal? "out"))
  | s => throw s!"bad op {s}"

/-- the data source on the wire: `items`, `fail` = `[[index, kind], ..]` (reading that element
raises), `src_ignore` (`SequenceDataSource(ignore_error=True)`: `iter_ignore_error` around the
range iterator), `kind` = `gen` (a Python generator: dead after its first exception; every other
kind — `list`, `seq`, `iter` — is resumable: the events as given) -/
def parseSrc (j : Json) : Except String (List (Ev Val)) := do
  let items ← (← Driver.getArr j "items").toList.mapM parseVal
  -- `twice`: the same record objects are delivered a second time (values: the list twice)
  let items := if (j.getObjValAs? Bool "twice").toOption.getD false then items ++ items else items
  let fails ← match j.getObjVal? "fail" with
    | .ok (.arr xs) => xs.toList.mapM fun it => do
        let a ← it.getArr?
        if h : a.size = 2 then
          return ((← a[0].getNat?), (← kindOfName (← a[1].getStr?)))
        else throw s!"bad fail entry {it}"
    | _ => pure []
  let evs : List (Ev Val) := items.zipIdx.map fun (v, i) =>
    match fails.find? (·.1 == i) with
    | some (_, k) => .error { kind := k }
    | none => .ok v
  let srcIgnore := (j.getObjValAs? Bool "src_ignore").toOption.getD false
  let gen := (j.getObjValAs? Bool "gen").toOption.getD false ||
    (j.getObjValAs? String "kind").toOption == some "gen"
  let evs := if gen then cutAfterErr evs else evs
  return if srcIgnore then ignoreErr none evs else evs

def argsJson (a : List Val × List (String × Val)) : Json :=
  Json.mkObj [("a", Json.arr (a.1.map valJson).toArray),
              ("k", Json.mkObj (a.2.map fun (k, v) => (k, valJson v)))]

def errJsons (e : Option Err) : List (String × Json) :=
  match e with
  | none => [("err", Json.null), ("cause", Json.null)]
  | some e => [("err", Driver.errJson e.kind), ("cause", Driver.optErrJson e.cause)]

/-- `SelfAlone` (Lemmas/Pipe.lean) as a Boolean -/
def selfAloneB (op : Op) : Bool :=
  match op.outKeys with
  | k :: _ :: _ => !k.isSelf
  | _ => true

/-- a builder call without a function and without batch sizes: `select`, `apply` / `assign` with `fn=None` -/
def fnlessSpec : Build.Spec → Bool
  | .select _ _ batch => batch == 0
  | .apply fn _ _ _ fnBatch batch => fn.isNone && fnBatch == 0 && batch == 0
  | .assign _ fn _ _ fnBatch batch => fn.isNone && fnBatch == 0 && batch == 0
  | _ => false

/-- `{"model":"pipe","specs":[..],"src":{..},"ignore":bool}` → the builder's verdict and, if it
accepts, the implementation model's run; `ref_*`: the reference interpreter's run when no operator
has batch sizes; `refb_*`: the reference for chains with batched `apply` / `select` / `batch`
operators (`Ref.chainEventsG`) and whether the decidable side conditions of
`C08_refines_batched_partial` hold (`refb_ok`); `refs_*`: the reference `Ref.chainEventsS` (any source,
passed-on skippable errors skipped) and `refa_ok` = `Ref.runOKAB` (the decidable side conditions of
`C12_skip_any_partial` / `C08_refines_assign_aligned_partial`); `fnless_*`: for chains of un-batched operators
WITHOUT functions the direct specification `Ref.fnlessChainS` (values routed, nothing called or packed; any source) and
`fnless_ok` = the side condition of `C08_fnless_chain_any_source` (`SelfAlone`; un-batched and fn-less by `fnlessSpec`). -/
def handle (j : Json) : Except String Json := do
  let specs ← (← Driver.getArr j "specs").toList.mapM parseSpec
  match Build.build {} specs with
  | .error k => return Json.mkObj [("build", Driver.errJson k)]
  | .ok st =>
    let ops := st.fns
    let src ← parseSrc (← j.getObjVal? "src")
    let ignore ← Driver.getBool j "ignore"
    let r := Impl.run ignore ops src
    let sinkIdx := (ops.zipIdx.filter fun (op, _) => op.kind == .sink).map (·.2)
    let logsOf (logs : List (List (List Val × List (String × Val)))) : Json :=
      Json.arr (sinkIdx.map fun i => Json.arr ((logs.getD i []).map argsJson).toArray).toArray
    let base : List (String × Json) :=
      [("build", Json.null), ("n_ops", toJson ops.length),
       ("out", Json.arr (r.out.map valJson).toArray)] ++ errJsons r.err ++
      [("logs", logsOf r.logs), ("closed", toJson r.closed)] ++
      -- the caller who goes on after the first error (`Impl.runPost`, theorem C12_first_error_is_final)
      (match Impl.runPost ignore ops src ((j.getObjValAs? Nat "post_next").toOption.getD 2) with
       | none => [("post", Json.null)]
       | some p =>
         let call : Option (Ev Val) → Json
           | none => "stop"
           | some (.ok _) => "value"
           | some (.error e) => Json.str ("raise:" ++ e.kind.name)
         [("post", Json.mkObj [
            ("calls", Json.arr (p.calls.map call).toArray),
            ("delivered", Json.arr ((p.calls.filterMap fun c => match c with | some (.ok v) => some (valJson v) | _ => none)).toArray),
            ("closed_at_error", toJson p.closedAtError), ("closed_after", toJson p.closedAfter)])])
    let unbatched := ops.all fun op => op.fnBatch == 0 && op.batch == 0
    let refPart : List (String × Json) :=
      if unbatched then
        -- the reference of the theorems (`sem` lifted to streams, operator after operator) and the
        -- record-after-record formulation (which also says what every sink has seen)
        let (rout, rerr) := observe (Ref.chainEvents ignore ops src)
        let rr := Ref.chain ignore ops src
        [("ref_clean", toJson (Ref.cleanRunB ignore ops src)),
         ("ref_out", Json.arr (rout.map valJson).toArray),
         ("ref_err", match rerr with | none => Json.null | some e => Driver.errJson e.kind),
         ("ref_logs", logsOf rr.logs),
         ("ref2_out", Json.arr (rr.out.map valJson).toArray),
         ("ref2_err", match rr.err with | none => Json.null | some e => Driver.errJson e.kind)]
      else
        let (rout, rerr) := observe (Ref.chainEventsG ignore ops src)
        [("refb_ok", toJson (Ref.runOKB ignore ops src && ops.all selfAloneB)),
         ("refb_out", Json.arr (rout.map valJson).toArray),
         ("refb_err", match rerr with | none => Json.null | some e => Driver.errJson e.kind),
         ("refb_cause", match rerr with | none => Json.null | some e => Driver.optErrJson e.cause)]
    -- the reference for chains over ANY source (`Ref.chainEventsS`: every operator skips the skippable errors
    -- passed on to it) and the Boolean side conditions of `C12_skip_any_partial` (all operators un-batched) /
    -- `C08_refines_assign_aligned_partial` (aligned `assign`s with `batch_size` among them): `Ref.runOKAB`
    let (sout, serr) := observe (Ref.chainEventsS ignore ops src)
    let refS : List (String × Json) :=
      [("refa_ok", toJson (Ref.runOKAB ignore ops src)),
       ("refa_assign", toJson (ops.any fun op => op.kind == .assign && op.batch != 0)),
       ("refs_out", Json.arr (sout.map valJson).toArray),
       ("refs_err", match serr with | none => Json.null | some e => Driver.errJson e.kind),
       ("refs_cause", match serr with | none => Json.null | some e => Driver.optErrJson e.cause)]
    let refF : List (String × Json) :=
      if specs.all fnlessSpec then
        let (fout, ferr) := observe (Ref.fnlessChainS ignore ops src)
        [("fnless_ok", toJson (ops.all selfAloneB)),
         ("fnless_out", Json.arr (fout.map valJson).toArray),
         ("fnless_err", match ferr with | none => Json.null | some e => Driver.errJson e.kind)]
      else []
    return Json.mkObj (base ++ refPart ++ refS ++ refF)

end Driver.Pipe
