import Driver.Util
import MlModel.Model.Agg.Confusion
import MlModel.Model.QSqrt
/-!
Driver handler for the classification family (model name "aggclassification").

ops:
* `rates`  — evaluate every generated rate on given confusion matrices (translator validation)
* `run`    — construct an accumulator, feed shards batch by batch, merge along a tree, read the result
             (ConfusionMatrixAggFn / TopKConfusionMatrixAggFn / SamplewiseClassification / the
             ClassificationAggFn wrapper; `fn=true` adds `verify_input`, i.e. the one-shot functions)

Rationals are `{"n":..,"d":..}`; a value containing a square root is `{"a":q,"b":q,"r":q}` = a + b·√r
(exact; the harness finishes it in float64).
-/
open Lean MlModel MlModel.Agg.Confusion MlModel.Generated
namespace Driver.AggClassification

def parseLabels (j : Json) : Except String (List Int) := do
  (← j.getArr?).toList.mapM (·.getInt?)

def parseRows (j : Json) : Except String Rows := do
  match j.getObjVal? "flat" with
  | .ok f => return .flat (← parseLabels f)
  | .error _ =>
    let n ← j.getObjVal? "nested"
    return .nested (← (← n.getArr?).toList.mapM parseLabels)

def parseBatch (j : Json) : Except String Batch := do
  let yt ← parseRows (← j.getObjVal? "yt")
  let yp ← parseRows (← j.getObjVal? "yp")
  let order ← match j.getObjVal? "order" with
    | .ok o => parseLabels o
    | .error _ => pure []
  return { yTrue := yt, yPred := yp, order := order }

def parseVocab (j : Json) : Except String (Option Vocab) := do
  match j with
  | .null => return none
  | _ =>
    let es ← (← j.getArr?).toList.mapM fun e => do
      let a ← e.getArr?
      if a.size != 2 then throw "vocab entry"
      let l ← a[0]!.getInt?
      let i ← a[1]!.getNat?
      pure (l, i)
    return some es

def parseCfg (j : Json) : Except String RawCfg := do
  let ms ← (← Driver.getArr j "metrics").toList.mapM (·.getStr?)
  let vocab ← match j.getObjVal? "vocab" with
    | .ok v => parseVocab v
    | .error _ => pure none
  let kl ← match j.getObjVal? "k_list" with
    | .ok .null => pure []
    | .ok v => parseLabels v
    | .error _ => pure []
  return { metrics := ms, single := ← Driver.getBool j "single", posLabel := ← Driver.getInt j "pos_label",
           inputType := ← Driver.getStr j "input_type", average := ← Driver.getStr j "average",
           vocab := vocab, kList := kl }

partial def parseTree (j : Json) : Except String MTree :=
  match j with
  | .arr a => do return .node (← a.toList.mapM parseTree)
  | _ => do return .leaf (← j.getNat?)

/-! ### output -/

def arrJson {α : Type} (f : α → Json) : Arr α → Json
  | .s x => f x
  | .v xs => Json.arr (xs.map f).toArray
  | .m rows => Json.arr (rows.map fun r => Json.arr (r.map f).toArray).toArray

def cmJson (c : CMArr) : Json :=
  Json.mkObj [("cm", Json.mkObj [("tp", arrJson (fun (x : Int) => toJson x) c.tp),
    ("tn", arrJson (fun (x : Int) => toJson x) c.tn), ("fp", arrJson (fun (x : Int) => toJson x) c.fp),
    ("fn", arrJson (fun (x : Int) => toJson x) c.fn)])]

def rvalJson : RVal → Json
  | .cm c => cmJson c
  | .val a => arrJson Driver.optRatJson a

def errOut (e : ErrKind) : Json := Json.mkObj [("err", Json.str e.name)]

/-! ### square-root rates in ℚ(√r) -/

def toQ (r : Rat) (c : CM Rat) : CM (QSqrt r) :=
  { tp := { a := c.tp }, tn := { a := c.tn }, fp := { a := c.fp }, fn := { a := c.fn } }

/-- one rate on one cell: rational, or `a + b√r` for the rates that call `pos_sqrt` -/
def evalCell (m : Metric) (c : CM Rat) : Except String Json :=
  match radicand? (α := Rat) m with
  | none =>
    match derive (α := Rat) (fun _ => 0) m, derive (α := Rat) (fun _ => 1) m with
    | .rate f, .rate g =>
      if f c = g c then .ok (Driver.ratJson (f c)) else .error s!"rate {m.value} depends on sqrt but has no radicand"
    | .self, _ => .ok (Json.str "self")
    | _, _ => .ok (Json.str "notimpl")
  | some rf =>
    let r0 := rf c
    -- a rational square needs no extension; any non-square works as the (unused) generator then
    let r : Rat := if (ratSqrt? r0).isSome then 2 else r0
    match derive (α := QSqrt r) QSqrt.sqrt m with
    | .rate f =>
      let x := f (toQ r c)
      if x.bad then .error s!"rate {m.value}: value left Q(sqrt {r}) (radicand {r0})"
      else .ok (Json.mkObj [("a", Driver.ratJson x.a), ("b", Driver.ratJson x.b), ("r", Driver.ratJson r)])
    | _ => .error "radicand without rate"

def actionJson : AvgAction → Json
  | .identity => Json.str "identity"
  | .meanAxis ax => Json.mkObj [("mean", toJson ax)]
  | .assertionError => Json.str "assert"
  | .notImplemented => Json.str "notimpl"

def arrMapM {α β : Type} (f : α → Except String β) : Arr α → Except String (Arr β)
  | .s x => .s <$> f x
  | .v xs => .v <$> xs.mapM f
  | .m rows => .m <$> rows.mapM (·.mapM f)

/-- result of one metric on a confusion-matrix state: the model's `deriveMetric` for rational rates,
the same control flow with per-cell surds for the two square-root rates -/
def metricJson (st : CMArr) (m : Metric) (average : Option String) : Except String (Except ErrKind Json) :=
  match radicand? (α := Rat) m with
  | none =>
    let a := deriveMetric (fun _ => 0) st m average
    let b := deriveMetric (fun _ => 1) st m average
    let same := match a, b with
      | .ok x, .ok y => x == y
      | .error x, .error y => x == y
      | _, _ => false
    if !same then .error s!"metric {m.value} depends on sqrt but has no radicand"
    else .ok (rvalJson <$> a)
  | some _ =>
    match st.cells with
    | .error e => .ok (.error e)
    | .ok cells => do
      let cs ← arrMapM (evalCell m) cells
      match avgAction average with
      | .assertionError => pure (.error .assertion)
      | .notImplemented => pure (.error .notImpl)
      | act => pure (.ok (Json.mkObj [("surd", Json.mkObj [("cells", arrJson id cs), ("action", actionJson act)])]))

def packJson (c : Cfg) (kv : List (Metric × Json)) : Except ErrKind Json :=
  if c.single then
    match kv with
    | (_, v) :: _ => .ok v
    | [] => .error .key
  else .ok (Json.mkObj (kv.map fun (m, v) => (m.value, v)))

def resultJson (c : Cfg) (st : Option CMArr) : Except String (Except ErrKind Json) :=
  match st with
  | none => pure (if c.metrics.isEmpty then packJson c [] else .error .attr)
  | some s => do
    let mut kv : List (Metric × Json) := []
    for m in c.metrics do
      match ← metricJson s m (some c.average.value) with
      | .error e => return .error e
      | .ok j => kv := kv ++ [(m, j)]
    pure (packJson c kv)

/-! ### running -/

def usesSqrt (m : Metric) : Bool := (radicand? (α := Rat) m).isSome

partial def evalTreeSw (states : Array SwState) : MTree → Except String SwState
  | .leaf i => match states[i]? with
    | some s => pure s
    | none => throw "tree leaf out of range"
  | .node ts => do
    let ss ← ts.mapM (evalTreeSw states)
    match ss with
    | [] => throw "empty merge node"
    | s :: rest => pure (rest.foldl swMerge s)

def perExampleJson (kv : List (Metric × List Rat)) : Json :=
  Json.mkObj (kv.map fun (m, xs) => (m.value, Json.arr (xs.map Driver.ratJson).toArray))

def runSamplewise (c : Cfg) (shards : List (List Batch)) (tree : MTree) : Except String Json := do
  -- rational metrics through the model; square-root metrics per example in ℚ(√r)
  let cRat := { c with metrics := c.metrics.filter (fun m => !usesSqrt m) }
  let mut states : Array SwState := #[]
  let mut perEx : Array Json := #[]
  let mut surdCells : Array (List (Metric × List Json)) := #[]
  for shard in shards do
    let mut st : SwState := SwState.empty
    let mut pe : List Json := []
    let mut sc : List (Metric × List Json) := []
    for b in shard do
      match swAdd (fun _ => 0) cRat st b with
      | .error e => return errOut e
      | .ok (scores, st') =>
        st := st'
        let mut extra : List (String × Json) := []
        for m in c.metrics.filter usesSqrt do
          match batchCM c b >>= (·.cells) with
          | .error e => return errOut e
          | .ok (.v cells) =>
            let js ← cells.mapM (evalCell m)
            sc := sc ++ [(m, js)]
            extra := extra ++ [(m.value, Json.arr js.toArray)]
          | .ok _ => throw "samplewise cells are not 1-d"
        let base := scores.map fun (m, xs) => (m.value, Json.arr (xs.map Driver.ratJson).toArray)
        pe := pe ++ [Json.mkObj (base ++ extra)]
    states := states.push st
    perEx := perEx.push (Json.arr pe.toArray)
    surdCells := surdCells.push sc
  let st ← evalTreeSw states tree
  let leaves := tree.leaves
  let kv : List (Metric × Json) := c.metrics.map fun m =>
    if usesSqrt m then
      let cells := (leaves.map fun i => ((surdCells[i]?.getD []).filter (·.1 == m)).map (·.2)).flatten.flatten
      (m, Json.mkObj [("surd_mean", Json.arr cells.toArray)])
    else (m, Driver.ratJson (meanStateResult (st.get m)))
  match packJson c kv with
  | .error e => return errOut e
  | .ok r => return Json.mkObj [("result", r), ("per_example", Json.arr perEx)]

def runCM (c : Cfg) (shards : List (List Batch)) (tree : MTree) : Except String Json := do
  let mut states : Array (Option CMArr) := #[]
  for shard in shards do
    match feedApi c shard with
    | .error e => return errOut e
    | .ok s => states := states.push s
  match evalTree c states.toList tree with
  | .error e => return errOut e
  | .ok st =>
    match ← resultJson c st with
    | .error e => return errOut e
    | .ok r => return Json.mkObj [("result", r)]

def handleRun (j : Json) : Except String Json := do
  let raw ← parseCfg (← j.getObjVal? "cfg")
  let kind ← Driver.getStr j "kind"
  let shards ← (← Driver.getArr j "shards").toList.mapM fun s => do (← s.getArr?).toList.mapM parseBatch
  let tree ← parseTree (← j.getObjVal? "tree")
  let fn ← match j.getObjVal? "fn" with
    | .ok v => v.getBool?
    | .error _ => pure false
  if fn then
    match shards with
    | [[b]] => match verifyInput raw b with
      | .error e => return Json.mkObj [("err", Json.str e.name), ("stage", "verify_input")]
      | .ok () => pure ()
    | _ => throw "fn mode needs exactly one batch"
  let cfg := match kind with
    | "cm" => constructCM raw
    | "topk" => constructTopK raw
    | "samplewise" => constructSamplewise raw
    | _ => constructWrapper raw
  match cfg with
  | .error e => return Json.mkObj [("err", Json.str e.name), ("stage", "construct")]
  | .ok c =>
    match c.kind with
    | .samplewise => runSamplewise c shards tree
    | _ => runCM c shards tree

def handleRates (j : Json) : Except String Json := do
  let cms ← (← Driver.getArr j "cms").toList.mapM fun c => do
    let a ← c.getArr?
    if a.size != 4 then throw "cm needs [tp,tn,fp,fn]"
    let g (i : Nat) : Except String Rat := do
      match ← Driver.parseOptRat a[i]! with
      | some q => pure q
      | none => throw "nan count"
    pure ({ tp := ← g 0, tn := ← g 1, fp := ← g 2, fn := ← g 3 } : CM Rat)
  let rows ← cms.mapM fun c => do
    let kv ← Metric.all.mapM fun m => do pure (m.value, ← evalCell m c)
    pure (Json.mkObj kv)
  return Json.mkObj [("rows", Json.arr rows.toArray),
    ("functions", Json.mkObj (Metric.all.map fun m => (m.value, Json.str m.pyFunction)))]

def handle (j : Json) : Except String Json := do
  match ← Driver.getStr j "op" with
  | "rates" => handleRates j
  | "run" => handleRun j
  | op => throw s!"unknown op {op}"

end Driver.AggClassification
