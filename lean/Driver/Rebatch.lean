import Driver.Util
import MlModel.Model.Rebatch
open Lean MlModel MlModel.Rebatch
namespace Driver.Rebatch

def kindOf : String → Except String Kind
  | "list" => .ok .list | "tuple" => .ok .tuple | "array" => .ok .array | "other" => .ok .other
  | s => .error s!"bad kind {s}"

def kindStr : Kind → String
  | .list => "list" | .tuple => "tuple" | .array => "array" | .other => "other"

def parseCol (j : Json) : Except String (Col Int) := do
  let k ← kindOf (← Driver.getStr j "k")
  let r ← (← Driver.getArr j "r").toList.mapM (·.getInt?)
  return { kind := k, rows := r }

def parseBatch (j : Json) : Except String (Batch Int) := do
  (← j.getArr?).toList.mapM parseCol

def colJson (c : Col Int) : Json :=
  Json.mkObj [("k", kindStr c.kind), ("r", toJson c.rows)]

def handle (j : Json) : Except String Json := do
  let target ← Driver.getNat j "target"
  let ncols ← Driver.getNat j "ncols"
  let pad ← Driver.getOptInt j "pad"
  let bs ← (← Driver.getArr j "batches").toList.mapM parseBatch
  let r := run target ncols pad bs
  return Json.mkObj [
    ("out", Json.arr (r.out.map fun b => Json.arr (b.map colJson).toArray).toArray),
    ("err", Driver.optErrJson r.err)]

end Driver.Rebatch
